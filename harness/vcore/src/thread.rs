//! THREAD: lock-granularity schedule explorer for the synchronous index
//! crates (`anda_db_btree`, `anda_db_tfs`).
//!
//! loom / shuttle cannot see the `DashMap` and `parking_lot` locks those
//! crates use, so the real code runs on real OS threads, **exactly one at a
//! time**. The crates carry cfg-guarded yield points
//! (`anda_db_utils::verif_point!`) immediately before every lock acquisition
//! / atomic read-modify-write of their mutators, always at places where the
//! thread holds no shard guard and no `btree`/`metadata` lock. A thread that
//! reaches a point takes the scheduling decision itself (under the engine's
//! lock, asking the [`Chooser`] which thread runs next): continuing costs no
//! context switch, a real switch wakes the chosen thread and parks this one.
//! The one lock that is held across points (`mutation_gate`) is hooked as a
//! *visible wait* (`verif_wait!(tag, || predicate)`): the thread is parked
//! and counts as enabled only while its predicate holds; predicates are
//! evaluated at decision time, while every worker is parked, which is safe
//! because nobody runs.
//!
//! Safe Rust plus these libraries is data-race free and every shared access
//! sits inside a lock-protected section or an atomic, so an interleaving of
//! the sections between points is an interleaving of the program under
//! sequential consistency. Not modelled: weak-memory reorderings of `Relaxed`
//! atomics.
//!
//! One call of [`run_threads`] = one execution. Put it inside the `run_one`
//! closure of [`crate::choice::explore`] to enumerate all schedules up to a
//! preemption bound (same option order and costs as `step::Sched::options`).

use crate::choice::Chooser;
use anda_db_utils::verif::{Scheduler, install_scheduler};
use parking_lot::{Condvar, Mutex};
use std::any::Any;
use std::panic::{AssertUnwindSafe, catch_unwind, resume_unwind};
use std::sync::Arc;
use std::time::Duration;

/// Tag of the implicit point every worker is parked at before its closure
/// starts.
pub const START: &str = "start";

#[derive(Clone, Copy, Debug, PartialEq, Eq)]
enum St {
    /// Spawned, has not reached its start point yet.
    Spawning,
    /// Parked at a plain point: enabled.
    AtPoint,
    /// Parked in a visible wait: enabled iff its predicate holds.
    Waiting,
    Running,
    Finished,
}

/// Borrowed predicate of a parked worker. Only dereferenced by whoever takes
/// the scheduling decision, under the state lock, while that worker is parked
/// inside `wait_until` (the borrow is alive) and no worker runs.
struct PredPtr(*const (dyn Fn() -> bool + 'static));
unsafe impl Send for PredPtr {}

type Observer<'a> = dyn FnMut(&[(u8, &'static str)]) + Send + 'a;

/// The caller's chooser and observer, lent to the workers for the duration of
/// one execution (the caller blocks meanwhile; access is serialised by the
/// state lock).
struct Lent {
    chooser: *mut Chooser,
    observer: *mut Observer<'static>,
}
unsafe impl Send for Lent {}

struct Slot {
    st: St,
    tag: &'static str,
    pred: Option<PredPtr>,
    /// Message of a genuine panic of the worker closure.
    panic: Option<String>,
}

struct State {
    slots: Vec<Slot>,
    /// The one worker that is allowed to run right now.
    running: Option<usize>,
    last: Option<usize>,
    started: bool,
    /// Tear-down: a resumed worker unwinds instead of continuing.
    abort: bool,
    end: Option<ExecEnd>,
    /// Every worker finished; the caller may collect the result.
    done: bool,
    trace: Vec<(u8, &'static str)>,
    /// Bumped at every park / finish (watchdog progress).
    progress: u64,
    max_steps: usize,
    lent: Lent,
}

struct Shared {
    state: Mutex<State>,
    ctl: Condvar,
    wake: Vec<Condvar>,
}

/// Payload used to unwind a parked worker during tear-down.
struct AbortExecution;

thread_local! {
    /// Set while this thread takes a scheduling decision: a yield point
    /// reached from the observer or a predicate must not park.
    static DECIDING: std::cell::Cell<bool> = const { std::cell::Cell::new(false) };
}

/// Takes the next scheduling decision. Called with the state lock held by the
/// thread that just parked or finished (nobody runs). There is no controller
/// thread: continuing the same thread costs no context switch at all, only a
/// real switch wakes another OS thread.
fn decide(sh: &Shared, g: &mut State) {
    DECIDING.with(|d| d.set(true));
    decide_inner(sh, g);
    DECIDING.with(|d| d.set(false));
}

fn decide_inner(sh: &Shared, g: &mut State) {
    let n = g.slots.len();
    loop {
        if g.end.is_some() {
            // Tear-down: release the unfinished workers one at a time; each
            // unwinds and calls `decide` again when it has finished.
            match g.slots.iter().position(|s| s.st != St::Finished) {
                Some(t) => {
                    g.abort = true;
                    g.running = Some(t);
                    sh.wake[t].notify_one();
                }
                None => {
                    g.done = true;
                    sh.ctl.notify_one();
                }
            }
            return;
        }
        if let Some(t) = g.slots.iter().position(|s| s.panic.is_some()) {
            g.end = Some(ExecEnd::Panic {
                thread: t,
                message: g.slots[t].panic.clone().unwrap_or_default(),
            });
            continue;
        }
        // Safety: the lender blocks in `run_threads_observed` until `done`.
        unsafe { (*g.lent.observer)(&g.trace) };
        let enabled: Vec<usize> = (0..n)
            .filter(|&t| match g.slots[t].st {
                St::AtPoint => true,
                St::Waiting => match &g.slots[t].pred {
                    // Safety: worker `t` is parked inside `wait_until`.
                    Some(p) => unsafe { (*p.0)() },
                    None => true,
                },
                _ => false,
            })
            .collect();
        if enabled.is_empty() {
            if g.slots.iter().all(|s| s.st == St::Finished) {
                g.end = Some(ExecEnd::AllDone);
            } else {
                g.end = Some(ExecEnd::Deadlock(
                    (0..n)
                        .filter(|&t| g.slots[t].st != St::Finished)
                        .map(|t| (t, g.slots[t].tag))
                        .collect(),
                ));
            }
            continue;
        }
        if g.trace.len() >= g.max_steps {
            g.end = Some(ExecEnd::StepLimit);
            continue;
        }
        // Same option order / costs as `step::Sched::options`.
        let cont = g.last.filter(|l| enabled.contains(l));
        let mut opts = Vec::with_capacity(enabled.len());
        let mut costs: Vec<u8> = Vec::with_capacity(enabled.len());
        if let Some(l) = cont {
            opts.push(l);
            costs.push(0);
        }
        for &t in &enabled {
            if Some(t) != cont {
                opts.push(t);
                costs.push(if cont.is_some() { 1 } else { 0 });
            }
        }
        let pick = if opts.len() == 1 {
            0
        } else {
            // Safety: as for the observer.
            unsafe { (*g.lent.chooser).choose(&costs) }
        };
        let t = opts[pick];
        let tag = g.slots[t].tag;
        g.trace.push((t as u8, tag));
        g.last = Some(t);
        g.running = Some(t);
        sh.wake[t].notify_one();
        return;
    }
}

struct Handle {
    shared: Arc<Shared>,
    me: usize,
}

impl Handle {
    fn park(&self, st: St, tag: &'static str, pred: Option<PredPtr>) {
        // A point reached while unwinding (a Drop impl), or from inside a
        // scheduling decision (observer / predicate), must not park.
        if std::thread::panicking() || DECIDING.with(|d| d.get()) {
            return;
        }
        let sh = &*self.shared;
        let mut g = sh.state.lock();
        g.progress += 1;
        {
            let slot = &mut g.slots[self.me];
            slot.st = st;
            slot.tag = tag;
            slot.pred = pred;
        }
        if g.running == Some(self.me) {
            g.running = None;
            decide(sh, &mut g);
        } else if !g.started && g.slots.iter().all(|s| s.st != St::Spawning) {
            // Last worker to arrive at its start point.
            g.started = true;
            decide(sh, &mut g);
        }
        while g.running != Some(self.me) {
            sh.wake[self.me].wait(&mut g);
        }
        let slot = &mut g.slots[self.me];
        slot.st = St::Running;
        slot.pred = None;
        let abort = g.abort;
        drop(g);
        if abort {
            resume_unwind(Box::new(AbortExecution));
        }
    }

    fn finish(&self, panic: Option<String>) {
        let sh = &*self.shared;
        let mut g = sh.state.lock();
        g.progress += 1;
        let slot = &mut g.slots[self.me];
        slot.st = St::Finished;
        slot.pred = None;
        slot.panic = panic;
        if g.running == Some(self.me) {
            g.running = None;
        }
        if g.started || g.slots.iter().all(|s| s.st != St::Spawning) {
            g.started = true;
            decide(sh, &mut g);
        }
    }
}

impl Scheduler for Handle {
    fn point(&self, tag: &'static str) {
        self.park(St::AtPoint, tag, None);
    }

    fn wait_until(&self, tag: &'static str, pred: &dyn Fn() -> bool) {
        // Lifetime erasure: see `PredPtr`.
        let ptr: *const (dyn Fn() -> bool + '_) = pred;
        let ptr: *const (dyn Fn() -> bool + 'static) = unsafe { std::mem::transmute(ptr) };
        self.park(St::Waiting, tag, Some(PredPtr(ptr)));
    }
}

#[derive(Clone, Debug, PartialEq, Eq)]
pub enum ExecEnd {
    AllDone,
    /// Nobody enabled; the listed `(thread, tag)` are parked in a wait whose
    /// predicate is false.
    Deadlock(Vec<(usize, &'static str)>),
    /// A worker closure panicked (the others were torn down).
    Panic { thread: usize, message: String },
    /// More than `max_steps` scheduling steps (livelock guard).
    StepLimit,
}

#[derive(Clone, Debug)]
pub struct ExecResult<T> {
    pub end: ExecEnd,
    /// One entry per scheduling step: the thread resumed and the tag of the
    /// point it was resumed from.
    pub trace: Vec<(u8, &'static str)>,
    /// Return values of the worker closures (`None`: panicked / torn down).
    pub outputs: Vec<Option<T>>,
}

impl<T> ExecResult<T> {
    /// Compact rendering `0:start 0:insert:postings 1:start ...`.
    pub fn trace_string(&self) -> String {
        render_trace(&self.trace)
    }
}

pub fn render_trace(trace: &[(u8, &'static str)]) -> String {
    let mut s = String::new();
    for (i, (t, tag)) in trace.iter().enumerate() {
        if i > 0 {
            s.push(' ');
        }
        s.push_str(&format!("{t}:{tag}"));
    }
    s
}

#[derive(Clone, Copy, Debug)]
pub struct ExecConfig {
    /// A running worker that neither parks nor finishes within this time is a
    /// machinery error (a yield point placed under a real lock, or an endless
    /// loop) — the process exits with code 2. Default 60 s (a heavily
    /// overloaded box has been seen to delay a fresh worker thread by > 10 s);
    /// override with `VERIF_THREAD_WATCHDOG_S`.
    pub watchdog: Duration,
    pub max_steps: usize,
}

impl Default for ExecConfig {
    fn default() -> Self {
        let secs = std::env::var("VERIF_THREAD_WATCHDOG_S")
            .ok()
            .and_then(|v| v.parse::<u64>().ok())
            .unwrap_or(60);
        ExecConfig {
            watchdog: Duration::from_secs(secs),
            max_steps: 100_000,
        }
    }
}

pub type Body<'a, T> = Box<dyn FnOnce() -> T + Send + 'a>;

fn panic_message(p: &(dyn Any + Send)) -> String {
    if let Some(s) = p.downcast_ref::<&'static str>() {
        s.to_string()
    } else if let Some(s) = p.downcast_ref::<String>() {
        s.clone()
    } else {
        "non-string panic payload".to_string()
    }
}

/// Silences the default panic report for worker threads of this engine
/// (seeded breaks can panic in thousands of executions). Other threads keep
/// the previous hook.
pub fn quiet_worker_panics() {
    let prev = std::panic::take_hook();
    std::panic::set_hook(Box::new(move |info| {
        let worker = std::thread::current()
            .name()
            .map(|n| n.starts_with("vthread-"))
            .unwrap_or(false);
        if !worker {
            prev(info);
        }
    }));
}

type Job = Box<dyn FnOnce() + Send + 'static>;

enum Mail {
    Idle,
    Job(Job),
    Busy,
    Shutdown,
}

struct Mailbox {
    mail: Mutex<Mail>,
    cv: Condvar,
}

/// One parked OS thread that runs the worker jobs of successive executions.
struct PoolWorker {
    mb: Arc<Mailbox>,
    join: Option<std::thread::JoinHandle<()>>,
}

impl PoolWorker {
    fn spawn(k: usize) -> PoolWorker {
        let mb = Arc::new(Mailbox {
            mail: Mutex::new(Mail::Idle),
            cv: Condvar::new(),
        });
        let mb2 = mb.clone();
        let join = std::thread::Builder::new()
            .name(format!("vthread-{k}"))
            .stack_size(2 << 20)
            .spawn(move || {
                loop {
                    let job = {
                        let mut g = mb2.mail.lock();
                        loop {
                            match std::mem::replace(&mut *g, Mail::Busy) {
                                Mail::Job(j) => break j,
                                Mail::Shutdown => return,
                                other => {
                                    *g = other;
                                    mb2.cv.wait(&mut g);
                                }
                            }
                        }
                    };
                    job();
                    *mb2.mail.lock() = Mail::Idle;
                    mb2.cv.notify_all();
                }
            })
            .unwrap_or_else(|e| crate::report::machinery(&format!("THREAD: cannot spawn worker: {e}")));
        PoolWorker { mb, join: Some(join) }
    }

    fn submit(&self, job: Job) {
        let mut g = self.mb.mail.lock();
        debug_assert!(matches!(*g, Mail::Idle));
        *g = Mail::Job(job);
        self.mb.cv.notify_all();
    }

    fn wait_idle(&self) {
        let mut g = self.mb.mail.lock();
        while !matches!(*g, Mail::Idle) {
            self.mb.cv.wait(&mut g);
        }
    }
}

impl Drop for PoolWorker {
    fn drop(&mut self) {
        {
            let mut g = self.mb.mail.lock();
            if !matches!(*g, Mail::Idle) {
                // Only on the machinery-error path (`process::exit` runs this
                // thread's TLS destructors while a job is still parked):
                // never wait for it, detach the worker.
                return;
            }
            *g = Mail::Shutdown;
            self.mb.cv.notify_all();
        }
        if let Some(j) = self.join.take() {
            let _ = j.join();
        }
    }
}

thread_local! {
    static POOL: std::cell::RefCell<Vec<PoolWorker>> = const { std::cell::RefCell::new(Vec::new()) };
}

/// Runs ONE execution: every body on its own OS thread, one thread at a time,
/// the schedule decided by `chooser`.
pub fn run_threads<'a, T: Send + 'a>(
    chooser: &mut Chooser,
    bodies: Vec<Body<'a, T>>,
    cfg: ExecConfig,
) -> ExecResult<T> {
    run_threads_observed(chooser, bodies, cfg, &mut |_| {})
}

/// Like [`run_threads`]; `observer(trace_so_far)` is called before every
/// scheduling decision, while every worker is parked or finished — it may
/// query the shared fixture ("at any moment" invariants) because parked
/// workers hold no lock except `mutation_gate`. It runs on whichever thread
/// takes the decision (hence `Send`).
pub fn run_threads_observed<'a, T: Send + 'a>(
    chooser: &mut Chooser,
    bodies: Vec<Body<'a, T>>,
    cfg: ExecConfig,
    observer: &mut Observer<'_>,
) -> ExecResult<T> {
    let n = bodies.len();
    assert!(n > 0 && n < 200, "run_threads: 1..200 threads");
    let observer: *mut Observer<'_> = observer;
    let lent = Lent {
        chooser: chooser as *mut Chooser,
        // Lifetime erasure: the pointer is only used until `done`.
        observer: unsafe { std::mem::transmute::<*mut Observer<'_>, *mut Observer<'static>>(observer) },
    };
    let shared = Arc::new(Shared {
        state: Mutex::new(State {
            slots: (0..n)
                .map(|_| Slot {
                    st: St::Spawning,
                    tag: START,
                    pred: None,
                    panic: None,
                })
                .collect(),
            running: None,
            last: None,
            started: false,
            abort: false,
            end: None,
            done: false,
            trace: Vec::new(),
            progress: 0,
            max_steps: cfg.max_steps,
            lent,
        }),
        ctl: Condvar::new(),
        wake: (0..n).map(|_| Condvar::new()).collect(),
    });
    let outputs: Vec<Mutex<Option<T>>> = (0..n).map(|_| Mutex::new(None)).collect();

    // Workers come from a per-caller-thread pool of parked OS threads (thread
    // creation would dominate the cost of an execution otherwise).
    POOL.with(|pool| {
        let mut pool = pool.borrow_mut();
        while pool.len() < n {
            let k = pool.len();
            pool.push(PoolWorker::spawn(k));
        }
        for (me, body) in bodies.into_iter().enumerate() {
            let shared = shared.clone();
            let out = &outputs[me];
            let job: Box<dyn FnOnce() + Send + '_> = Box::new(move || {
                let handle = Arc::new(Handle { shared, me });
                install_scheduler(Some(handle.clone() as Arc<dyn Scheduler>));
                let r = catch_unwind(AssertUnwindSafe(|| {
                    handle.park(St::AtPoint, START, None);
                    body()
                }));
                install_scheduler(None);
                let mut panic = None;
                match r {
                    Ok(v) => *out.lock() = Some(v),
                    Err(p) => {
                        if !p.is::<AbortExecution>() {
                            panic = Some(panic_message(&*p));
                        }
                    }
                }
                handle.finish(panic);
            });
            // Safety (lifetime erasure): this function does not return before
            // every job has returned (`wait_idle` below), so everything the
            // job borrows outlives it.
            let job: Job = unsafe { std::mem::transmute::<Box<dyn FnOnce() + Send + '_>, Job>(job) };
            pool[me].submit(job);
        }

        // The caller only waits; the watchdog fires when no worker parks or
        // finishes for `cfg.watchdog`.
        {
            let mut g = shared.state.lock();
            let mut seen = g.progress;
            while !g.done {
                if shared.ctl.wait_for(&mut g, cfg.watchdog).timed_out() && !g.done {
                    if g.progress == seen {
                        let msg = format!(
                            "THREAD watchdog: worker {:?} neither parked nor finished within {:?} (arrived: {}/{}); trace so far: {}",
                            g.running,
                            cfg.watchdog,
                            g.slots.iter().filter(|s| s.st != St::Spawning).count(),
                            g.slots.len(),
                            render_trace(&g.trace)
                        );
                        drop(g);
                        crate::report::machinery(&msg);
                    }
                    seen = g.progress;
                }
            }
        }
        for w in pool.iter().take(n) {
            w.wait_idle();
        }
    });

    let mut g = shared.state.lock();
    ExecResult {
        end: g.end.take().unwrap_or(ExecEnd::AllDone),
        trace: std::mem::take(&mut g.trace),
        outputs: outputs.into_iter().map(|m| m.into_inner()).collect(),
    }
}

/// Determinism self-check: runs the execution selected by `choices` twice and
/// compares the `(thread, tag)` traces, the choice lists and `digest` of the
/// results. `Err` = uncontrolled nondeterminism (machinery error, exit 2).
pub fn check_replay<T>(
    choices: &[u32],
    run: impl Fn(&mut Chooser) -> (ExecResult<T>, String),
) -> Result<(), String> {
    let mut a = Chooser::new(choices.to_vec());
    let (ra, da) = run(&mut a);
    let mut b = Chooser::new(choices.to_vec());
    let (rb, db) = run(&mut b);
    if let Some(d) = a.diverged.as_ref().or(b.diverged.as_ref()) {
        return Err(format!("choice list {choices:?} cannot be replayed: {d}"));
    }
    if a.choices() != b.choices() {
        return Err(format!(
            "choice list {choices:?}: replay took different decisions {:?} vs {:?}",
            a.choices(),
            b.choices()
        ));
    }
    if ra.trace != rb.trace || ra.end != rb.end {
        return Err(format!(
            "choice list {choices:?}: traces differ\n  first : {} -> {:?}\n  second: {} -> {:?}",
            ra.trace_string(),
            ra.end,
            rb.trace_string(),
            rb.end
        ));
    }
    if da != db {
        return Err(format!(
            "choice list {choices:?}: same trace, different outcome\n  first : {da}\n  second: {db}"
        ));
    }
    Ok(())
}

/// Toy lost update on one shared cell guarded by the engine's own points:
/// must be found at preemption bound 1 and must not exist at bound 0. Also
/// checks that a visible wait blocks and that an all-blocked state is
/// reported as a deadlock. Returns a description of what failed.
pub fn selftest() -> Result<(), String> {
    use anda_db_utils::verif::{point, wait_until};
    use std::sync::atomic::{AtomicBool, AtomicU64, Ordering};
    use std::time::Instant;

    let lost_update = |ch: &mut Chooser| -> (ExecResult<()>, String) {
        let cell = AtomicU64::new(0);
        let body = || {
            point("toy:load");
            let v = cell.load(Ordering::SeqCst);
            point("toy:store");
            cell.store(v + 1, Ordering::SeqCst);
        };
        let r = run_threads(ch, vec![Box::new(body), Box::new(body)], ExecConfig::default());
        let v = cell.load(Ordering::SeqCst);
        (r, v.to_string())
    };
    for (bound, expect_lost) in [(0u32, false), (1u32, true)] {
        let mut finals = std::collections::BTreeSet::new();
        let stats = crate::choice::explore(
            bound,
            2,
            Instant::now() + Duration::from_secs(30),
            10_000,
            |ch| lost_update(ch).1,
            |_c, v| {
                finals.insert(v);
                true
            },
        );
        let lost = finals.contains("1");
        if stats.completed_bound != Some(bound) || lost != expect_lost || !finals.contains("2") {
            return Err(format!(
                "toy lost update at bound {bound}: finals {finals:?}, executions {}, expected lost={expect_lost}",
                stats.executions
            ));
        }
    }
    check_replay(&[0, 1], &lost_update)?;

    // Visible wait: thread 0 waits for a flag thread 1 sets; never a deadlock.
    let flag = AtomicBool::new(false);
    let mut ch = Chooser::new(vec![]);
    let r = run_threads(
        &mut ch,
        vec![
            Box::new(|| {
                wait_until("toy:wait", &|| flag.load(Ordering::SeqCst));
                1u8
            }) as Body<u8>,
            Box::new(|| {
                point("toy:set");
                flag.store(true, Ordering::SeqCst);
                2u8
            }),
        ],
        ExecConfig::default(),
    );
    if r.end != ExecEnd::AllDone || r.outputs != vec![Some(1), Some(2)] {
        return Err(format!("visible wait: {:?} trace {}", r.end, r.trace_string()));
    }
    // Nobody sets the flag: deadlock, and tear-down must not hang.
    let never = AtomicBool::new(false);
    let mut ch = Chooser::new(vec![]);
    let r = run_threads(
        &mut ch,
        vec![
            Box::new(|| wait_until("toy:wait", &|| never.load(Ordering::SeqCst))) as Body<()>,
            Box::new(|| point("toy:noop")),
        ],
        ExecConfig::default(),
    );
    if r.end != ExecEnd::Deadlock(vec![(0, "toy:wait")]) {
        return Err(format!("deadlock detection: {:?}", r.end));
    }
    // A panicking worker is reported, the other one is torn down.
    let mut ch = Chooser::new(vec![]);
    let r = run_threads(
        &mut ch,
        vec![
            Box::new(|| {
                point("toy:a");
                point("toy:b");
            }) as Body<()>,
            Box::new(|| {
                point("toy:boom");
                panic!("toy panic");
            }),
        ],
        ExecConfig::default(),
    );
    match &r.end {
        ExecEnd::Panic { thread: 1, message } if message.contains("toy panic") => {}
        // thread 0 runs to completion first under the default schedule
        other => return Err(format!("panic capture: {other:?}")),
    }
    Ok(())
}

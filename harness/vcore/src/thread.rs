pub mod placeholder {}

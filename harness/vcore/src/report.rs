//! Run context: tier/seed parsing, coverage counters, violations, known
//! findings, evidence and replay artefacts, exit codes.
//!
//! Exit codes: 0 = held on everything explored (known findings printed),
//! 1 = at least one violation not listed in known_findings.json,
//! 2 = machinery failure (never a verdict).

use serde_json::{Map, Value, json};
use std::collections::{BTreeMap, BTreeSet};
use std::path::PathBuf;
use std::time::Instant;

#[derive(Clone, Copy, Debug, PartialEq, Eq)]
pub enum Tier {
    Quick,
    Thorough,
}

impl Tier {
    pub fn as_str(&self) -> &'static str {
        match self {
            Tier::Quick => "quick",
            Tier::Thorough => "thorough",
        }
    }
    pub fn pick<T>(&self, quick: T, thorough: T) -> T {
        match self {
            Tier::Quick => quick,
            Tier::Thorough => thorough,
        }
    }
}

/// One property violation, with a stable signature (used for known-finding
/// matching and dedup) and a self-contained replay artefact.
#[derive(Clone, Debug)]
pub struct Violation {
    pub signature: String,
    pub summary: String,
    pub replay: Value,
}

#[derive(Clone, Debug)]
struct Known {
    signature: String,
    what: String,
}

pub struct Run {
    pub property: String,
    pub part: String,
    pub tier: Tier,
    pub seed: u64,
    pub level: String,
    pub budget_s: f64,
    pub replay_file: Option<PathBuf>,
    pub args: Vec<String>,
    start: Instant,
    known: Vec<Known>,
    known_hit: BTreeMap<String, u64>,
    violations: Vec<Violation>,
    violation_sigs: BTreeSet<String>,
    violation_total: u64,
    counters: BTreeMap<String, u64>,
    extra: Map<String, Value>,
    samples: Vec<Value>,
    rule: String,
    assumptions: Vec<String>,
    distinct: BTreeSet<u64>,
    exhaustive: bool,
    caps: Vec<String>,
}

pub fn verif_root() -> PathBuf {
    PathBuf::from(std::env::var("VERIF_ROOT").unwrap_or_else(|_| "/verif".to_string()))
}

impl Run {
    /// Parses `--tier quick|thorough`, `--budget-s N`, `--replay FILE` and the
    /// `VERIF_TIER` / `VERIF_SEED` environment variables.
    pub fn from_args(property: &str, part: &str, level: &str) -> Run {
        let args: Vec<String> = std::env::args().skip(1).collect();
        let mut tier = match std::env::var("VERIF_TIER").ok().as_deref() {
            Some("thorough") => Tier::Thorough,
            _ => Tier::Quick,
        };
        let mut budget_s: Option<f64> = None;
        let mut replay_file = None;
        let mut rest = Vec::new();
        let mut i = 0;
        while i < args.len() {
            match args[i].as_str() {
                "--tier" => {
                    i += 1;
                    tier = match args.get(i).map(|s| s.as_str()) {
                        Some("thorough") => Tier::Thorough,
                        Some("quick") => Tier::Quick,
                        other => machinery(&format!("bad --tier {other:?}")),
                    };
                }
                "--budget-s" => {
                    i += 1;
                    budget_s = args.get(i).and_then(|s| s.parse().ok());
                }
                "--replay" => {
                    i += 1;
                    replay_file = args.get(i).map(PathBuf::from);
                }
                other => rest.push(other.to_string()),
            }
            i += 1;
        }
        let seed = std::env::var("VERIF_SEED")
            .ok()
            .and_then(|s| s.parse::<i64>().ok())
            .map(|v| v as u64)
            .unwrap_or(0);
        let known = load_known(property);
        Run {
            property: property.to_string(),
            part: part.to_string(),
            tier,
            seed,
            level: level.to_string(),
            budget_s: budget_s.unwrap_or(tier.pick(40.0, 1500.0)),
            replay_file,
            args: rest,
            start: Instant::now(),
            known,
            known_hit: BTreeMap::new(),
            violations: Vec::new(),
            violation_sigs: BTreeSet::new(),
            violation_total: 0,
            counters: BTreeMap::new(),
            extra: Map::new(),
            samples: Vec::new(),
            rule: String::new(),
            assumptions: Vec::new(),
            distinct: BTreeSet::new(),
            exhaustive: true,
            caps: Vec::new(),
        }
    }

    pub fn elapsed(&self) -> f64 {
        self.start.elapsed().as_secs_f64()
    }

    /// True while the part is inside its wall-clock budget.
    pub fn in_budget(&self) -> bool {
        self.elapsed() < self.budget_s
    }

    pub fn remaining_s(&self) -> f64 {
        (self.budget_s - self.elapsed()).max(0.0)
    }

    pub fn add(&mut self, key: &str, n: u64) {
        *self.counters.entry(key.to_string()).or_insert(0) += n;
    }

    pub fn get(&self, key: &str) -> u64 {
        self.counters.get(key).copied().unwrap_or(0)
    }

    pub fn set(&mut self, key: &str, v: Value) {
        self.extra.insert(key.to_string(), v);
    }

    pub fn rule(&mut self, rule: &str) {
        if !self.rule.is_empty() {
            self.rule.push_str(" | ");
        }
        self.rule.push_str(rule);
    }

    pub fn assume(&mut self, a: &str) {
        if !self.assumptions.iter().any(|x| x == a) {
            self.assumptions.push(a.to_string());
        }
    }

    /// Records a written-out case (kept: first 6 offered per run).
    pub fn sample(&mut self, v: Value) {
        if self.samples.len() < 6 {
            self.samples.push(v);
        }
    }

    /// Registers a distinct non-trivial case by its hash.
    pub fn distinct(&mut self, key: u64) {
        self.distinct.insert(key);
    }

    pub fn distinct_count(&self) -> usize {
        self.distinct.len()
    }

    /// Marks that some cap (time, count) stopped an enumeration early.
    pub fn cap_hit(&mut self, what: &str) {
        self.exhaustive = false;
        self.caps.push(what.to_string());
    }

    pub fn violation(&mut self, v: Violation) {
        if let Some(k) = self.known.iter().find(|k| k.signature == v.signature) {
            let n = self.known_hit.entry(k.signature.clone()).or_insert(0);
            *n += 1;
            return;
        }
        self.violation_total += 1;
        if self.violation_sigs.insert(v.signature.clone()) && self.violations.len() < 20 {
            self.violations.push(v);
        }
    }

    pub fn violation_count(&self) -> u64 {
        self.violation_total
    }

    /// Writes the (part) evidence file, replay artefacts, prints the verdict
    /// lines and exits.
    pub fn finish(mut self) -> ! {
        let root = verif_root();
        let wall = self.elapsed();
        let mut cov = Map::new();
        for (k, v) in &self.counters {
            cov.insert(k.clone(), json!(v));
        }
        for (k, v) in std::mem::take(&mut self.extra) {
            cov.insert(k, v);
        }
        if !cov.contains_key("distinct_nontrivial") {
            cov.insert("distinct_nontrivial".into(), json!(self.distinct.len()));
        }
        cov.insert("rule".into(), json!(self.rule));
        cov.insert("samples".into(), Value::Array(self.samples.clone()));
        cov.insert("exhaustive".into(), json!(self.exhaustive));
        cov.insert("caps_hit".into(), json!(self.caps));
        let known_lines: Vec<Value> = self
            .known_hit
            .iter()
            .map(|(sig, n)| json!({"signature": sig, "occurrences": n}))
            .collect();
        cov.insert("known_findings_observed".into(), Value::Array(known_lines));
        let ev = json!({
            "property_id": self.property,
            "part": self.part,
            "tier": self.tier.as_str(),
            "seed": self.seed as i64,
            "level": self.level,
            "coverage": Value::Object(cov),
            "assumptions": self.assumptions,
            "wall_s": wall,
            "violations": self.violation_total,
        });
        let dir = root.join("evidence").join("parts");
        let _ = std::fs::create_dir_all(&dir);
        let file = dir.join(format!("{}.{}.json", self.property, self.part));
        if let Err(e) = std::fs::write(&file, serde_json::to_vec_pretty(&ev).unwrap()) {
            machinery(&format!("cannot write evidence {file:?}: {e}"));
        }
        for k in &self.known {
            if let Some(n) = self.known_hit.get(&k.signature) {
                println!(
                    "KNOWN-FINDING: property={} {} [signature={} occurrences={}]",
                    self.property, k.what, k.signature, n
                );
            }
        }
        let mut code = 0;
        if !self.violations.is_empty() {
            let rdir = root.join("replays").join(&self.property);
            let _ = std::fs::create_dir_all(&rdir);
            for v in &self.violations {
                let name = format!("{}-{}.json", self.part, crate::util::fnv_hex(v.signature.as_bytes()));
                let path = rdir.join(name);
                let doc = json!({
                    "property": self.property,
                    "part": self.part,
                    "signature": v.signature,
                    "summary": v.summary,
                    "replay": v.replay,
                });
                let _ = std::fs::write(&path, serde_json::to_vec_pretty(&doc).unwrap());
                println!("violation: {}", v.summary);
                println!("VIOLATION property={} replay={}", self.property, path.display());
            }
            code = 1;
        }
        println!(
            "[{} {} {}] wall={:.1}s violations={} exhaustive={} counters={:?}",
            self.property,
            self.part,
            self.tier.as_str(),
            wall,
            self.violation_total,
            self.exhaustive,
            self.counters
        );
        std::process::exit(code);
    }
}

fn load_known(property: &str) -> Vec<Known> {
    let path = verif_root().join("known_findings.json");
    let Ok(data) = std::fs::read(&path) else {
        return Vec::new();
    };
    let v: Value = match serde_json::from_slice(&data) {
        Ok(v) => v,
        Err(e) => machinery(&format!("known_findings.json does not parse: {e}")),
    };
    let mut out = Vec::new();
    if let Some(list) = v.get("findings").and_then(|l| l.as_array()) {
        for f in list {
            if f.get("property").and_then(|p| p.as_str()) == Some(property) {
                out.push(Known {
                    signature: f.get("signature").and_then(|s| s.as_str()).unwrap_or("").to_string(),
                    what: f.get("what").and_then(|s| s.as_str()).unwrap_or("").to_string(),
                });
            }
        }
    }
    out
}

/// Machinery failure: never a verdict.
pub fn machinery(msg: &str) -> ! {
    eprintln!("MACHINERY-ERROR: {msg}");
    std::process::exit(2);
}

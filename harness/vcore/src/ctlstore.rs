//! `CtlStore`: an `ObjectStore` over `InMemory` whose every call the harness
//! sees, orders, gates, fails and journals.
//!
//! - journal: every mutation that reached the inner store, with payload, in
//!   order, attributed to the task the explorer said was running;
//! - gate: when on, every call returns `Pending` exactly once (self-waking)
//!   *before* taking effect — one scheduling point per backend call;
//! - crash: after `n` more mutations the store powers off (the n-th and
//!   everything after fails, reads included), like the repo's `FaultStore`;
//! - script: per mutation-attempt index, answer `ErrBefore` (nothing lands)
//!   or `ErrAfter` (the write lands, an error is returned);
//! - snapshot / restore / apply: rebuild crash states by journal-prefix replay.

use async_trait::async_trait;
use bytes::Bytes;
use futures::{StreamExt, stream::BoxStream};
use object_store::{memory::InMemory, path::Path, *};
use parking_lot::Mutex;
use std::collections::BTreeMap;
use std::future::Future;
use std::pin::Pin;
use std::sync::Arc;
use std::task::{Context, Poll};

#[derive(Clone, Debug, PartialEq, Eq)]
pub enum Mutation {
    Put { path: String, data: Bytes },
    Delete { path: String },
    Copy { from: String, to: String },
    Rename { from: String, to: String },
}

impl Mutation {
    pub fn kind(&self) -> &'static str {
        match self {
            Mutation::Put { .. } => "put",
            Mutation::Delete { .. } => "delete",
            Mutation::Copy { .. } => "copy",
            Mutation::Rename { .. } => "rename",
        }
    }
    /// The path whose content this mutation changes (target for copy/rename).
    pub fn path(&self) -> &str {
        match self {
            Mutation::Put { path, .. } | Mutation::Delete { path } => path,
            Mutation::Copy { to, .. } | Mutation::Rename { to, .. } => to,
        }
    }
    pub fn label(&self) -> String {
        match self {
            Mutation::Put { path, data } => format!("put {path} ({}B)", data.len()),
            Mutation::Delete { path } => format!("delete {path}"),
            Mutation::Copy { from, to } => format!("copy {from} -> {to}"),
            Mutation::Rename { from, to } => format!("rename {from} -> {to}"),
        }
    }
}

#[derive(Clone, Debug)]
pub struct JournalEntry {
    pub task: usize,
    /// Index of this entry among all calls (reads included) seen by the store.
    pub call: u64,
    pub mutation: Mutation,
}

#[derive(Clone, Copy, Debug, PartialEq, Eq)]
pub enum Answer {
    /// The call fails and nothing reaches the store.
    ErrBefore,
    /// The call takes effect, then an error is returned (unknown outcome).
    ErrAfter,
}

#[derive(Clone, Debug, PartialEq, Eq)]
pub struct Label {
    pub task: usize,
    pub op: &'static str,
    pub path: String,
}

#[derive(Default)]
struct State {
    journal: Vec<JournalEntry>,
    labels: Vec<Label>,
    keep_labels: bool,
    gate: bool,
    post_gate: bool,
    powered_off: bool,
    crash_at: Option<u64>,
    mutation_attempts: u64,
    calls: u64,
    reads: u64,
    script: BTreeMap<u64, Answer>,
    read_fail_calls: BTreeMap<u64, ()>,
    current_task: usize,
    read_counts: BTreeMap<usize, u64>,
}

#[derive(Default)]
pub struct Ctl {
    st: Mutex<State>,
}

impl std::fmt::Debug for Ctl {
    fn fmt(&self, f: &mut std::fmt::Formatter<'_>) -> std::fmt::Result {
        write!(f, "Ctl")
    }
}

impl Ctl {
    pub fn set_gate(&self, on: bool) {
        self.st.lock().gate = on;
    }
    /// When on (together with the gate), every call also suspends once AFTER
    /// it took effect and before its result is delivered: the window in
    /// which a response is in flight while other tasks run.
    pub fn set_post_gate(&self, on: bool) {
        self.st.lock().post_gate = on;
    }
    /// Awaited by every call after its effect.
    pub async fn leave(&self) {
        let on = {
            let st = self.st.lock();
            st.gate && st.post_gate
        };
        if on {
            Gate { armed: true }.await;
        }
    }
    pub fn keep_labels(&self, on: bool) {
        self.st.lock().keep_labels = on;
    }
    pub fn set_task(&self, t: usize) {
        self.st.lock().current_task = t;
    }
    pub fn task(&self) -> usize {
        self.st.lock().current_task
    }
    /// Power off once `n` more mutation attempts have been let through.
    pub fn crash_after_mutations(&self, n: u64) {
        let mut st = self.st.lock();
        st.crash_at = Some(st.mutation_attempts + n);
    }
    pub fn power_off(&self) {
        self.st.lock().powered_off = true;
    }
    pub fn is_powered_off(&self) -> bool {
        self.st.lock().powered_off
    }
    /// Clears faults (reboot). The journal is kept.
    pub fn reset_faults(&self) {
        let mut st = self.st.lock();
        st.powered_off = false;
        st.crash_at = None;
        st.script.clear();
        st.read_fail_calls.clear();
    }
    /// Scripts the answer of the mutation attempt with absolute index `idx`
    /// (0-based, counted over the lifetime of this store).
    pub fn script(&self, idx: u64, a: Answer) {
        self.st.lock().script.insert(idx, a);
    }
    /// Fails the call (read or write) with absolute call index `idx` before it
    /// takes effect.
    pub fn fail_call(&self, idx: u64) {
        self.st.lock().read_fail_calls.insert(idx, ());
    }
    pub fn mutation_attempts(&self) -> u64 {
        self.st.lock().mutation_attempts
    }
    pub fn calls(&self) -> u64 {
        self.st.lock().calls
    }
    pub fn reads(&self) -> u64 {
        self.st.lock().reads
    }
    pub fn journal(&self) -> Vec<JournalEntry> {
        self.st.lock().journal.clone()
    }
    pub fn journal_len(&self) -> usize {
        self.st.lock().journal.len()
    }
    pub fn journal_from(&self, from: usize) -> Vec<JournalEntry> {
        self.st.lock().journal[from..].to_vec()
    }
    pub fn labels(&self) -> Vec<Label> {
        self.st.lock().labels.clone()
    }
    pub fn clear_labels(&self) {
        self.st.lock().labels.clear();
    }

    fn injected(op: &str, path: &str, why: &str) -> Error {
        Error::Generic {
            store: "CtlStore",
            source: format!("injected fault: {why} ({op} {path})").into(),
        }
    }

    /// Common entry of every call: label, gate, then fault decision.
    /// Returns Ok(Some(ErrAfter)) when the effect must land and an error be
    /// returned afterwards.
    async fn enter(&self, op: &'static str, path: &str, is_mutation: bool) -> Result<Option<Answer>> {
        let gate = {
            let mut st = self.st.lock();
            if st.keep_labels {
                let task = st.current_task;
                st.labels.push(Label {
                    task,
                    op,
                    path: path.to_string(),
                });
            }
            st.gate
        };
        if gate {
            Gate { armed: true }.await;
        }
        let mut st = self.st.lock();
        let call = st.calls;
        st.calls += 1;
        if st.powered_off {
            return Err(Self::injected(op, path, "power failure"));
        }
        if st.read_fail_calls.remove(&call).is_some() {
            return Err(Self::injected(op, path, "scripted call failure"));
        }
        if !is_mutation {
            st.reads += 1;
            let t = st.current_task;
            *st.read_counts.entry(t).or_insert(0) += 1;
            return Ok(None);
        }
        let n = st.mutation_attempts;
        st.mutation_attempts += 1;
        if let Some(at) = st.crash_at
            && n >= at
        {
            st.powered_off = true;
            return Err(Self::injected(op, path, "power failure"));
        }
        match st.script.remove(&n) {
            Some(Answer::ErrBefore) => Err(Self::injected(op, path, "scripted error, nothing written")),
            Some(Answer::ErrAfter) => Ok(Some(Answer::ErrAfter)),
            None => Ok(None),
        }
    }

    fn record(&self, mutation: Mutation) {
        let mut st = self.st.lock();
        let task = st.current_task;
        let call = st.calls.saturating_sub(1);
        st.journal.push(JournalEntry { task, call, mutation });
    }
}

struct Gate {
    armed: bool,
}

impl Future for Gate {
    type Output = ();
    fn poll(mut self: Pin<&mut Self>, cx: &mut Context<'_>) -> Poll<()> {
        if self.armed {
            self.armed = false;
            cx.waker().wake_by_ref();
            Poll::Pending
        } else {
            Poll::Ready(())
        }
    }
}

#[derive(Debug, Clone)]
pub struct CtlStore {
    inner: Arc<InMemory>,
    ctl: Arc<Ctl>,
}

impl CtlStore {
    pub fn new() -> (Arc<CtlStore>, Arc<Ctl>) {
        Self::over(Arc::new(InMemory::new()))
    }
    pub fn over(inner: Arc<InMemory>) -> (Arc<CtlStore>, Arc<Ctl>) {
        let ctl = Arc::new(Ctl::default());
        (
            Arc::new(CtlStore {
                inner,
                ctl: ctl.clone(),
            }),
            ctl,
        )
    }
    pub fn inner(&self) -> &Arc<InMemory> {
        &self.inner
    }
    pub fn ctl(&self) -> &Arc<Ctl> {
        &self.ctl
    }
}

impl std::fmt::Display for CtlStore {
    fn fmt(&self, f: &mut std::fmt::Formatter<'_>) -> std::fmt::Result {
        write!(f, "CtlStore")
    }
}

fn payload_bytes(p: &PutPayload) -> Bytes {
    let mut v = Vec::with_capacity(p.content_length());
    for seg in p.iter() {
        v.extend_from_slice(seg);
    }
    Bytes::from(v)
}

#[async_trait]
impl ObjectStore for CtlStore {
    async fn put_opts(&self, location: &Path, payload: PutPayload, opts: PutOptions) -> Result<PutResult> {
        let ans = self.ctl.enter("put", location.as_ref(), true).await?;
        let data = payload_bytes(&payload);
        let r = self.inner.put_opts(location, payload, opts).await;
        if r.is_err() {
            self.ctl.leave().await;
        }
        let r = r?;
        self.ctl.record(Mutation::Put {
            path: location.to_string(),
            data,
        });
        self.ctl.leave().await;
        if ans.is_some() {
            return Err(Ctl::injected("put", location.as_ref(), "scripted error after the write landed"));
        }
        Ok(r)
    }

    async fn put_multipart_opts(
        &self,
        location: &Path,
        opts: PutMultipartOptions,
    ) -> Result<Box<dyn MultipartUpload>> {
        self.ctl.enter("multipart-start", location.as_ref(), false).await?;
        let inner = self.inner.put_multipart_opts(location, opts).await?;
        Ok(Box::new(CtlUploader {
            location: location.clone(),
            ctl: self.ctl.clone(),
            inner,
            buf: Vec::new(),
        }))
    }

    async fn get_opts(&self, location: &Path, options: GetOptions) -> Result<GetResult> {
        self.ctl
            .enter(if options.head { "head" } else { "get" }, location.as_ref(), false)
            .await?;
        let r = self.inner.get_opts(location, options).await;
        self.ctl.leave().await;
        r
    }

    async fn get_ranges(&self, location: &Path, ranges: &[std::ops::Range<u64>]) -> Result<Vec<Bytes>> {
        self.ctl.enter("get_ranges", location.as_ref(), false).await?;
        let r = self.inner.get_ranges(location, ranges).await;
        self.ctl.leave().await;
        r
    }

    fn delete_stream(
        &self,
        locations: BoxStream<'static, Result<Path>>,
    ) -> BoxStream<'static, Result<Path>> {
        let ctl = self.ctl.clone();
        let inner = self.inner.clone();
        locations
            .then(move |location| {
                let ctl = ctl.clone();
                let inner = inner.clone();
                async move {
                    let location = location?;
                    let ans = ctl.enter("delete", location.as_ref(), true).await?;
                    let r = inner.delete(&location).await;
                    if r.is_err() {
                        ctl.leave().await;
                    }
                    r?;
                    ctl.record(Mutation::Delete {
                        path: location.to_string(),
                    });
                    ctl.leave().await;
                    if ans.is_some() {
                        return Err(Ctl::injected(
                            "delete",
                            location.as_ref(),
                            "scripted error after the delete landed",
                        ));
                    }
                    Ok(location)
                }
            })
            .boxed()
    }

    fn list(&self, prefix: Option<&Path>) -> BoxStream<'static, Result<ObjectMeta>> {
        let ctl = self.ctl.clone();
        let inner = self.inner.clone();
        let prefix = prefix.cloned();
        futures::stream::once(async move {
            let p = prefix.clone().unwrap_or_default();
            match ctl.enter("list", p.as_ref(), false).await {
                Ok(_) => inner.list(prefix.as_ref()),
                Err(e) => futures::stream::once(async move { Err(e) }).boxed(),
            }
        })
        .flatten()
        .boxed()
    }

    fn list_with_offset(&self, prefix: Option<&Path>, offset: &Path) -> BoxStream<'static, Result<ObjectMeta>> {
        let ctl = self.ctl.clone();
        let inner = self.inner.clone();
        let prefix = prefix.cloned();
        let offset = offset.clone();
        futures::stream::once(async move {
            let p = prefix.clone().unwrap_or_default();
            match ctl.enter("list", p.as_ref(), false).await {
                Ok(_) => inner.list_with_offset(prefix.as_ref(), &offset),
                Err(e) => futures::stream::once(async move { Err(e) }).boxed(),
            }
        })
        .flatten()
        .boxed()
    }

    async fn list_with_delimiter(&self, prefix: Option<&Path>) -> Result<ListResult> {
        let p = prefix.cloned().unwrap_or_default();
        self.ctl.enter("list", p.as_ref(), false).await?;
        let r = self.inner.list_with_delimiter(prefix).await;
        self.ctl.leave().await;
        r
    }

    async fn copy_opts(&self, from: &Path, to: &Path, options: CopyOptions) -> Result<()> {
        let ans = self.ctl.enter("copy", from.as_ref(), true).await?;
        let r = self.inner.copy_opts(from, to, options).await;
        if r.is_err() {
            self.ctl.leave().await;
        }
        r?;
        self.ctl.record(Mutation::Copy {
            from: from.to_string(),
            to: to.to_string(),
        });
        self.ctl.leave().await;
        if ans.is_some() {
            return Err(Ctl::injected("copy", from.as_ref(), "scripted error after the copy landed"));
        }
        Ok(())
    }

    async fn rename_opts(&self, from: &Path, to: &Path, options: RenameOptions) -> Result<()> {
        let ans = self.ctl.enter("rename", from.as_ref(), true).await?;
        let r = self.inner.rename_opts(from, to, options).await;
        if r.is_err() {
            self.ctl.leave().await;
        }
        r?;
        self.ctl.record(Mutation::Rename {
            from: from.to_string(),
            to: to.to_string(),
        });
        self.ctl.leave().await;
        if ans.is_some() {
            return Err(Ctl::injected("rename", from.as_ref(), "scripted error after the rename landed"));
        }
        Ok(())
    }
}

#[derive(Debug)]
struct CtlUploader {
    location: Path,
    ctl: Arc<Ctl>,
    inner: Box<dyn MultipartUpload>,
    buf: Vec<u8>,
}

#[async_trait]
impl MultipartUpload for CtlUploader {
    fn put_part(&mut self, payload: PutPayload) -> UploadPart {
        if self.ctl.is_powered_off() {
            let err = Ctl::injected("put_part", self.location.as_ref(), "power failure");
            return Box::pin(async move { Err(err) });
        }
        self.buf.extend_from_slice(&payload_bytes(&payload));
        self.inner.put_part(payload)
    }

    async fn complete(&mut self) -> Result<PutResult> {
        let ans = self.ctl.enter("multipart-complete", self.location.as_ref(), true).await?;
        let r = self.inner.complete().await?;
        self.ctl.record(Mutation::Put {
            path: self.location.to_string(),
            data: Bytes::from(std::mem::take(&mut self.buf)),
        });
        if ans.is_some() {
            return Err(Ctl::injected(
                "multipart-complete",
                self.location.as_ref(),
                "scripted error after the upload landed",
            ));
        }
        Ok(r)
    }

    async fn abort(&mut self) -> Result<()> {
        if self.ctl.is_powered_off() {
            return Err(Ctl::injected("abort", self.location.as_ref(), "power failure"));
        }
        self.inner.abort().await
    }
}

// ---------------------------------------------------------------------------
// snapshot / restore / replay helpers (InMemory calls never suspend)

pub type Content = BTreeMap<String, Bytes>;

pub fn snapshot(store: &InMemory) -> Content {
    use crate::util::now;
    use futures::TryStreamExt;
    let metas: Vec<ObjectMeta> = now(store.list(None).try_collect()).expect("list InMemory");
    let mut out = Content::new();
    for m in metas {
        let data = now(async { store.get(&m.location).await?.bytes().await }).expect("get InMemory");
        out.insert(m.location.to_string(), data);
    }
    out
}

pub fn restore(content: &Content) -> Arc<InMemory> {
    use crate::util::now;
    let store = InMemory::new();
    for (k, v) in content {
        now(store.put(&Path::from(k.as_str()), v.clone().into())).expect("put InMemory");
    }
    Arc::new(store)
}

/// Applies one journalled mutation to a plain content map (the crash model:
/// each backend mutation is atomic).
pub fn apply(content: &mut Content, m: &Mutation) {
    match m {
        Mutation::Put { path, data } => {
            content.insert(path.clone(), data.clone());
        }
        Mutation::Delete { path } => {
            content.remove(path);
        }
        Mutation::Copy { from, to } => {
            if let Some(v) = content.get(from).cloned() {
                content.insert(to.clone(), v);
            }
        }
        Mutation::Rename { from, to } => {
            if let Some(v) = content.remove(from) {
                content.insert(to.clone(), v);
            }
        }
    }
}

pub fn content_hash(content: &Content) -> u64 {
    let mut h: u64 = 0xcbf29ce484222325;
    for (k, v) in content {
        for b in k.as_bytes().iter().chain([0u8].iter()).chain(v.iter()).chain([1u8].iter()) {
            h ^= *b as u64;
            h = h.wrapping_mul(0x100000001b3);
        }
    }
    h
}

use std::future::Future;
use std::pin::pin;
use std::task::{Context, Poll, Waker};

/// Polls a future that is known to complete without suspending (e.g. any
/// `InMemory` object-store call). Panics if it returns `Pending`.
pub fn now<F: Future>(f: F) -> F::Output {
    let mut f = pin!(f);
    let mut cx = Context::from_waker(Waker::noop());
    match f.as_mut().poll(&mut cx) {
        Poll::Ready(v) => v,
        Poll::Pending => panic!("machinery: future expected to be immediately ready returned Pending"),
    }
}

/// Drives a future to completion on the current thread, polling again
/// whenever it yields. Suitable for code that only suspends on self-waking
/// gates or uncontended async locks (no runtime services).
pub fn block_on<F: Future>(f: F) -> F::Output {
    futures::executor::block_on(f)
}

/// FNV-1a 64-bit, for stable signatures and dedup keys.
pub fn fnv64(data: &[u8]) -> u64 {
    let mut h: u64 = 0xcbf29ce484222325;
    for b in data {
        h ^= *b as u64;
        h = h.wrapping_mul(0x100000001b3);
    }
    h
}

pub fn fnv_hex(data: &[u8]) -> String {
    format!("{:016x}", fnv64(data))
}

/// Runs `f` over `items` on `threads` OS threads, preserving no order;
/// returns all results. `f` must be `Sync`.
pub fn par_map<T: Send, R: Send>(
    items: Vec<T>,
    threads: usize,
    f: impl Fn(T) -> R + Sync,
) -> Vec<R> {
    let queue = parking_lot::Mutex::new(items.into_iter().enumerate().collect::<Vec<_>>());
    let out = parking_lot::Mutex::new(Vec::new());
    std::thread::scope(|s| {
        for _ in 0..threads.max(1) {
            s.spawn(|| loop {
                let item = queue.lock().pop();
                match item {
                    Some((i, item)) => {
                        let r = f(item);
                        out.lock().push((i, r));
                    }
                    None => break,
                }
            });
        }
    });
    let mut out = out.into_inner();
    out.sort_by_key(|(i, _)| *i);
    out.into_iter().map(|(_, r)| r).collect()
}

pub fn n_threads() -> usize {
    std::env::var("VERIF_THREADS")
        .ok()
        .and_then(|v| v.parse().ok())
        .unwrap_or_else(|| std::thread::available_parallelism().map(|n| n.get()).unwrap_or(8))
}

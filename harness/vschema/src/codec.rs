//! Lossless JSON encoding of a `FieldValue` for replay artefacts (variant and
//! float bit patterns preserved; `FieldValue`'s own JSON form is lossy).

use crate::values::{Fk, Fv};
use anda_db_schema::bf16;
use serde_json::{Value as J, json};

fn enc_key(k: &Fk) -> J {
    match k {
        Fk::Text(s) => json!({"text": s}),
        Fk::I64(i) => json!({"i64": i.to_string()}),
        Fk::Bytes(b) => json!({"bytes": b}),
    }
}

fn dec_key(j: &J) -> Option<Fk> {
    let (k, v) = j.as_object()?.iter().next()?;
    Some(match k.as_str() {
        "text" => Fk::Text(v.as_str()?.to_string()),
        "i64" => Fk::I64(v.as_str()?.parse().ok()?),
        "bytes" => Fk::Bytes(v.as_array()?.iter().map(|b| b.as_u64().map(|x| x as u8)).collect::<Option<_>>()?),
        _ => return None,
    })
}

pub fn enc(v: &Fv) -> J {
    match v {
        Fv::Null => json!({"null": null}),
        Fv::Bool(b) => json!({"bool": b}),
        Fv::I64(i) => json!({"i64": i.to_string()}),
        Fv::U64(u) => json!({"u64": u.to_string()}),
        Fv::F64(f) => json!({"f64_bits": format!("{:016x}", f.to_bits()), "approx": format!("{f:?}")}),
        Fv::F32(f) => json!({"f32_bits": format!("{:08x}", f.to_bits()), "approx": format!("{f:?}")}),
        Fv::Bytes(b) => json!({"bytes": b}),
        Fv::Text(t) => json!({"text": t}),
        Fv::Json(j) => json!({"json": j.to_string()}),
        Fv::Vector(x) => json!({"vector_bits": x.iter().map(|b| b.to_bits()).collect::<Vec<u16>>()}),
        Fv::Array(a) => json!({"array": a.iter().map(enc).collect::<Vec<_>>()}),
        Fv::Map(m) => json!({"map": m.iter().map(|(k, e)| json!([enc_key(k), enc(e)])).collect::<Vec<_>>()}),
    }
}

pub fn dec(j: &J) -> Option<Fv> {
    let o = j.as_object()?;
    let (k, v) = o.iter().find(|(k, _)| k.as_str() != "approx")?;
    Some(match k.as_str() {
        "null" => Fv::Null,
        "bool" => Fv::Bool(v.as_bool()?),
        "i64" => Fv::I64(v.as_str()?.parse().ok()?),
        "u64" => Fv::U64(v.as_str()?.parse().ok()?),
        "f64_bits" => Fv::F64(f64::from_bits(u64::from_str_radix(v.as_str()?, 16).ok()?)),
        "f32_bits" => Fv::F32(f32::from_bits(u32::from_str_radix(v.as_str()?, 16).ok()?)),
        "bytes" => Fv::Bytes(v.as_array()?.iter().map(|b| b.as_u64().map(|x| x as u8)).collect::<Option<_>>()?),
        "text" => Fv::Text(v.as_str()?.to_string()),
        "json" => Fv::Json(serde_json::from_str(v.as_str()?).ok()?),
        "vector_bits" => Fv::Vector(
            v.as_array()?
                .iter()
                .map(|b| b.as_u64().map(|x| bf16::from_bits(x as u16)))
                .collect::<Option<_>>()?,
        ),
        "array" => Fv::Array(v.as_array()?.iter().map(dec).collect::<Option<_>>()?),
        "map" => Fv::Map(
            v.as_array()?
                .iter()
                .map(|e| {
                    let p = e.as_array()?;
                    Some((dec_key(p.first()?)?, dec(p.get(1)?)?))
                })
                .collect::<Option<_>>()?,
        ),
        _ => return None,
    })
}

/// Large values (budget probes) are written as a generator recipe instead.
pub fn too_big(v: &Fv) -> bool {
    fn nodes(v: &Fv) -> usize {
        match v {
            Fv::Array(a) => 1 + a.iter().map(nodes).sum::<usize>(),
            Fv::Map(m) => 1 + m.values().map(nodes).sum::<usize>(),
            Fv::Vector(x) => 1 + x.len() / 8,
            Fv::Json(j) => 1 + j.to_string().len() / 8,
            _ => 1,
        }
    }
    nodes(v) > 600
}

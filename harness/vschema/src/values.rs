//! Valid-value generator (boundary values per leaf, covering combinations for
//! containers) and the single-mutation generator.

use crate::grammar::Ft;
use anda_db_schema::{FieldKey, FieldValue, bf16};
use serde_json::json;
use std::collections::BTreeMap;

pub type Fv = FieldValue;
pub type Fk = FieldKey;

pub const I64_MAX_U: u64 = i64::MAX as u64;

/// bf16 edge bit patterns: +0, -0, smallest subnormal, largest subnormal,
/// smallest normal, 1.0, max finite, +inf, -inf, quiet NaN, all-ones NaN.
pub const BF16_BITS: [u16; 11] = [
    0x0000, 0x8000, 0x0001, 0x007F, 0x0080, 0x3F80, 0x7F7F, 0x7F80, 0xFF80, 0x7FC0, 0xFFFF,
];

pub fn vector(bits: &[u16]) -> Fv {
    Fv::Vector(bits.iter().map(|b| bf16::from_bits(*b)).collect())
}

fn leaf_values(ft: &Ft) -> Vec<Fv> {
    match ft {
        Ft::Bool => vec![Fv::Bool(false), Fv::Bool(true)],
        Ft::I64 => vec![Fv::I64(i64::MIN), Fv::I64(-1), Fv::I64(0), Fv::I64(i64::MAX)],
        Ft::U64 => vec![Fv::U64(0), Fv::U64(I64_MAX_U), Fv::U64(I64_MAX_U + 1), Fv::U64(u64::MAX)],
        Ft::F64 => vec![
            Fv::F64(0.0),
            Fv::F64(-0.0),
            Fv::F64(f64::from_bits(1)), // smallest subnormal
            Fv::F64(f32::MAX as f64),
            Fv::F64(2.71),
            Fv::F64(f64::MAX),
            Fv::F64(f64::MIN),
            Fv::F64(f64::MIN_POSITIVE),
            Fv::F64(f64::INFINITY),
        ],
        Ft::F32 => vec![
            Fv::F32(0.0),
            Fv::F32(-0.0),
            Fv::F32(f32::from_bits(1)), // smallest subnormal
            Fv::F32(f32::MAX),
            Fv::F32(2.71),
            Fv::F32(f32::MIN),
            Fv::F32(f32::MIN_POSITIVE),
            Fv::F32(f32::NEG_INFINITY),
        ],
        Ft::Bytes => vec![Fv::Bytes(vec![]), Fv::Bytes(vec![0]), Fv::Bytes(vec![0, 255, 1, 42])],
        Ft::Text => vec![
            Fv::Text(String::new()),
            Fv::Text("a".into()),
            Fv::Text("h\u{e9}llo \u{2713} b64:AQID".into()),
        ],
        Ft::Json => vec![
            Fv::Json(json!(true)),
            Fv::Json(json!(0)),
            Fv::Json(json!(-1)),
            Fv::Json(json!(u64::MAX)),
            Fv::Json(json!(i64::MIN)),
            Fv::Json(json!(2.5)),
            Fv::Json(json!("b64:AQID")),
            Fv::Json(json!([])),
            Fv::Json(json!({})),
            Fv::Json(json!({"k": [1, {"z": null, "y": -0.5}], "": "x"})),
            Fv::Json(json!(null)),
        ],
        Ft::Vector => vec![vector(&[]), vector(&[0x3F80]), vector(&BF16_BITS)],
        _ => unreachable!("not a leaf"),
    }
}

/// Contents of an untyped array: every variant once, including the ones that
/// a schema-less read-back cannot restore (I64>=0, F32, Vector, Json).
fn untyped_elems() -> Vec<Fv> {
    vec![
        Fv::Bool(true),
        Fv::I64(-1),
        Fv::I64(5),
        Fv::I64(0),
        Fv::U64(0),
        Fv::I64(i64::MIN),
        Fv::U64(u64::MAX),
        Fv::F64(-0.0),
        Fv::F64(f64::NEG_INFINITY),
        Fv::F32(2.71),
        Fv::Bytes(vec![1, 2]),
        Fv::Text("t".into()),
        Fv::Null,
        vector(&[0x3F80, 0x7FC0]),
        Fv::Json(json!({"k": [1, -2, 0.5, null]})),
        Fv::Array(vec![Fv::I64(7), Fv::Array(vec![])]),
        Fv::Map(BTreeMap::from([
            (Fk::Text("x".into()), Fv::F32(0.5)),
            (Fk::I64(-3), Fv::I64(3)),
            (Fk::Bytes(vec![9]), Fv::Null),
        ])),
    ]
}

fn wild_keys(kind: &Fk) -> Vec<Fk> {
    match kind {
        Fk::Text(_) => vec![Fk::Text("k".into()), Fk::Text(String::new()), Fk::Text("*".into()), Fk::Text("i64:5".into())],
        Fk::I64(_) => vec![Fk::I64(0), Fk::I64(i64::MIN), Fk::I64(-1), Fk::I64(i64::MAX)],
        Fk::Bytes(_) => vec![Fk::Bytes(vec![7]), Fk::Bytes(vec![]), Fk::Bytes(b"*".to_vec()), Fk::Bytes(vec![255, 0])],
    }
}

pub fn is_wildcard(m: &BTreeMap<Fk, Ft>) -> Option<(&Fk, &Ft)> {
    if m.len() != 1 {
        return None;
    }
    let (k, t) = m.iter().next().unwrap();
    match k {
        Fk::Text(s) if s == "*" => Some((k, t)),
        Fk::Bytes(b) if b == b"*" => Some((k, t)),
        Fk::I64(i) if *i == i64::MIN => Some((k, t)),
        _ => None,
    }
}

/// Valid values of a type. Every boundary value of every leaf occurs in at
/// least one value of every container that can hold it; containers also get
/// their empty form and (Option) Null. The count grows additively with
/// nesting (|V(container)| <= max |V(child)| + 3).
pub fn valid_values(ft: &Ft) -> Vec<Fv> {
    match ft {
        Ft::Option(t) => {
            let mut v = vec![Fv::Null];
            v.extend(valid_values(t));
            v
        }
        Ft::Array(ts) if ts.is_empty() => vec![
            Fv::Array(vec![]),
            Fv::Array(untyped_elems()),
            Fv::Array(vec![Fv::Text("x".into())]),
        ],
        Ft::Array(ts) if ts.len() == 1 => {
            let cs = valid_values(&ts[0]);
            let mut v = vec![Fv::Array(vec![])];
            for c in &cs {
                v.push(Fv::Array(vec![c.clone()]));
            }
            v.push(Fv::Array(cs));
            v
        }
        Ft::Array(ts) => {
            let cols: Vec<Vec<Fv>> = ts.iter().map(valid_values).collect();
            let n = cols.iter().map(|c| c.len()).max().unwrap_or(0);
            (0..n)
                .map(|i| Fv::Array(cols.iter().map(|c| c[i % c.len()].clone()).collect()))
                .collect()
        }
        // open map: declares nothing, every key kind and every variant goes
        Ft::Map(m) if m.is_empty() => {
            let elems = untyped_elems();
            let keys = [Fk::Text("k".into()), Fk::I64(0), Fk::Bytes(vec![]), Fk::I64(i64::MIN), Fk::Text(String::new())];
            vec![
                Fv::Map(BTreeMap::new()),
                Fv::Map(
                    elems
                        .iter()
                        .enumerate()
                        .map(|(i, e)| {
                            let k = match i % 3 {
                                0 => Fk::Text(format!("k{i}")),
                                1 => Fk::I64(i as i64 - 4),
                                _ => Fk::Bytes(vec![i as u8]),
                            };
                            (k, e.clone())
                        })
                        .collect(),
                ),
                Fv::Map(keys.iter().map(|k| (k.clone(), Fv::U64(0))).collect()),
            ]
        }
        Ft::Map(m) => {
            if let Some((kind, t)) = is_wildcard(m) {
                let cs = valid_values(t);
                let ks = wild_keys(kind);
                let mut v = vec![Fv::Map(BTreeMap::new())];
                for (i, c) in cs.iter().enumerate() {
                    v.push(Fv::Map(BTreeMap::from([(ks[i % ks.len()].clone(), c.clone())])));
                }
                // all keys at once
                v.push(Fv::Map(
                    ks.iter().enumerate().map(|(i, k)| (k.clone(), cs[i % cs.len()].clone())).collect(),
                ));
                v
            } else {
                // keyed map: required keys always present, optional keys
                // cycle through absent / their values (Null included)
                let cols: Vec<(&Fk, bool, Vec<Fv>)> = m
                    .iter()
                    .map(|(k, t)| (k, matches!(t, Ft::Option(_)), valid_values(t)))
                    .collect();
                let n = cols.iter().map(|(_, o, c)| c.len() + *o as usize).max().unwrap_or(0);
                (0..n)
                    .map(|i| {
                        let mut out = BTreeMap::new();
                        for (k, optional, c) in &cols {
                            if *optional {
                                let j = i % (c.len() + 1);
                                if j > 0 {
                                    out.insert((*k).clone(), c[j - 1].clone());
                                }
                            } else {
                                out.insert((*k).clone(), c[i % c.len()].clone());
                            }
                        }
                        Fv::Map(out)
                    })
                    .collect()
            }
        }
        leaf => leaf_values(leaf),
    }
}

/// Values substituted at every node of a valid value ("variant swap", Null in
/// non-Option, out-of-range integers, NaN, read-back shapes of other types).
pub fn aliens() -> Vec<Fv> {
    vec![
        Fv::Null,
        Fv::Bool(true),
        Fv::I64(-1),
        Fv::I64(5),
        Fv::I64(i64::MIN),
        Fv::U64(1),
        Fv::U64(I64_MAX_U + 1),
        Fv::U64(u64::MAX),
        Fv::F64(0.5),
        Fv::F64(2.71),
        Fv::F64(2.7100000000001),
        Fv::F64(1e39),
        Fv::F64(f64::NAN),
        Fv::F32(0.5),
        Fv::F32(f32::NAN),
        Fv::Bytes(vec![1]),
        Fv::Text("x".into()),
        Fv::Json(json!({"k": 1})),
        Fv::Json(json!(7)),
        vector(&[0x3F80]),
        Fv::Array(vec![]),
        Fv::Array(vec![Fv::U64(65535)]),
        Fv::Array(vec![Fv::U64(65536)]),
        Fv::Array(vec![Fv::I64(1)]),
        Fv::Array(vec![Fv::U64(1), Fv::U64(256)]),
        Fv::Map(BTreeMap::new()),
        Fv::Map(BTreeMap::from([(Fk::Text("a".into()), Fv::U64(1))])),
        // appended later (alien indexes are part of signatures: append only)
        Fv::U64(0),
        Fv::I64(0),
        Fv::F64(-0.0),
    ]
}

/// One step of a path into a value.
#[derive(Clone, Debug, PartialEq)]
pub enum Step {
    Idx(usize),
    Key(Fk),
}

fn get_mut<'a>(v: &'a mut Fv, path: &[Step]) -> &'a mut Fv {
    let mut cur = v;
    for s in path {
        cur = match (cur, s) {
            (Fv::Array(a), Step::Idx(i)) => &mut a[*i],
            (Fv::Map(m), Step::Key(k)) => m.get_mut(k).expect("path key"),
            _ => unreachable!("path does not match value"),
        };
    }
    cur
}

fn node_paths(v: &Fv, prefix: &mut Vec<Step>, out: &mut Vec<Vec<Step>>) {
    out.push(prefix.clone());
    match v {
        Fv::Array(a) => {
            for (i, c) in a.iter().enumerate() {
                prefix.push(Step::Idx(i));
                node_paths(c, prefix, out);
                prefix.pop();
            }
        }
        Fv::Map(m) => {
            for (k, c) in m {
                prefix.push(Step::Key(k.clone()));
                node_paths(c, prefix, out);
                prefix.pop();
            }
        }
        _ => {}
    }
}

fn same_bits(a: &Fv, b: &Fv) -> bool {
    crate::model::bit_eq(a, b)
}

/// One single mutation of a valid value.
pub struct Mutation {
    pub value: Fv,
    pub path: Vec<Step>,
    pub what: What,
}

pub enum What {
    Swap(usize),
    DropLast,
    AppendCopy,
    AppendU64,
    RemoveKey(Fk),
    ExtraKey(Fk),
}

impl Mutation {
    /// shape class of the mutation (for signatures)
    pub fn kind(&self) -> String {
        match &self.what {
            What::Swap(ai) => format!("swap<-a{ai}:{}", crate::model::variant(&aliens()[*ai])),
            What::DropLast => "drop_last".into(),
            What::AppendCopy => "append_copy".into(),
            What::AppendU64 => "append_u64".into(),
            What::RemoveKey(_) => "remove_key".into(),
            What::ExtraKey(k) => format!("extra_key:{}", crate::model::variant(&Fv::from(k.clone()))),
        }
    }
    pub fn desc(&self) -> String {
        let path = &self.path;
        match &self.what {
            What::Swap(ai) => format!("swap@{path:?}<-alien{ai}"),
            What::DropLast => format!("drop_last@{path:?}"),
            What::AppendCopy => format!("append_copy@{path:?}"),
            What::AppendU64 => format!("append_u64@{path:?}"),
            What::RemoveKey(k) => format!("remove_key@{path:?}/{k:?}"),
            What::ExtraKey(k) => format!("extra_key@{path:?}/{k:?}"),
        }
    }
}

/// Every single mutation of `v`: at every node (root included) a swap with
/// every alien value, for arrays drop-last / append-copy / append-alien, for
/// maps remove-each-key / add an extra key of each key kind.
pub fn mutations(v: &Fv, aliens: &[Fv]) -> Vec<Mutation> {
    let mut paths = Vec::new();
    node_paths(v, &mut Vec::new(), &mut paths);
    let mut out = Vec::new();
    let mut push = |value: Fv, path: &Vec<Step>, what: What| out.push(Mutation { value, path: path.clone(), what });
    for path in &paths {
        let mut probe = v.clone();
        let node = get_mut(&mut probe, path).clone();
        for (ai, alien) in aliens.iter().enumerate() {
            if same_bits(&node, alien) {
                continue;
            }
            let mut m = v.clone();
            *get_mut(&mut m, path) = alien.clone();
            push(m, path, What::Swap(ai));
        }
        match &node {
            Fv::Array(a) => {
                if !a.is_empty() {
                    let mut m = v.clone();
                    if let Fv::Array(x) = get_mut(&mut m, path) {
                        x.pop();
                    }
                    push(m, path, What::DropLast);
                    let mut m = v.clone();
                    if let Fv::Array(x) = get_mut(&mut m, path) {
                        let c = x[0].clone();
                        x.push(c);
                    }
                    push(m, path, What::AppendCopy);
                }
                let mut m = v.clone();
                if let Fv::Array(x) = get_mut(&mut m, path) {
                    x.push(Fv::U64(7));
                }
                push(m, path, What::AppendU64);
            }
            Fv::Map(mm) => {
                for k in mm.keys() {
                    let mut m = v.clone();
                    if let Fv::Map(x) = get_mut(&mut m, path) {
                        x.remove(k);
                    }
                    push(m, path, What::RemoveKey(k.clone()));
                }
                let filler = mm.values().next().cloned().unwrap_or(Fv::U64(1));
                for extra in [Fk::Text("zz".into()), Fk::I64(77), Fk::Bytes(vec![7, 7])] {
                    if mm.contains_key(&extra) {
                        continue;
                    }
                    let mut m = v.clone();
                    if let Fv::Map(x) = get_mut(&mut m, path) {
                        x.insert(extra.clone(), filler.clone());
                    }
                    push(m, path, What::ExtraKey(extra));
                }
            }
            _ => {}
        }
    }
    out
}

// ---- complexity-budget probes -------------------------------------------------

pub fn nest_array(k: usize) -> Fv {
    let mut v = Fv::Array(vec![]);
    for _ in 1..k {
        v = Fv::Array(vec![v]);
    }
    v
}

pub fn nest_json(k: usize) -> serde_json::Value {
    let mut v = json!([]);
    for _ in 1..k {
        v = json!([v]);
    }
    v
}

/// k nested JSON objects: {"o": {"o": ... {}}}
pub fn nest_json_obj(k: usize) -> serde_json::Value {
    let mut v = json!({});
    for _ in 1..k {
        v = json!({"o": v});
    }
    v
}

/// k nested JSON containers alternating object / array (outermost: object if `obj_outer`)
pub fn nest_json_mixed(k: usize, obj_outer: bool) -> serde_json::Value {
    let mut v = json!([]);
    // build inside-out so that the outermost kind is as requested
    let mut obj = if k % 2 == 1 { obj_outer } else { !obj_outer };
    if obj {
        v = json!({});
    }
    for _ in 1..k {
        obj = !obj;
        v = if obj { json!({"o": v}) } else { json!([v]) };
    }
    v
}

/// k nested FieldValue maps
pub fn nest_fv_map(k: usize) -> Fv {
    let mut v = Fv::Map(BTreeMap::new());
    for _ in 1..k {
        v = Fv::Map(BTreeMap::from([(Fk::Text("m".into()), v)]));
    }
    v
}

/// k nested FieldValue containers alternating map / array (outermost: map)
pub fn nest_fv_mixed(k: usize) -> Fv {
    let mut v = if k % 2 == 1 { Fv::Map(BTreeMap::new()) } else { Fv::Array(vec![]) };
    let mut map = k % 2 == 1;
    for _ in 1..k {
        map = !map;
        v = if map { Fv::Map(BTreeMap::from([(Fk::I64(1), v)])) } else { Fv::Array(vec![v]) };
    }
    v
}

/// limit-1, limit, limit+1, limit+2, a little more, between the budget and the
/// conversion bound (128), and beyond both
pub const TOWER_HEIGHTS: [usize; 9] = [63, 64, 65, 66, 70, 100, 128, 130, 140];

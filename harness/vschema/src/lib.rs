//! Shared helpers for the vschema check parts.

//! Shared helpers for the vschema check parts (C13): FieldType grammar,
//! value / mutation generators, the reference model and the case executor.

pub mod codec;
pub mod exec;
pub mod grammar;
pub mod model;
pub mod values;

//! Runs one (type, value) case through the real write and read-back paths and
//! compares with the model.

use crate::codec;
use crate::grammar::Ft;
use crate::model::{self, Class, Extract, variant};
use crate::values::{Fv, is_wildcard};
use anda_db_schema::{Document, DocumentOwned, FieldEntry, Schema};
use serde::{Deserialize, Serialize};
use serde_json::json;
use std::panic::{AssertUnwindSafe, catch_unwind};
use std::sync::Arc;
use vcore::Violation;

pub const FIELD: &str = "v";
/// per worker chunk
pub const VIOLATION_RECORD_CAP: usize = 60;

pub fn schema_for(ft: &Ft) -> Arc<Schema> {
    let mut b = Schema::builder();
    b.add_field(FieldEntry::new(FIELD.to_string(), ft.clone()).expect("field entry"))
        .expect("add field");
    Arc::new(b.build().expect("schema"))
}

/// The "typed value" of the generic `Document::try_from` path: a struct whose
/// one payload field is a dynamically shaped, serde-serialisable value.
#[derive(Serialize, Deserialize)]
pub struct Dyn {
    pub _id: u64,
    pub v: Fv,
}

/// A typed value that serialises one top-level key more than the schema
/// declares (the struct is a revision ahead of the collection's schema), the
/// extra key after / before the declared ones.
#[derive(Serialize, Deserialize)]
pub struct DynExtraLast {
    pub _id: u64,
    pub v: Fv,
    pub zz: Fv,
}
#[derive(Serialize, Deserialize)]
pub struct DynExtraFirst {
    pub aa: Fv,
    pub _id: u64,
    pub v: Fv,
}

#[derive(Clone, Copy, Debug, PartialEq, Eq)]
pub enum Entry {
    /// `Document::set_field`
    Set,
    /// `Document::try_from(&Dyn)`
    TryFrom,
    /// `Document::set_field_as(&value)` (typed field-by-field entry)
    SetAs,
    /// `FieldType::extract(value.try_into_cbor())`, the result stored with `set_field`
    Extract,
    /// `FieldEntry::coerce(value)`, the result stored with `set_field`
    /// (what the server's doc.update does with client values)
    Coerce,
    /// `FieldValue::serialized(&value, Some(type))`, the result stored with `set_field`
    Serialized,
}

/// every write entry
pub const ALL_ENTRIES: [Entry; 6] =
    [Entry::Set, Entry::TryFrom, Entry::SetAs, Entry::Extract, Entry::Coerce, Entry::Serialized];

impl Entry {
    pub fn name(&self) -> &'static str {
        match self {
            Entry::Set => "set_field",
            Entry::TryFrom => "try_from",
            Entry::SetAs => "set_field_as",
            Entry::Extract => "extract",
            Entry::Coerce => "coerce",
            Entry::Serialized => "serialized",
        }
    }
    pub fn from_name(s: &str) -> Entry {
        ALL_ENTRIES.into_iter().find(|e| e.name() == s).unwrap_or(Entry::Set)
    }
    /// true when the library itself picks the variants (from the CBOR shape
    /// of what the caller handed in); false when the caller hands in a
    /// finished `FieldValue` that is stored as it is.
    pub fn extracts(&self) -> bool {
        !matches!(self, Entry::Set)
    }
}

#[derive(Default)]
pub struct Tally {
    pub evaluations: u64,
    pub accepted: u64,
    pub rejected: u64,
    pub model_valid: u64,
    pub model_invalid: u64,
    pub model_unspec: u64,
    pub valid_rejected: u64,
    pub distinct: Vec<u64>,
    pub violations: Vec<Violation>,
    pub samples: Vec<serde_json::Value>,
    pub valid_rejected_samples: Vec<String>,
    pub violations_not_recorded: u64,
}

impl Tally {
    pub fn merge_into(self, run: &mut vcore::Run) {
        run.add("evaluations", self.evaluations);
        run.add("writes_accepted_and_read_back", self.accepted);
        run.add("writes_rejected", self.rejected);
        run.add("model_valid", self.model_valid);
        run.add("model_invalid", self.model_invalid);
        run.add("model_unspecified", self.model_unspec);
        run.add("model_valid_but_rejected", self.valid_rejected);
        if self.violations_not_recorded > 0 {
            run.add("violations_beyond_record_cap", self.violations_not_recorded);
        }
        for d in self.distinct {
            run.distinct(d);
        }
        for s in self.samples {
            run.sample(s);
        }
        for v in self.violations {
            run.violation(v);
        }
    }
}

/// Shape class of a type: constructor skeleton with leaf names.
pub fn skeleton(ft: &Ft) -> String {
    match ft {
        Ft::Option(t) => format!("Opt({})", skeleton(t)),
        Ft::Array(ts) if ts.is_empty() => "Arr[]".into(),
        Ft::Array(ts) if ts.len() == 1 => format!("Arr[{}]", skeleton(&ts[0])),
        Ft::Array(ts) => format!("Tup[{}]", ts.iter().map(skeleton).collect::<Vec<_>>().join(",")),
        Ft::Map(m) if m.is_empty() => "Open{}".into(),
        Ft::Map(m) => match is_wildcard(m) {
            Some((k, t)) => format!("Wild{}({})", variant(&Fv::from(k.clone())), skeleton(t)),
            None => format!(
                "Keyed{{{}}}",
                m.iter().map(|(k, t)| format!("{k}:{}", skeleton(t))).collect::<Vec<_>>().join(",")
            ),
        },
        leaf => format!("{leaf:?}"),
    }
}

/// First place where two values differ, as (type chain, variant wanted,
/// variant got) — the shape class of a read-back mismatch.
fn first_diff(ft: &Ft, want: &Fv, got: &Fv, strict: bool) -> String {
    match (ft, want, got) {
        (Ft::Option(t), w, g) if !matches!(w, Fv::Null) && !matches!(g, Fv::Null) => {
            format!("Opt>{}", first_diff(t, w, g, strict))
        }
        // no declared variant below this point: container chain + variant pair of the first differing leaf
        (Ft::Array(ts), Fv::Array(_), Fv::Array(_)) if ts.is_empty() && strict => {
            format!("Arr[]>{}", {
                let d = model::first_untyped_diff(want, got);
                d.strip_prefix("arr>").unwrap_or(&d).to_string()
            })
        }
        (Ft::Map(ts), Fv::Map(_), Fv::Map(_)) if ts.is_empty() && strict => {
            format!("Open{{}}>{}", {
                let d = model::first_untyped_diff(want, got);
                d.strip_prefix("map>").unwrap_or(&d).to_string()
            })
        }
        (Ft::Array(ts), Fv::Array(a), Fv::Array(b)) if !ts.is_empty() && a.len() == b.len() => {
            for (i, (x, y)) in a.iter().zip(b).enumerate() {
                let t = if ts.len() == 1 { &ts[0] } else { &ts[i.min(ts.len() - 1)] };
                if !model::same_field(t, x, y, strict) {
                    return format!("{}>{}", if ts.len() == 1 { "Arr" } else { "Tup" }, first_diff(t, x, y, strict));
                }
            }
            format!("{}:{}!={}", skeleton(ft), variant(want), variant(got))
        }
        (Ft::Map(ts), Fv::Map(a), Fv::Map(b)) if a.len() == b.len() => {
            let wild = is_wildcard(ts);
            for ((k, x), (l, y)) in a.iter().zip(b) {
                if k != l {
                    break;
                }
                let t = match wild {
                    Some((_, t)) => Some(t),
                    None => ts.get(k),
                };
                if let Some(t) = t
                    && !model::same_field(t, x, y, strict)
                {
                    return format!("{}>{}", if wild.is_some() { "Wild" } else { "Keyed" }, first_diff(t, x, y, strict));
                }
            }
            format!("{}:{}!={}", skeleton(ft), variant(want), variant(got))
        }
        _ => format!("{}:{}!={}", skeleton(ft), variant(want), variant(got)),
    }
}

fn short(v: &Fv) -> String {
    let s = format!("{v:?}");
    if s.chars().count() > 300 {
        format!("{}.. ({} chars)", s.chars().take(300).collect::<String>(), s.chars().count())
    } else {
        s
    }
}

pub struct Case<'a> {
    pub ft: &'a Ft,
    pub schema: &'a Arc<Schema>,
    pub value: &'a Fv,
    /// how the value was produced ("valid#3", "swap@[..]<-alien4", "budget:..")
    pub desc: &'a dyn Fn() -> String,
    /// shape class of the mutation for the signature (mutation kind + alien variant)
    pub mutation_kind: &'a dyn Fn() -> String,
    /// true for mutated values (samples are drawn from accepted mutants)
    pub mutated: bool,
    /// replay recipe for values too large to write out
    pub recipe: Option<serde_json::Value>,
}

fn replay_of(case: &Case, entry: Entry) -> serde_json::Value {
    let value = if case.recipe.is_some() || codec::too_big(case.value) {
        json!({"recipe": case.recipe})
    } else {
        codec::enc(case.value)
    };
    json!({
        "entry": entry.name(),
        "type": case.ft,
        "type_debug": format!("{:?}", case.ft),
        "value": value,
        "value_debug": short(case.value),
        "how": (case.desc)(),
    })
}

enum Written {
    Rejected(String),
    Accepted { doc: Document, bytes: Vec<u8> },
}

fn write(case: &Case, entry: Entry) -> Written {
    let schema = case.schema.clone();
    let doc = match entry {
        Entry::Set => {
            let mut doc = Document::new(schema.clone());
            doc.set_id(1);
            if let Err(e) = doc.set_field(FIELD, case.value.clone()) {
                return Written::Rejected(format!("set_field: {e}"));
            }
            doc
        }
        Entry::TryFrom => {
            let typed = Dyn { _id: 1, v: case.value.clone() };
            match Document::try_from(schema.clone(), &typed) {
                Ok(d) => d,
                Err(e) => return Written::Rejected(format!("try_from: {e}")),
            }
        }
        Entry::SetAs => {
            let mut doc = Document::new(schema.clone());
            doc.set_id(1);
            if let Err(e) = doc.set_field_as(FIELD, case.value) {
                return Written::Rejected(format!("set_field_as: {e}"));
            }
            doc
        }
        Entry::Extract | Entry::Coerce | Entry::Serialized => {
            let extracted = match entry {
                Entry::Extract => case
                    .value
                    .clone()
                    .try_into_cbor()
                    .and_then(|c| case.ft.extract(c))
                    .map_err(|e| format!("extract: {e}")),
                Entry::Coerce => schema
                    .get_field_or_err(FIELD)
                    .and_then(|f| f.coerce(case.value.clone()))
                    .map_err(|e| format!("coerce: {e}")),
                _ => Fv::serialized(case.value, Some(case.ft)).map_err(|e| format!("serialized: {e}")),
            };
            let extracted = match extracted {
                Ok(v) => v,
                Err(e) => return Written::Rejected(e),
            };
            let mut doc = Document::new(schema.clone());
            doc.set_id(1);
            if let Err(e) = doc.set_field(FIELD, extracted) {
                return Written::Rejected(format!("{}: set_field of the extracted value: {e}", entry.name()));
            }
            doc
        }
    };
    // A Document the entry point handed out is an accepted write: anything
    // that serialises it stores it. (`Collection::add` re-runs
    // `Schema::validate`; a document that would fail there also fails
    // `try_from_doc` below and is reported as accepted-unreadable.)
    // the stored form (`Storage::put`): CBOR of the Document
    let mut bytes = Vec::new();
    if let Err(e) = cbor2::to_writer(&doc, &mut bytes) {
        return Written::Rejected(format!("serialise: {e}"));
    }
    Written::Accepted { doc, bytes }
}

/// Read-back: stored bytes -> DocumentOwned -> Document::try_from_doc.
pub fn read_back(schema: &Arc<Schema>, bytes: &[u8]) -> Result<Document, String> {
    let owned: DocumentOwned = cbor2::from_reader(bytes).map_err(|e| format!("stored form does not decode: {e}"))?;
    Document::try_from_doc(schema.clone(), owned).map_err(|e| format!("try_from_doc: {e}"))
}

/// One evaluation. Everything that touches the code under check runs inside
/// catch_unwind; a panic is a violation.
pub fn run_case(case: &Case, entry: Entry, t: &mut Tally) {
    t.evaluations += 1;
    let ft = case.ft;
    // model verdict
    let (class, want): (Class, Option<Fv>) = match entry {
        Entry::Set => {
            let c = model::classify_set(ft, case.value);
            // the declared form is defined by the model only for values it calls valid;
            // for unspecified ones the accepted document itself is "the written one"
            let w = if c == Class::Valid { Some(model::declared(ft, case.value)) } else { None };
            (c, w)
        }
        _ => match model::classify_extract(ft, case.value) {
            Extract::Accept(d) => (Class::Valid, Some(d)),
            Extract::Reject => (Class::Invalid, None),
            Extract::Unspec => (Class::Unspec, None),
        },
    };
    match class {
        Class::Valid => t.model_valid += 1,
        Class::Invalid => t.model_invalid += 1,
        Class::Unspec => t.model_unspec += 1,
    }
    let fail = |t: &mut Tally, kind: &str, shape: String, detail: String| {
        // a broken tree can fail hundreds of thousands of cases: write out the first ones only
        if t.violations.len() >= VIOLATION_RECORD_CAP {
            t.violations_not_recorded += 1;
            return;
        }
        t.violations.push(Violation {
            signature: format!("C13|{}|{}|{}", entry.name(), kind, shape),
            summary: format!(
                "{} type {:?} value {} ({}): {}",
                entry.name(),
                ft,
                short(case.value),
                (case.desc)(),
                detail
            ),
            replay: replay_of(case, entry),
        });
    };

    let outcome = catch_unwind(AssertUnwindSafe(|| {
        let (doc, bytes) = match write(case, entry) {
            Written::Rejected(why) => return Err(why),
            Written::Accepted { doc, bytes } => (doc, bytes),
        };
        let stored = doc.get_field(FIELD).cloned();
        let back = read_back(case.schema, &bytes);
        let typed: Option<Result<Dyn, String>> = match (&back, entry) {
            (Ok(b), Entry::TryFrom) => Some(b.clone().try_into::<Dyn>().map_err(|e| e.to_string())),
            // typed read side of the field-by-field entries
            (Ok(b), Entry::SetAs | Entry::Serialized) => Some(b.get_field_as::<Fv>(FIELD).map(|v| Dyn { _id: 1, v }).map_err(|e| e.to_string())),
            _ => None,
        };
        Ok((stored, back, typed))
    }));

    match outcome {
        Err(p) => {
            let msg = p
                .downcast_ref::<String>()
                .cloned()
                .or_else(|| p.downcast_ref::<&str>().map(|s| s.to_string()))
                .unwrap_or_else(|| "panic".into());
            fail(t, "panic", format!("{}|{}", skeleton(ft), (case.mutation_kind)()), format!("panicked: {msg}"));
        }
        Ok(Err(_why)) => {
            t.rejected += 1;
            if class == Class::Valid {
                t.valid_rejected += 1;
                if t.valid_rejected_samples.len() < 3 {
                    t.valid_rejected_samples
                        .push(format!("{} {:?} {} : {}", entry.name(), ft, short(case.value), _why));
                }
            }
        }
        Ok(Ok((stored, back, typed))) => {
            t.accepted += 1;
            if class == Class::Invalid {
                fail(
                    t,
                    "invalid-accepted",
                    format!("{}|{}", skeleton(ft), (case.mutation_kind)()),
                    "the model says this value violates the declared type / nullability / key set / arity / budget, but the write was accepted".into(),
                );
                return;
            }
            // the written one, in the declared variant
            let want = match want.or(stored.clone()) {
                Some(w) => w,
                None => {
                    fail(t, "written-field-missing", skeleton(ft), "accepted document does not hold the field".into());
                    return;
                }
            };
            let back = match back {
                Ok(b) => b,
                Err(why) => {
                    fail(
                        t,
                        "accepted-unreadable",
                        format!("{}|{}", skeleton(ft), (case.mutation_kind)()),
                        format!("accepted at write time but the stored form is rejected on read: {why}"),
                    );
                    return;
                }
            };
            let idx = case.schema.get_field(FIELD).map(|f| f.idx()).unwrap_or(1);
            let keys: Vec<usize> = back.fields().keys().copied().collect();
            if keys != vec![0, idx] || !model::bit_eq(&back.fields()[&0], &Fv::U64(1)) {
                fail(t, "fields-differ", skeleton(ft), format!("read-back document has field indexes {keys:?}"));
                return;
            }
            let got = &back.fields()[&idx];
            if !model::same_declared(ft, &want, got) {
                fail(
                    t,
                    "readback-differs",
                    first_diff(ft, &want, got, false),
                    format!("read back {} but the written field in the declared variant is {}", short(got), short(&want)),
                );
                return;
            }
            // the field the accepted in-memory document holds (what indexes are
            // maintained from) against the field read from the stored form.
            // Where the library itself chose the variants at write time
            // (every entry but set_field) the comparison is variant-exact in
            // undeclared positions too.
            let strict = entry.extracts();
            match &stored {
                Some(held) if model::same_field(ft, held, got, strict) => {}
                Some(held) => {
                    fail(
                        t,
                        "written-differs-from-read",
                        first_diff(ft, held, got, strict),
                        format!(
                            "the accepted document holds {} but its stored form reads back as {}{}",
                            short(held),
                            short(got),
                            if strict { " (variant-exact: the library chose the variants at write time)" } else { "" }
                        ),
                    );
                    return;
                }
                None => {
                    fail(t, "written-field-missing", skeleton(ft), "accepted document does not hold the field".into());
                    return;
                }
            }
            if let Some(typed) = typed {
                match typed {
                    Ok(d) if d._id == 1 && model::canon_eq(&d.v, &want) => {}
                    Ok(d) => fail(
                        t,
                        "typed-differs",
                        skeleton(ft),
                        format!("try_into / get_field_as gives {} for written {}", short(&d.v), short(&want)),
                    ),
                    Err(e) => fail(t, "typed-fails", skeleton(ft), format!("try_into / get_field_as fails: {e}")),
                }
            }
            if t.samples.len() < 2 && class == Class::Valid && !matches!(case.value, Fv::Null) && case.mutated {
                t.samples.push(json!({
                    "entry": entry.name(),
                    "type": format!("{ft:?}"),
                    "offered": short(case.value),
                    "how": (case.desc)(),
                    "read_back": short(got),
                }));
            }
        }
    }
}

/// `Document::try_from` of a typed value that carries a (non-null) top-level
/// key the schema does not declare, the declared field holding a valid value:
/// either the write is refused, or the stored document converts back to the
/// typed value that was written (extra key included). Accepting it and losing
/// the key is a violation ("converting it back to the original typed value
/// reproduces that value").
pub fn run_undeclared_key(ft: &Ft, schema: &Arc<Schema>, value: &Fv, extra: &Fv, first: bool, t: &mut Tally) {
    t.evaluations += 1;
    let pos = if first { "extra-key-first" } else { "extra-key-last" };
    let outcome = catch_unwind(AssertUnwindSafe(|| -> Result<Option<String>, String> {
        let doc = if first {
            Document::try_from(schema.clone(), &DynExtraFirst { aa: extra.clone(), _id: 1, v: value.clone() })
        } else {
            Document::try_from(schema.clone(), &DynExtraLast { _id: 1, v: value.clone(), zz: extra.clone() })
        };
        let doc = match doc {
            Ok(d) => d,
            Err(_) => return Ok(None),
        };
        let mut bytes = Vec::new();
        if cbor2::to_writer(&doc, &mut bytes).is_err() {
            return Ok(None);
        }
        let back = read_back(schema, &bytes).map_err(|e| format!("accepted, then unreadable: {e}"))?;
        let same = if first {
            back.try_into::<DynExtraFirst>().map(|d| model::canon_eq(&d.aa, extra) && model::canon_eq(&d.v, value))
        } else {
            back.try_into::<DynExtraLast>().map(|d| model::canon_eq(&d.zz, extra) && model::canon_eq(&d.v, value))
        };
        match same {
            Ok(true) => Ok(Some("kept".into())),
            Ok(false) => Err("accepted, but converting the stored document back gives a different typed value".into()),
            Err(e) => Err(format!("accepted, but the stored document cannot be converted back to the typed value: {e}")),
        }
    }));
    let problem = match outcome {
        Ok(Ok(None)) => {
            t.rejected += 1;
            None
        }
        Ok(Ok(Some(_))) => {
            t.accepted += 1;
            None
        }
        Ok(Err(e)) => Some(("undeclared-top-level-key-lost", e)),
        Err(_) => Some(("panic", "panicked".to_string())),
    };
    if let Some((kind, detail)) = problem {
        if t.violations.len() >= VIOLATION_RECORD_CAP {
            t.violations_not_recorded += 1;
            return;
        }
        t.violations.push(Violation {
            signature: format!("C13|try_from|{kind}|{pos}|{}", variant(extra)),
            summary: format!(
                "try_from of a typed value with field v = {} (type {:?}) and the undeclared top-level key {} = {}: {}",
                short(value),
                ft,
                if first { "aa" } else { "zz" },
                short(extra),
                detail
            ),
            replay: json!({
                "undeclared_key": pos,
                "type": ft,
                "value": if codec::too_big(value) { json!(null) } else { codec::enc(value) },
                "extra": codec::enc(extra),
            }),
        });
    }
}

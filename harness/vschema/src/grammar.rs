//! Enumerator of `FieldType`s from the C13 grammar.
//!
//! Leaves: Bool I64 U64 F64 F32 Bytes Text Json Vector.
//! Constructors over child types: Option(T); Array([]); Array([T]);
//! Array([T,U]) (tuple / heterogeneous); wildcard Map with Text / I64 / Bytes
//! key; keyed Map {a: T} and {a: T, b: Option(U)}; the open Map({}).
//!
//! Level 1 = leaves. Level n+1 applies every constructor to children of which
//! at least one has level n. Unary constructors range over `unary` children,
//! binary ones (tuple, keyed map) over pairs from `binary` children; the
//! caller decides how wide those child sets are.

use anda_db_schema::{FieldKey, FieldType};
use std::collections::BTreeMap;

pub type Ft = FieldType;

pub fn leaves() -> Vec<Ft> {
    vec![
        Ft::Bool,
        Ft::I64,
        Ft::U64,
        Ft::F64,
        Ft::F32,
        Ft::Bytes,
        Ft::Text,
        Ft::Json,
        Ft::Vector,
    ]
}

/// The 5 leaves used wherever the grammar is restricted to a representative
/// subset: each one has a read-back normalisation or a payload of its own.
pub fn rep_leaves() -> Vec<Ft> {
    vec![Ft::I64, Ft::F32, Ft::Vector, Ft::Json, Ft::Bytes]
}

pub fn opt(t: Ft) -> Ft {
    Ft::Option(Box::new(t))
}
pub fn arr1(t: Ft) -> Ft {
    Ft::Array(vec![t])
}
pub fn tuple(t: Ft, u: Ft) -> Ft {
    Ft::Array(vec![t, u])
}
pub fn wild_text(t: Ft) -> Ft {
    Ft::Map(BTreeMap::from([(FieldKey::Text("*".into()), t)]))
}
pub fn wild_i64(t: Ft) -> Ft {
    Ft::Map(BTreeMap::from([(FieldKey::I64(i64::MIN), t)]))
}
pub fn wild_bytes(t: Ft) -> Ft {
    Ft::Map(BTreeMap::from([(FieldKey::Bytes(b"*".to_vec()), t)]))
}
/// the open map: declares no key at all and accepts every map
pub fn open_map() -> Ft {
    Ft::Map(BTreeMap::new())
}
/// keyed map with a single declared key (must not be mistaken for a wildcard map)
pub fn keyed1(t: Ft) -> Ft {
    Ft::Map(BTreeMap::from([(FieldKey::Text("a".into()), t)]))
}
pub fn keyed(t: Ft, u: Ft) -> Ft {
    Ft::Map(BTreeMap::from([
        (FieldKey::Text("a".into()), t),
        (FieldKey::Text("b".into()), opt(u)),
    ]))
}

/// Five composite types over the given children, one per constructor family,
/// used as the representative children of the next level's binary
/// constructors.
pub fn rep_composites(child: &[Ft]) -> Vec<Ft> {
    // child[0..] are expected to be the representative types one level down
    let c = |i: usize| child[i % child.len()].clone();
    vec![
        opt(c(0)),
        arr1(c(1)),
        tuple(c(0), c(2)),
        wild_i64(c(3)),
        keyed(c(1), c(0)),
    ]
}

/// One level of the grammar.
///
/// `unary`: children of Option / Array([T]) / wildcard maps.
/// `pairs`: (T, U) children of tuple and keyed map.
/// `with_untyped_array`: emit Array([]) and the open Map({}) (only once, at level 2).
pub fn compose(unary: &[Ft], pairs: &[(Ft, Ft)], with_untyped_array: bool) -> Vec<Ft> {
    let mut out = Vec::new();
    if with_untyped_array {
        out.push(Ft::Array(vec![]));
        out.push(open_map());
    }
    for t in unary {
        out.push(opt(t.clone()));
        out.push(arr1(t.clone()));
        out.push(wild_text(t.clone()));
        out.push(wild_i64(t.clone()));
        out.push(wild_bytes(t.clone()));
        out.push(keyed1(t.clone()));
    }
    for (t, u) in pairs {
        out.push(tuple(t.clone(), u.clone()));
        out.push(keyed(t.clone(), u.clone()));
    }
    out
}

pub fn all_pairs(a: &[Ft]) -> Vec<(Ft, Ft)> {
    let mut out = Vec::new();
    for t in a {
        for u in a {
            out.push((t.clone(), u.clone()));
        }
    }
    out
}

/// Pairs over `lower ∪ top` with at least one member from `top`.
pub fn pairs_touching(lower: &[Ft], top: &[Ft]) -> Vec<(Ft, Ft)> {
    let mut out = Vec::new();
    for t in top {
        for u in top.iter().chain(lower.iter()) {
            out.push((t.clone(), u.clone()));
        }
    }
    for t in lower {
        for u in top {
            out.push((t.clone(), u.clone()));
        }
    }
    out
}

pub fn depth(ft: &Ft) -> usize {
    match ft {
        Ft::Array(ts) => 1 + ts.iter().map(depth).max().unwrap_or(0),
        Ft::Map(m) => 1 + m.values().map(depth).max().unwrap_or(0),
        Ft::Option(t) => 1 + depth(t),
        _ => 1,
    }
}

/// The levels of the grammar as used by the round-trip part.
///
/// * level 1: 9 leaves
/// * level 2: every constructor over all leaves (unary over 9, binary over 9x9)
/// * level 3 narrow: unary constructors over ALL level-2 types; binary
///   constructors over pairs from {5 representative leaves, 5 representative
///   level-2 composites} touching level 2.
///   level 3 wide (thorough): binary constructors over ALL pairs of
///   level<=2 types touching level 2.
/// * level 4 quick: unary constructors over the level-3 types built from
///   representative children only (175), binary over pairs from the 15
///   representatives touching level 3.
///   level 4 thorough: unary constructors over ALL narrow level-3 types (1190).
pub struct Levels {
    pub l1: Vec<Ft>,
    pub l2: Vec<Ft>,
    pub l3: Vec<Ft>,
    pub l4: Vec<Ft>,
}

pub fn levels(thorough: bool) -> Levels {
    let l1 = leaves();
    let l2 = compose(&l1, &all_pairs(&l1), true);
    let rep1 = rep_leaves();
    let rep2 = rep_composites(&rep1);
    let rep3 = rep_composites(&rep2);
    let lower: Vec<Ft> = rep1.iter().chain(rep2.iter()).cloned().collect();
    let narrow3 = compose(&l2, &pairs_touching(&rep1, &rep2), false);
    let l3 = if thorough { compose(&l2, &pairs_touching(&l1, &l2), false) } else { narrow3.clone() };
    let unary4 = if thorough { narrow3 } else { compose(&rep2, &pairs_touching(&rep1, &rep2), false) };
    let l4 = compose(&unary4, &pairs_touching(&lower, &rep3), false);
    Levels { l1, l2, l3, l4 }
}

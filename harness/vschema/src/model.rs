//! The reference model of C13: which values a declared type admits, what the
//! declared-variant form of an admitted value is, and when two values are
//! "the same field value". Written from the documented contract
//! (`FieldType::validate` / `normalize` / `extract` doc comments and the
//! crate-level docs); it never calls the code under check.

use crate::grammar::Ft;
use crate::values::{Fk, Fv, I64_MAX_U, is_wildcard};
use anda_db_schema::bf16;
use serde_json::Value as Json;
use std::collections::BTreeMap;

#[derive(Clone, Copy, Debug, PartialEq, Eq)]
pub enum Class {
    /// The value conforms to the declared type (declared variant or a
    /// documented read-back shape of it) and to the complexity budget.
    Valid,
    /// The value violates type / nullability / key set / arity / budget.
    Invalid,
    /// The documented contract does not decide (anything inside `Json`, NaN
    /// inside an untyped array, raw input over budget but canonical form
    /// within it). Accepting or rejecting are both fine; if accepted it must
    /// still round-trip.
    Unspec,
}

impl Class {
    fn and(self, o: Class) -> Class {
        match (self, o) {
            (Class::Invalid, _) | (_, Class::Invalid) => Class::Invalid,
            (Class::Unspec, _) | (_, Class::Unspec) => Class::Unspec,
            _ => Class::Valid,
        }
    }
}

pub fn variant(v: &Fv) -> &'static str {
    match v {
        Fv::Bool(_) => "Bool",
        Fv::I64(_) => "I64",
        Fv::U64(_) => "U64",
        Fv::F64(f) if f.is_nan() => "F64NaN",
        Fv::F64(_) => "F64",
        Fv::F32(f) if f.is_nan() => "F32NaN",
        Fv::F32(_) => "F32",
        Fv::Bytes(_) => "Bytes",
        Fv::Text(_) => "Text",
        Fv::Json(_) => "Json",
        Fv::Vector(_) => "Vector",
        Fv::Array(_) => "Array",
        Fv::Map(_) => "Map",
        Fv::Null => "Null",
    }
}


// ---- bitwise equality ---------------------------------------------------------

fn json_eq(a: &Json, b: &Json) -> bool {
    match (a, b) {
        (Json::Number(x), Json::Number(y)) => {
            if let (Some(p), Some(q)) = (x.as_u64(), y.as_u64()) {
                p == q
            } else if let (Some(p), Some(q)) = (x.as_i64(), y.as_i64()) {
                p == q
            } else if x.is_f64() && y.is_f64() {
                x.as_f64().map(f64::to_bits) == y.as_f64().map(f64::to_bits)
            } else {
                false
            }
        }
        (Json::Array(x), Json::Array(y)) => x.len() == y.len() && x.iter().zip(y).all(|(p, q)| json_eq(p, q)),
        (Json::Object(x), Json::Object(y)) => {
            x.len() == y.len() && x.iter().all(|(k, p)| y.get(k).is_some_and(|q| json_eq(p, q)))
        }
        _ => a == b,
    }
}

/// Same variant, same payload; floats (and bf16) by bit pattern.
pub fn bit_eq(a: &Fv, b: &Fv) -> bool {
    match (a, b) {
        (Fv::Bool(x), Fv::Bool(y)) => x == y,
        (Fv::I64(x), Fv::I64(y)) => x == y,
        (Fv::U64(x), Fv::U64(y)) => x == y,
        (Fv::F64(x), Fv::F64(y)) => x.to_bits() == y.to_bits(),
        (Fv::F32(x), Fv::F32(y)) => x.to_bits() == y.to_bits(),
        (Fv::Bytes(x), Fv::Bytes(y)) => x == y,
        (Fv::Text(x), Fv::Text(y)) => x == y,
        (Fv::Json(x), Fv::Json(y)) => json_eq(x, y),
        (Fv::Vector(x), Fv::Vector(y)) => {
            x.len() == y.len() && x.iter().zip(y).all(|(p, q)| p.to_bits() == q.to_bits())
        }
        (Fv::Array(x), Fv::Array(y)) => x.len() == y.len() && x.iter().zip(y).all(|(p, q)| bit_eq(p, q)),
        (Fv::Map(x), Fv::Map(y)) => {
            x.len() == y.len() && x.iter().zip(y).all(|((k, p), (l, q))| k == l && bit_eq(p, q))
        }
        (Fv::Null, Fv::Null) => true,
        _ => false,
    }
}

// ---- schema-less canonical form ----------------------------------------------

fn canon_json(j: &Json) -> Fv {
    match j {
        Json::Null => Fv::Null,
        Json::Bool(b) => Fv::Bool(*b),
        Json::Number(n) => {
            if let Some(u) = n.as_u64() {
                Fv::U64(u)
            } else if let Some(i) = n.as_i64() {
                Fv::I64(i)
            } else {
                Fv::F64(n.as_f64().unwrap_or(f64::NAN))
            }
        }
        Json::String(s) => Fv::Text(s.clone()),
        Json::Array(a) => Fv::Array(a.iter().map(canon_json).collect()),
        Json::Object(o) => Fv::Map(o.iter().map(|(k, v)| (Fk::Text(k.clone()), canon_json(v))).collect()),
    }
}

/// What a value looks like after a schema-less CBOR round trip (documented in
/// the crate docs: F32 -> F64, non-negative I64 -> U64, Vector -> Array(U64),
/// Json -> Map / Array / primitive). Used wherever the schema declares no
/// variant (untyped array elements, anything inside Json).
pub fn canon(v: &Fv) -> Fv {
    match v {
        Fv::I64(i) if *i >= 0 => Fv::U64(*i as u64),
        Fv::F32(f) => Fv::F64(*f as f64),
        Fv::Vector(x) => Fv::Array(x.iter().map(|b| Fv::U64(b.to_bits() as u64)).collect()),
        Fv::Json(j) => canon_json(j),
        Fv::Array(a) => Fv::Array(a.iter().map(canon).collect()),
        Fv::Map(m) => Fv::Map(m.iter().map(|(k, x)| (k.clone(), canon(x))).collect()),
        other => other.clone(),
    }
}

pub fn canon_eq(a: &Fv, b: &Fv) -> bool {
    bit_eq(&canon(a), &canon(b))
}

fn has_nan(v: &Fv) -> bool {
    match v {
        Fv::F64(f) => f.is_nan(),
        Fv::F32(f) => f.is_nan(),
        Fv::Array(a) => a.iter().any(has_nan),
        Fv::Map(m) => m.values().any(has_nan),
        _ => false,
    }
}

// ---- admission through `set_field` / `validate` (FieldValue level) --------------

/// Possible read-back of a stored f32 seen as f64: the exact widening (CBOR)
/// or the f64 parse of the f32's shortest decimal (JSON).
fn f32_read_back(v: f64) -> bool {
    if v.is_nan() {
        return false;
    }
    let f = v as f32;
    if f.is_infinite() && v.is_finite() {
        return false;
    }
    if (f as f64).to_bits() == v.to_bits() || (f as f64) == v {
        return true;
    }
    format!("{f}").parse::<f64>().is_ok_and(|p| p == v)
}

fn is_bits_array(a: &[Fv]) -> bool {
    a.iter().all(|e| matches!(e, Fv::U64(u) if *u <= u16::MAX as u64))
}

/// Structural admission of `v` in a slot of type `ft` (no budget).
pub fn admits(ft: &Ft, v: &Fv) -> Class {
    use Class::*;
    match (ft, v) {
        (Ft::Option(_), Fv::Null) => Valid,
        (Ft::Option(t), _) => admits(t, v),
        (Ft::Bool, Fv::Bool(_)) => Valid,
        (Ft::I64, Fv::I64(_)) => Valid,
        (Ft::I64, Fv::U64(u)) if *u <= I64_MAX_U => Valid,
        (Ft::U64, Fv::U64(_)) => Valid,
        (Ft::F64, Fv::F64(f)) if !f.is_nan() => Valid,
        (Ft::F32, Fv::F32(f)) if !f.is_nan() => Valid,
        (Ft::F32, Fv::F64(f)) if f32_read_back(*f) => Valid,
        (Ft::Bytes, Fv::Bytes(_)) => Valid,
        (Ft::Text, Fv::Text(_)) => Valid,
        (Ft::Json, Fv::Json(_)) => Valid,
        (Ft::Json, _) => Unspec,
        (Ft::Vector, Fv::Vector(_)) => Valid,
        (Ft::Vector, Fv::Array(a)) if is_bits_array(a) => Valid,
        (Ft::Array(ts), Fv::Array(a)) => match ts.len() {
            0 => {
                if has_nan(v) {
                    Unspec
                } else {
                    Valid
                }
            }
            1 => a.iter().fold(Valid, |c, e| c.and(admits(&ts[0], e))),
            n => {
                if a.len() != n {
                    Invalid
                } else {
                    ts.iter().zip(a).fold(Valid, |c, (t, e)| c.and(admits(t, e)))
                }
            }
        },
        // an empty Map type declares nothing and accepts every map (like Array([]))
        (Ft::Map(ts), Fv::Map(_)) if ts.is_empty() => {
            if has_nan(v) {
                Unspec
            } else {
                Valid
            }
        }
        (Ft::Map(ts), Fv::Map(m)) => {
            if let Some((kind, t)) = is_wildcard(ts) {
                m.iter().fold(Valid, |c, (k, e)| {
                    let key_ok = std::mem::discriminant(k) == std::mem::discriminant(kind);
                    c.and(if key_ok { admits(t, e) } else { Invalid })
                })
            } else {
                if m.keys().any(|k| !ts.contains_key(k)) {
                    return Invalid;
                }
                ts.iter().fold(Valid, |c, (k, t)| {
                    c.and(match m.get(k) {
                        Some(e) => admits(t, e),
                        // a missing key is a missing value
                        None => admits(t, &Fv::Null),
                    })
                })
            }
        }
        _ => Invalid,
    }
}

/// The declared-variant form of an admitted value.
pub fn declared(ft: &Ft, v: &Fv) -> Fv {
    match (ft, v) {
        (Ft::Option(_), Fv::Null) => Fv::Null,
        (Ft::Option(t), _) => declared(t, v),
        (Ft::I64, Fv::U64(u)) => Fv::I64(*u as i64),
        (Ft::F32, Fv::F64(f)) => Fv::F32(*f as f32),
        (Ft::Vector, Fv::Array(a)) => Fv::Vector(
            a.iter()
                .map(|e| match e {
                    Fv::U64(u) => bf16::from_bits(*u as u16),
                    _ => bf16::from_bits(0),
                })
                .collect(),
        ),
        (Ft::Array(ts), Fv::Array(a)) => match ts.len() {
            0 => v.clone(),
            1 => Fv::Array(a.iter().map(|e| declared(&ts[0], e)).collect()),
            _ => Fv::Array(ts.iter().zip(a).map(|(t, e)| declared(t, e)).collect()),
        },
        (Ft::Map(ts), Fv::Map(_)) if ts.is_empty() => v.clone(),
        (Ft::Map(ts), Fv::Map(m)) => {
            if let Some((_, t)) = is_wildcard(ts) {
                Fv::Map(m.iter().map(|(k, e)| (k.clone(), declared(t, e))).collect())
            } else {
                Fv::Map(
                    m.iter()
                        .map(|(k, e)| (k.clone(), ts.get(k).map(|t| declared(t, e)).unwrap_or_else(|| e.clone())))
                        .collect(),
                )
            }
        }
        _ => v.clone(),
    }
}

/// "The field equals the written one in the declared variant": strict
/// (variant + bits) wherever the schema declares a variant. Where it declares
/// none (elements of `Array([])`, values of the open `Map({})`, the
/// non-`Json`-variant contents of a Json slot):
///
/// * `untyped_strict == false` (the caller chose the variants, `set_field`):
///   equality of the documented schema-less form (I64>=0 = U64, F32 = F64
///   widening, Vector = array of bit patterns, Json = its shape);
/// * `untyped_strict == true` (the LIBRARY chose the variants by CBOR shape
///   when it extracted the value at write time): variant + bits there too —
///   the shape-driven choice at write time must be the shape-driven choice
///   the read-back decoder makes for the same stored item.
///
/// Under `Option`, a value whose stored form is CBOR null (Null, Json(null))
/// equals Null.
pub fn same_field(ft: &Ft, want: &Fv, got: &Fv, untyped_strict: bool) -> bool {
    let untyped_eq = |a: &Fv, b: &Fv| if untyped_strict { bit_eq(a, b) } else { canon_eq(a, b) };
    match ft {
        Ft::Option(t) => {
            if matches!(canon(want), Fv::Null) {
                matches!(canon(got), Fv::Null)
            } else {
                same_field(t, want, got, untyped_strict)
            }
        }
        Ft::Json => match want {
            Fv::Json(_) => bit_eq(want, got),
            _ => untyped_eq(want, got),
        },
        Ft::Array(ts) => match (want, got) {
            (Fv::Array(a), Fv::Array(b)) => match ts.len() {
                0 => untyped_eq(want, got),
                1 => a.len() == b.len() && a.iter().zip(b).all(|(x, y)| same_field(&ts[0], x, y, untyped_strict)),
                _ => {
                    a.len() == b.len()
                        && a.len() == ts.len()
                        && ts.iter().zip(a.iter().zip(b)).all(|(t, (x, y))| same_field(t, x, y, untyped_strict))
                }
            },
            _ => false,
        },
        Ft::Map(ts) if ts.is_empty() => matches!((want, got), (Fv::Map(_), Fv::Map(_))) && untyped_eq(want, got),
        Ft::Map(ts) => match (want, got) {
            (Fv::Map(a), Fv::Map(b)) => {
                let wild = is_wildcard(ts);
                a.len() == b.len()
                    && a.iter().zip(b).all(|((k, x), (l, y))| {
                        k == l
                            && match wild {
                                Some((_, t)) => same_field(t, x, y, untyped_strict),
                                None => ts.get(k).is_some_and(|t| same_field(t, x, y, untyped_strict)),
                            }
                    })
            }
            _ => false,
        },
        _ => bit_eq(want, got),
    }
}

pub fn same_declared(ft: &Ft, want: &Fv, got: &Fv) -> bool {
    same_field(ft, want, got, false)
}

/// Path (container chain) and variant pair of the first leaf where two
/// schema-less values differ bit-wise: "arr>map>I64!=U64".
pub fn first_untyped_diff(a: &Fv, b: &Fv) -> String {
    match (a, b) {
        (Fv::Array(x), Fv::Array(y)) if x.len() == y.len() => {
            for (p, q) in x.iter().zip(y) {
                if !bit_eq(p, q) {
                    return format!("arr>{}", first_untyped_diff(p, q));
                }
            }
            "arr:same".into()
        }
        (Fv::Map(x), Fv::Map(y)) if x.len() == y.len() => {
            for ((k, p), (l, q)) in x.iter().zip(y) {
                if k != l {
                    return "map:keys-differ".into();
                }
                if !bit_eq(p, q) {
                    return format!("map>{}", first_untyped_diff(p, q));
                }
            }
            "map:same".into()
        }
        _ => format!("{}!={}", variant(a), variant(b)),
    }
}

// ---- complexity budget --------------------------------------------------------

pub const MAX_DEPTH: usize = 64;
pub const MAX_NODES: usize = 16_384;
pub const MAX_ARRAY_LEN: usize = 4_096;
pub const MAX_MAP_ENTRIES: usize = 4_096;

struct Cx {
    nodes: usize,
    max_depth: usize,
    max_array: usize,
    max_map: usize,
}

fn cx_json(j: &Json, depth: usize, cx: &mut Cx) {
    cx.nodes += 1;
    cx.max_depth = cx.max_depth.max(depth);
    match j {
        Json::Array(a) => {
            cx.max_array = cx.max_array.max(a.len());
            for e in a {
                cx_json(e, depth + 1, cx);
            }
        }
        Json::Object(o) => {
            cx.max_map = cx.max_map.max(o.len());
            for e in o.values() {
                cx_json(e, depth + 1, cx);
            }
        }
        _ => {}
    }
}

fn cx_fv(v: &Fv, depth: usize, cx: &mut Cx) {
    cx.nodes += 1;
    cx.max_depth = cx.max_depth.max(depth);
    match v {
        Fv::Array(a) => {
            cx.max_array = cx.max_array.max(a.len());
            for e in a {
                cx_fv(e, depth + 1, cx);
            }
        }
        Fv::Map(m) => {
            cx.max_map = cx.max_map.max(m.len());
            for e in m.values() {
                cx_fv(e, depth + 1, cx);
            }
        }
        Fv::Json(j) => cx_json(j, depth + 1, cx),
        _ => {}
    }
}

/// Default budget: nesting depth <= 64 (root = 0, a Json payload one deeper
/// than its holder), <= 16384 nodes, <= 4096 elements per array / entries per
/// map or JSON object. Bytes, Text and Vector are single nodes.
pub fn within_budget(v: &Fv) -> bool {
    let mut cx = Cx { nodes: 0, max_depth: 0, max_array: 0, max_map: 0 };
    cx_fv(v, 0, &mut cx);
    cx.nodes <= MAX_NODES && cx.max_depth <= MAX_DEPTH && cx.max_array <= MAX_ARRAY_LEN && cx.max_map <= MAX_MAP_ENTRIES
}

/// Full classification of a value offered to `set_field` for a top-level
/// field of type `ft`.
pub fn classify_set(ft: &Ft, v: &Fv) -> Class {
    let c = admits(ft, v);
    if c == Class::Invalid {
        return c;
    }
    let d = declared(ft, v);
    match (within_budget(v), within_budget(&d)) {
        (true, true) => c,
        (false, false) => Class::Invalid,
        _ => Class::Unspec,
    }
}

// ---- admission through `Document::try_from` (CBOR level, type-driven) -----------

/// Model of the CBOR data model a serialised value presents to the
/// type-driven extraction. `J` is a not-yet-expanded Json payload (so that a
/// Json slot can recognise it).
#[derive(Clone, Debug)]
pub enum M {
    Null,
    Bool(bool),
    Int(i128),
    Float(f64),
    Bytes(Vec<u8>),
    Text(String),
    Array(Vec<M>),
    Map(Vec<(Fk, M)>),
    J(Json),
}

/// None: the value cannot be serialised at all (NaN).
pub fn to_m(v: &Fv) -> Option<M> {
    Some(match v {
        Fv::Null => M::Null,
        Fv::Bool(b) => M::Bool(*b),
        Fv::I64(i) => M::Int(*i as i128),
        Fv::U64(u) => M::Int(*u as i128),
        Fv::F64(f) => {
            if f.is_nan() {
                return None;
            }
            M::Float(*f)
        }
        Fv::F32(f) => {
            if f.is_nan() {
                return None;
            }
            M::Float(*f as f64)
        }
        Fv::Bytes(b) => M::Bytes(b.clone()),
        Fv::Text(t) => M::Text(t.clone()),
        Fv::Json(j) => M::J(j.clone()),
        Fv::Vector(x) => M::Array(x.iter().map(|b| M::Int(b.to_bits() as i128)).collect()),
        Fv::Array(a) => M::Array(a.iter().map(to_m).collect::<Option<Vec<_>>>()?),
        Fv::Map(m) => M::Map(m.iter().map(|(k, e)| Some((k.clone(), to_m(e)?))).collect::<Option<Vec<_>>>()?),
    })
}

fn expand(m: &M) -> M {
    match m {
        M::J(j) => match j {
            Json::Null => M::Null,
            Json::Bool(b) => M::Bool(*b),
            Json::Number(n) => {
                if let Some(u) = n.as_u64() {
                    M::Int(u as i128)
                } else if let Some(i) = n.as_i64() {
                    M::Int(i as i128)
                } else {
                    M::Float(n.as_f64().unwrap_or(f64::NAN))
                }
            }
            Json::String(s) => M::Text(s.clone()),
            Json::Array(a) => M::Array(a.iter().map(|e| M::J(e.clone())).collect()),
            Json::Object(o) => M::Map(o.iter().map(|(k, e)| (Fk::Text(k.clone()), M::J(e.clone()))).collect()),
        },
        other => other.clone(),
    }
}

/// Schema-less reading of a model CBOR item.
fn generic(m: &M) -> Fv {
    match expand(m) {
        M::Null => Fv::Null,
        M::Bool(b) => Fv::Bool(b),
        M::Int(i) => {
            if i >= 0 {
                Fv::U64(i as u64)
            } else {
                Fv::I64(i as i64)
            }
        }
        M::Float(f) => Fv::F64(f),
        M::Bytes(b) => Fv::Bytes(b),
        M::Text(t) => Fv::Text(t),
        M::Array(a) => Fv::Array(a.iter().map(generic).collect()),
        M::Map(m) => Fv::Map(m.iter().map(|(k, e)| (k.clone(), generic(e))).collect()),
        M::J(_) => unreachable!(),
    }
}

#[derive(Clone, Debug)]
pub enum Extract {
    /// must be accepted, and hold exactly this value
    Accept(Fv),
    /// must be rejected
    Reject,
    /// contract does not decide
    Unspec,
}

fn all_accept(items: Vec<Extract>) -> Result<Vec<Fv>, Extract> {
    let mut out = Vec::new();
    let mut unspec = false;
    for it in items {
        match it {
            Extract::Accept(v) => out.push(v),
            Extract::Reject => return Err(Extract::Reject),
            Extract::Unspec => unspec = true,
        }
    }
    if unspec { Err(Extract::Unspec) } else { Ok(out) }
}

/// Type-driven extraction of a serialised item in a slot of type `ft`
/// (documented in `FieldType::extract`, `f32_from`, `bytes_from`,
/// `map_from`): integers by range, floats only from floats (f32: finite
/// values must stay finite), Bytes also from an array of 0..=255, Vector from
/// an array of u16, wildcard maps pin the key kind, keyed maps reject
/// undeclared keys and need every non-optional key.
pub fn extract(ft: &Ft, m: &M) -> Extract {
    use Extract::*;
    if let Ft::Json = ft {
        return match m {
            M::J(j) => Accept(Fv::Json(j.clone())),
            _ => Unspec,
        };
    }
    let x = expand(m);
    match (ft, &x) {
        (Ft::Option(_), M::Null) => Accept(Fv::Null),
        (Ft::Option(t), _) => extract(t, m),
        (Ft::Bool, M::Bool(b)) => Accept(Fv::Bool(*b)),
        (Ft::I64, M::Int(i)) if *i >= i64::MIN as i128 && *i <= i64::MAX as i128 => Accept(Fv::I64(*i as i64)),
        (Ft::U64, M::Int(i)) if *i >= 0 && *i <= u64::MAX as i128 => Accept(Fv::U64(*i as u64)),
        (Ft::F64, M::Float(f)) if !f.is_nan() => Accept(Fv::F64(*f)),
        (Ft::F32, M::Float(f)) if !f.is_nan() => {
            let v = *f as f32;
            if v.is_infinite() && f.is_finite() { Reject } else { Accept(Fv::F32(v)) }
        }
        (Ft::Bytes, M::Bytes(b)) => Accept(Fv::Bytes(b.clone())),
        (Ft::Bytes, M::Array(a)) => {
            let mut out = Vec::new();
            for e in a {
                match expand(e) {
                    M::Int(i) if (0..=255).contains(&i) => out.push(i as u8),
                    _ => return Reject,
                }
            }
            Accept(Fv::Bytes(out))
        }
        (Ft::Text, M::Text(t)) => Accept(Fv::Text(t.clone())),
        (Ft::Vector, M::Array(a)) => {
            let mut out = Vec::new();
            for e in a {
                match expand(e) {
                    M::Int(i) if (0..=u16::MAX as i128).contains(&i) => out.push(bf16::from_bits(i as u16)),
                    _ => return Reject,
                }
            }
            Accept(Fv::Vector(out))
        }
        (Ft::Array(ts), M::Array(a)) => match ts.len() {
            0 => Accept(Fv::Array(a.iter().map(generic).collect())),
            1 => match all_accept(a.iter().map(|e| extract(&ts[0], e)).collect()) {
                Ok(v) => Accept(Fv::Array(v)),
                Err(e) => e,
            },
            n => {
                if a.len() != n {
                    return Reject;
                }
                match all_accept(ts.iter().zip(a).map(|(t, e)| extract(t, e)).collect()) {
                    Ok(v) => Accept(Fv::Array(v)),
                    Err(e) => e,
                }
            }
        },
        (Ft::Map(ts), M::Map(entries)) if ts.is_empty() => {
            Accept(Fv::Map(entries.iter().map(|(k, e)| (k.clone(), generic(e))).collect()))
        }
        (Ft::Map(ts), M::Map(entries)) => {
            if let Some((kind, t)) = is_wildcard(ts) {
                if entries.iter().any(|(k, _)| std::mem::discriminant(k) != std::mem::discriminant(kind)) {
                    return Reject;
                }
                match all_accept(entries.iter().map(|(_, e)| extract(t, e)).collect()) {
                    Ok(v) => Accept(Fv::Map(entries.iter().map(|(k, _)| k.clone()).zip(v).collect())),
                    Err(e) => e,
                }
            } else {
                if entries.iter().any(|(k, _)| !ts.contains_key(k)) {
                    return Reject;
                }
                let mut unspec = false;
                for (k, t) in ts {
                    if !entries.iter().any(|(l, _)| l == k) {
                        match t {
                            Ft::Option(_) => {}
                            Ft::Json => unspec = true,
                            _ => return Reject,
                        }
                    }
                }
                match all_accept(entries.iter().map(|(k, e)| extract(&ts[k], e)).collect()) {
                    Ok(v) if !unspec => {
                        Accept(Fv::Map(entries.iter().map(|(k, _)| k.clone()).zip(v).collect::<BTreeMap<_, _>>()))
                    }
                    Ok(_) => Unspec,
                    Err(e) => e,
                }
            }
        }
        _ => Reject,
    }
}

/// Expected outcome of offering `v` (serialised) to `Document::try_from` for a
/// top-level field of type `ft`, budget included.
pub fn classify_extract(ft: &Ft, v: &Fv) -> Extract {
    let Some(m) = to_m(v) else {
        // NaN cannot be serialised: the write fails one way or the other
        return Extract::Unspec;
    };
    match extract(ft, &m) {
        Extract::Accept(d) => {
            if within_budget(&d) {
                Extract::Accept(d)
            } else {
                Extract::Reject
            }
        }
        other => other,
    }
}

//! C13 part `derive` — typed round trip of derive-macro structs.
//!
//! A fixed list of structs deriving `AndaDBSchema` / `FieldTyped` that
//! together use every Rust field type the derive macros support; each struct
//! is instantiated with every row of its boundary-value table and sent
//! through `Document::try_from` -> `Schema::validate` -> CBOR bytes ->
//! `DocumentOwned` -> `Document::try_from_doc` -> `try_into::<T>()`.
//! Plus a matrix of typed values offered to a *different* struct's schema
//! (wrong type, out of range, missing / extra field), which must be rejected.

use anda_db_schema::{
    AndaDBSchema, ByteArrayB64, ByteBufB64, Document, FieldTyped, Json, Resource, Schema, Vector, bf16,
};
use serde::{Deserialize, Serialize, de::DeserializeOwned};
use serde_bytes::{ByteArray, ByteBuf};
use serde_json::json;
use std::borrow::Cow;
use std::collections::{BTreeMap, BTreeSet, HashMap, HashSet};
use std::fmt::Debug;
use std::panic::{AssertUnwindSafe, catch_unwind};
use std::sync::Arc;
use vcore::{Run, Violation, util};
use vschema::exec::read_back;
use vschema::model;

// ---- the structs ---------------------------------------------------------------

#[derive(Debug, Clone, PartialEq, Serialize, Deserialize, AndaDBSchema)]
struct Ints {
    _id: u64,
    a_u8: u8,
    a_u16: u16,
    a_u32: u32,
    a_u64: u64,
    a_usize: usize,
    a_i8: i8,
    a_i16: i16,
    a_i32: i32,
    a_i64: i64,
    a_isize: isize,
    o_u64: Option<u64>,
    o_i64: Option<i64>,
    o_i8: Option<i8>,
}

#[derive(Debug, Clone, PartialEq, Serialize, Deserialize, AndaDBSchema)]
struct Scalars {
    _id: u64,
    f: f32,
    d: f64,
    b: bool,
    #[unique]
    s: String,
    of: Option<f32>,
    od: Option<f64>,
    ob: Option<bool>,
    os: Option<String>,
    oof: Option<Option<f32>>,
}

#[derive(Debug, Clone, PartialEq, Serialize, Deserialize, AndaDBSchema)]
struct BytesFamily {
    _id: u64,
    v: Vec<u8>,
    a: [u8; 4],
    bb: ByteBuf,
    ba: ByteArray<3>,
    b64: ByteBufB64,
    a64: ByteArrayB64<2>,
    ov: Option<Vec<u8>>,
    oa: Option<[u8; 2]>,
    obb: Option<ByteBuf>,
    #[allow(clippy::box_collection)]
    bx: Box<Vec<u8>>,
    lv: Vec<ByteBuf>,
}

#[derive(Debug, Clone, PartialEq, Serialize, Deserialize, AndaDBSchema)]
struct Vectors {
    _id: u64,
    v: Vec<bf16>,
    a: [bf16; 3],
    al: Vector,
    ov: Option<Vec<bf16>>,
    lv: Vec<Vec<bf16>>,
    mv: BTreeMap<String, Vector>,
}

#[derive(Debug, Clone, PartialEq, Serialize, Deserialize, AndaDBSchema)]
struct Collections {
    _id: u64,
    vs: Vec<String>,
    vi: Vec<i32>,
    vvu: Vec<Vec<u64>>,
    bs: BTreeSet<i64>,
    hs: HashSet<String>,
    au: [u32; 3],
    at: [String; 2],
    voi: Vec<Option<i64>>,
    ovs: Option<Vec<String>>,
    vf: Vec<f32>,
    vb: Vec<bool>,
}

#[derive(Debug, Clone, PartialEq, Serialize, Deserialize, AndaDBSchema)]
struct Maps {
    _id: u64,
    su: BTreeMap<String, u64>,
    hss: HashMap<String, String>,
    is: BTreeMap<i64, String>,
    i32f: BTreeMap<i32, f32>,
    bu: BTreeMap<ByteBuf, u64>,
    sv: BTreeMap<String, Vec<u8>>,
    ssi: BTreeMap<String, BTreeMap<String, i64>>,
    osou: Option<BTreeMap<String, Option<u64>>>,
    jm: serde_json::Map<String, Json>,
    svi: BTreeMap<String, Vec<i8>>,
}

#[derive(Debug, Clone, PartialEq, Serialize, Deserialize, AndaDBSchema)]
struct Jsons {
    _id: u64,
    j: serde_json::Value,
    ja: Json,
    oj: Option<serde_json::Value>,
    vj: Vec<serde_json::Value>,
    mj: BTreeMap<String, serde_json::Value>,
}

#[derive(Debug, Clone, PartialEq, Serialize, Deserialize, FieldTyped)]
struct Inner {
    a: i64,
    b: Option<String>,
    c: Vec<u8>,
    v: Vec<bf16>,
    f: f32,
    #[serde(rename = "renamedKey")]
    r: u16,
}

#[derive(Debug, Clone, PartialEq, Serialize, Deserialize, FieldTyped)]
#[serde(rename_all = "camelCase")]
struct Leafy {
    some_count: i8,
    deep_inner: Option<Inner>,
}

#[derive(Debug, Clone, PartialEq, Serialize, Deserialize, AndaDBSchema)]
struct Nested {
    _id: u64,
    inner: Inner,
    opt_inner: Option<Inner>,
    list: Vec<Inner>,
    map: BTreeMap<String, Inner>,
    boxed: Box<Inner>,
    leafy: Leafy,
    imap: BTreeMap<i16, Leafy>,
}

#[derive(Debug, Clone, PartialEq, Serialize, Deserialize, AndaDBSchema)]
struct Pointers {
    _id: u64,
    bs: Box<String>,
    cs: Cow<'static, str>,
    bi: Box<i64>,
    obs: Option<Box<String>>,
    vb: Vec<Box<u32>>,
}

#[derive(Debug, Clone, PartialEq, Serialize, Deserialize, AndaDBSchema)]
#[serde(rename_all = "snake_case")]
struct Attrs {
    _id: u64,
    #[serde(rename = "explicit_name")]
    renamed: String,
    #[serde(skip)]
    runtime_only: Option<String>,
    #[field_type = "Option<Array<Bytes>>"]
    ids: Option<Vec<ByteBuf>>,
    #[field_type = "Map<I64, Text>"]
    small_keys: BTreeMap<i16, String>,
    #[field_type = "Json"]
    as_json: Vec<BTreeMap<String, i64>>,
    #[field_type = "I64"]
    tiny: i8,
    #[field_type = "Map<Bytes, F64>"]
    by_bytes: BTreeMap<ByteBuf, f64>,
    #[field_type = "Array<Option<F32>>"]
    sparse: Vec<Option<f32>>,
    #[unique]
    uniq: u64,
    /// left out of the serialised form when zero; the declared type is made
    /// optional as the derive docs prescribe
    #[field_type = "Option<U64>"]
    #[serde(default, skip_serializing_if = "is_zero")]
    lazy: u64,
}

fn is_zero(v: &u64) -> bool {
    *v == 0
}

#[derive(Debug, Clone, PartialEq, Serialize, Deserialize, AndaDBSchema)]
struct WithResource {
    _id: u64,
    picture: Option<Resource>,
    required_res: Resource,
}

// ---- boundary tables -----------------------------------------------------------

fn bf(bits: u16) -> bf16 {
    bf16::from_bits(bits)
}

const F32S: [f32; 8] = [0.0, -0.0, 1e-45, f32::MAX, 2.71, f32::MIN, f32::MIN_POSITIVE, f32::NEG_INFINITY];
const F64S: [f64; 9] =
    [0.0, -0.0, 5e-324, f32::MAX as f64, 2.71, f64::MAX, f64::MIN, f64::MIN_POSITIVE, f64::INFINITY];
const BF: [u16; 9] = [0x0000, 0x8000, 0x0001, 0x007F, 0x0080, 0x3F80, 0x7F7F, 0x7F80, 0xFF80];

fn ints() -> Vec<Ints> {
    (0..4)
        .map(|i| Ints {
            _id: 1,
            a_u8: [0, 1, 127, u8::MAX][i],
            a_u16: [0, 1, 255, u16::MAX][i],
            a_u32: [0, 1, 65536, u32::MAX][i],
            a_u64: [0, i64::MAX as u64, i64::MAX as u64 + 1, u64::MAX][i],
            a_usize: [0, 1, i64::MAX as usize + 1, usize::MAX][i],
            a_i8: [i8::MIN, -1, 0, i8::MAX][i],
            a_i16: [i16::MIN, -1, 0, i16::MAX][i],
            a_i32: [i32::MIN, -1, 0, i32::MAX][i],
            a_i64: [i64::MIN, -1, 0, i64::MAX][i],
            a_isize: [isize::MIN, -1, 0, isize::MAX][i],
            o_u64: [None, Some(0), Some(i64::MAX as u64 + 1), Some(u64::MAX)][i],
            o_i64: [Some(i64::MIN), None, Some(0), Some(i64::MAX)][i],
            o_i8: [Some(-1), Some(0), None, Some(i8::MAX)][i],
        })
        .collect()
}

fn scalars() -> Vec<Scalars> {
    (0..9)
        .map(|i| Scalars {
            _id: 1,
            f: F32S[i % 8],
            d: F64S[i],
            b: i % 2 == 0,
            s: ["", "a", "h\u{e9}llo \u{2713}", "b64:AQID", "txt:x"][i % 5].to_string(),
            of: if i == 3 { None } else { Some(F32S[(i + 1) % 8]) },
            od: if i == 4 { None } else { Some(F64S[(i + 1) % 9]) },
            ob: [None, Some(true), Some(false)][i % 3],
            os: [None, Some(String::new()), Some("x".to_string())][i % 3].clone(),
            // Some(None) is indistinguishable from None in serde; not a boundary of this check
            oof: [None, Some(Some(2.71f32)), Some(Some(-0.0f32))][i % 3],
        })
        .collect()
}

fn bytes_family() -> Vec<BytesFamily> {
    (0..3)
        .map(|i| BytesFamily {
            _id: 1,
            v: [vec![], vec![0], vec![0, 255, 1, 42]][i].clone(),
            a: [[0, 0, 0, 0], [255, 255, 255, 255], [0, 255, 1, 42]][i],
            bb: ByteBuf::from([vec![], vec![255], vec![1, 0, 2]][i].clone()),
            ba: ByteArray::new([[0, 0, 0], [255, 0, 255], [1, 2, 3]][i]),
            b64: [vec![], vec![0u8], vec![9, 8, 7]][i].clone().into(),
            a64: [[0u8, 0], [255, 255], [1, 2]][i].into(),
            ov: [None, Some(vec![]), Some(vec![255, 0])][i].clone(),
            oa: [None, Some([0, 0]), Some([255, 1])][i],
            obb: [Some(ByteBuf::from(vec![1])), None, Some(ByteBuf::new())][i].clone(),
            bx: Box::new([vec![], vec![24], vec![23, 24, 255, 0]][i].clone()),
            lv: [vec![], vec![ByteBuf::new()], vec![ByteBuf::from(vec![1, 2]), ByteBuf::from(vec![255])]][i].clone(),
        })
        .collect()
}

fn vectors() -> Vec<Vectors> {
    (0..3)
        .map(|i| Vectors {
            _id: 1,
            v: [vec![], vec![bf(0x3F80)], BF.iter().map(|b| bf(*b)).collect()][i].clone(),
            a: [[bf(0), bf(0x8000), bf(1)], [bf(0x7F7F), bf(0x7F80), bf(0xFF80)], [bf(0x3F80), bf(0x007F), bf(0x0080)]][i],
            al: [vec![bf(0x8000)], vec![], BF.iter().rev().map(|b| bf(*b)).collect()][i].clone(),
            ov: [None, Some(vec![]), Some(vec![bf(0x7F80), bf(1)])][i].clone(),
            lv: [vec![], vec![vec![]], vec![vec![bf(1)], vec![bf(0x8000), bf(0x7F7F)]]][i].clone(),
            mv: [
                BTreeMap::new(),
                BTreeMap::from([(String::new(), vec![])]),
                BTreeMap::from([("k".to_string(), vec![bf(0x3F80)]), ("*".to_string(), vec![bf(0xFF80)])]),
            ][i]
                .clone(),
        })
        .collect()
}

fn collections() -> Vec<Collections> {
    (0..4)
        .map(|i| Collections {
            _id: 1,
            vs: [vec![], vec![String::new()], vec!["a".to_string(), "a".to_string()], vec!["z".into(), "b64:AQ".into()]][i]
                .clone(),
            vi: [vec![], vec![i32::MIN], vec![-1, 0, i32::MAX], vec![5]][i].clone(),
            vvu: [vec![], vec![vec![]], vec![vec![0, u64::MAX], vec![i64::MAX as u64 + 1]], vec![vec![1], vec![], vec![2]]][i]
                .clone(),
            bs: [BTreeSet::new(), BTreeSet::from([i64::MIN]), BTreeSet::from([-1, 0, i64::MAX]), BTreeSet::from([7])][i]
                .clone(),
            hs: [HashSet::new(), HashSet::from([String::new()]), HashSet::from(["x".to_string(), "y".to_string()]), HashSet::new()]
                [i]
                .clone(),
            au: [[0, 0, 0], [u32::MAX, 0, 1], [1, 2, 3], [255, 256, 65536]][i],
            at: [
                [String::new(), String::new()],
                ["a".to_string(), "b".to_string()],
                ["\u{2713}".to_string(), "".to_string()],
                ["i64:5".to_string(), "txt:".to_string()],
            ][i]
                .clone(),
            voi: [vec![], vec![None], vec![Some(i64::MIN), None, Some(0), Some(i64::MAX)], vec![Some(-1)]][i].clone(),
            ovs: [None, Some(vec![]), Some(vec!["x".to_string()]), None][i].clone(),
            vf: [vec![], F32S.to_vec(), vec![-0.0], vec![2.71]][i].clone(),
            vb: [vec![], vec![true], vec![false, true], vec![false]][i].clone(),
        })
        .collect()
}

fn maps() -> Vec<Maps> {
    (0..3)
        .map(|i| Maps {
            _id: 1,
            su: [
                BTreeMap::new(),
                BTreeMap::from([(String::new(), 0)]),
                BTreeMap::from([("*".to_string(), u64::MAX), ("k".to_string(), i64::MAX as u64 + 1)]),
            ][i]
                .clone(),
            hss: [
                HashMap::new(),
                HashMap::from([("a".to_string(), String::new())]),
                HashMap::from([("a".to_string(), "b".to_string()), ("i64:1".to_string(), "c".to_string())]),
            ][i]
                .clone(),
            is: [
                BTreeMap::new(),
                BTreeMap::from([(i64::MIN, "min".to_string())]),
                BTreeMap::from([(-1, "m".to_string()), (0, "z".to_string()), (i64::MAX, "max".to_string())]),
            ][i]
                .clone(),
            i32f: [
                BTreeMap::new(),
                BTreeMap::from([(i32::MIN, -0.0f32)]),
                BTreeMap::from([(0, 2.71f32), (i32::MAX, f32::MAX), (-1, 1e-45)]),
            ][i]
                .clone(),
            bu: [
                BTreeMap::new(),
                BTreeMap::from([(ByteBuf::new(), 0u64)]),
                BTreeMap::from([(ByteBuf::from(b"*".to_vec()), 1), (ByteBuf::from(vec![255, 0]), u64::MAX)]),
            ][i]
                .clone(),
            sv: [
                BTreeMap::new(),
                BTreeMap::from([("e".to_string(), vec![])]),
                BTreeMap::from([("a".to_string(), vec![0, 255]), ("b".to_string(), vec![24])]),
            ][i]
                .clone(),
            ssi: [
                BTreeMap::new(),
                BTreeMap::from([("o".to_string(), BTreeMap::new())]),
                BTreeMap::from([("o".to_string(), BTreeMap::from([("i".to_string(), i64::MIN), ("j".to_string(), 5)]))]),
            ][i]
                .clone(),
            osou: [
                None,
                Some(BTreeMap::new()),
                Some(BTreeMap::from([("n".to_string(), None), ("s".to_string(), Some(u64::MAX))])),
            ][i]
                .clone(),
            jm: [
                serde_json::Map::new(),
                json!({"k": null}).as_object().unwrap().clone(),
                json!({"k": [1, -2, 2.5, {"z": "b64:AQID"}], "": u64::MAX}).as_object().unwrap().clone(),
            ][i]
                .clone(),
            svi: [
                BTreeMap::new(),
                BTreeMap::from([("e".to_string(), vec![])]),
                BTreeMap::from([("a".to_string(), vec![i8::MIN, -1, 0, i8::MAX])]),
            ][i]
                .clone(),
        })
        .collect()
}

fn jsons() -> Vec<Jsons> {
    let js = [
        json!(null),
        json!(true),
        json!(0),
        json!(-1),
        json!(u64::MAX),
        json!(i64::MIN),
        json!(2.5),
        json!("b64:AQID"),
        json!([]),
        json!({}),
        json!({"k": [1, {"z": null, "y": -0.5}], "": "x"}),
    ];
    (0..js.len())
        .map(|i| Jsons {
            _id: 1,
            j: js[i].clone(),
            ja: js[(i + 1) % js.len()].clone(),
            // Some(null) is indistinguishable from None in serde; skipped
            oj: if js[(i + 2) % js.len()].is_null() || i == 0 { None } else { Some(js[(i + 2) % js.len()].clone()) },
            vj: if i == 0 { vec![] } else { js[..i].to_vec() },
            mj: if i == 0 {
                BTreeMap::new()
            } else {
                BTreeMap::from([("a".to_string(), js[i].clone()), (String::new(), js[(i + 3) % js.len()].clone())])
            },
        })
        .collect()
}

fn inner(i: usize) -> Inner {
    Inner {
        a: [i64::MIN, -1, 0, i64::MAX][i % 4],
        b: [None, Some(String::new()), Some("x".to_string())][i % 3].clone(),
        c: [vec![], vec![0, 255], vec![24]][i % 3].clone(),
        v: [vec![], vec![bf(0x8000), bf(0x7F80)], vec![bf(1)]][i % 3].clone(),
        f: F32S[i % 8],
        r: [0, u16::MAX, 255][i % 3],
    }
}

fn leafy(i: usize) -> Leafy {
    Leafy { some_count: [i8::MIN, 0, i8::MAX][i % 3], deep_inner: if i % 2 == 0 { None } else { Some(inner(i + 1)) } }
}

fn nested() -> Vec<Nested> {
    (0..8)
        .map(|i| Nested {
            _id: 1,
            inner: inner(i),
            opt_inner: if i % 3 == 0 { None } else { Some(inner(i + 1)) },
            list: (0..i % 4).map(|k| inner(i + k)).collect(),
            map: (0..i % 3).map(|k| (format!("k{k}"), inner(i + 2 * k))).collect(),
            boxed: Box::new(inner(i + 5)),
            leafy: leafy(i),
            imap: (0..i % 3).map(|k| ([i16::MIN, 0, i16::MAX][k], leafy(i + k))).collect(),
        })
        .collect()
}

fn pointers() -> Vec<Pointers> {
    (0..4)
        .map(|i| Pointers {
            _id: 1,
            bs: Box::new(["", "a", "\u{2713}", "txt:y"][i].to_string()),
            cs: Cow::Owned(["", "b", "b64:AQID", "z"][i].to_string()),
            bi: Box::new([i64::MIN, -1, 0, i64::MAX][i]),
            obs: [None, Some(Box::new(String::new())), Some(Box::new("q".to_string())), None][i].clone(),
            vb: [vec![], vec![Box::new(0u32)], vec![Box::new(u32::MAX), Box::new(1)], vec![]][i].clone(),
        })
        .collect()
}

fn attrs() -> Vec<Attrs> {
    (0..4)
        .map(|i| Attrs {
            _id: 1,
            renamed: ["", "r", "\u{e9}", "i64:9"][i].to_string(),
            runtime_only: None,
            ids: [None, Some(vec![]), Some(vec![ByteBuf::new(), ByteBuf::from(vec![1, 255])]), None][i].clone(),
            small_keys: [
                BTreeMap::new(),
                BTreeMap::from([(i16::MIN, String::new())]),
                BTreeMap::from([(-1, "a".to_string()), (0, "b".to_string()), (i16::MAX, "c".to_string())]),
                BTreeMap::from([(7, "s".to_string())]),
            ][i]
                .clone(),
            as_json: [
                vec![],
                vec![BTreeMap::new()],
                vec![BTreeMap::from([("a".to_string(), i64::MIN), ("b".to_string(), i64::MAX)])],
                vec![BTreeMap::from([("c".to_string(), -1)]), BTreeMap::new()],
            ][i]
                .clone(),
            tiny: [i8::MIN, -1, 0, i8::MAX][i],
            by_bytes: [
                BTreeMap::new(),
                BTreeMap::from([(ByteBuf::new(), -0.0)]),
                BTreeMap::from([(ByteBuf::from(vec![1]), 2.71), (ByteBuf::from(vec![255, 0]), f64::MAX)]),
                BTreeMap::from([(ByteBuf::from(b"*".to_vec()), 5e-324)]),
            ][i]
                .clone(),
            sparse: [vec![], vec![None], vec![Some(-0.0), None, Some(f32::MAX)], vec![Some(1e-45)]][i].clone(),
            uniq: [0, 1, i64::MAX as u64 + 1, u64::MAX][i],
            lazy: [0, 1, 0, u64::MAX][i],
        })
        .collect()
}

fn resource(i: usize) -> Resource {
    Resource {
        _id: i as u64,
        tags: [vec![], vec!["t".to_string()], vec!["a".to_string(), "b".to_string()]][i % 3].clone(),
        name: ["", "n", "\u{2713}"][i % 3].to_string(),
        description: [None, Some("d".to_string())][i % 2].clone(),
        uri: [Some("file:///x".to_string()), None][i % 2].clone(),
        mime_type: [None, Some("image/png".to_string())][i % 2].clone(),
        blob: [None, Some(vec![].into()), Some(vec![0x89u8, 0x50, 0xFF].into())][i % 3].clone(),
        size: [None, Some(0), Some(u64::MAX)][i % 3],
        hash: [None, Some([7u8; 32].into())][i % 2].clone(),
        metadata: [None, Some(serde_json::Map::new()), json!({"k": [1, null, 2.5]}).as_object().cloned()][i % 3].clone(),
    }
}

fn with_resource() -> Vec<WithResource> {
    (0..6)
        .map(|i| WithResource {
            _id: 1,
            picture: if i % 3 == 0 { None } else { Some(resource(i)) },
            required_res: resource(i + 1),
        })
        .collect()
}

// ---- the check -----------------------------------------------------------------

fn panic_msg(p: Box<dyn std::any::Any + Send>) -> String {
    p.downcast_ref::<String>()
        .cloned()
        .or_else(|| p.downcast_ref::<&str>().map(|s| s.to_string()))
        .unwrap_or_else(|| "panic".into())
}

/// `ordered`: compare Debug strings as well (distinguishes -0.0 from 0.0);
/// false for structs holding hash containers.
fn check_struct<T>(run: &mut Run, name: &str, schema: Result<Schema, anda_db_schema::SchemaError>, rows: Vec<T>, ordered: bool)
where
    T: Serialize + DeserializeOwned + PartialEq + Debug + Clone,
{
    let schema = match schema {
        Ok(s) => Arc::new(s),
        Err(e) => {
            run.violation(Violation {
                signature: format!("C13|derive|schema-fails|{name}"),
                summary: format!("{name}::schema() fails: {e}"),
                replay: json!({"struct": name, "row": null}),
            });
            return;
        }
    };
    run.add("structs", 1);
    run.add("struct_fields", schema.len() as u64);
    let only_row: Option<usize> = run.args.iter().position(|a| a == "--row").and_then(|i| run.args.get(i + 1)).and_then(|s| s.parse().ok());
    for (ri, row) in rows.iter().enumerate() {
        if only_row.is_some_and(|r| r != ri) {
            continue;
        }
        run.add("evaluations", 1);
        run.distinct(util::fnv64(format!("{name}|{row:?}").as_bytes()));
        let res = catch_unwind(AssertUnwindSafe(|| -> Result<(), (String, String)> {
            let doc = Document::try_from(schema.clone(), row)
                .map_err(|e| ("own-value-rejected".to_string(), format!("try_from rejects the struct's own value: {e}")))?;
            schema
                .validate(doc.fields())
                .map_err(|e| ("own-value-rejected".to_string(), format!("Schema::validate rejects the document try_from built: {e}")))?;
            let mut bytes = Vec::new();
            cbor2::to_writer(&doc, &mut bytes).map_err(|e| ("own-value-rejected".to_string(), format!("serialise: {e}")))?;
            let back = read_back(&schema, &bytes).map_err(|e| ("accepted-unreadable".to_string(), e))?;
            // field for field, in the declared variant
            for field in schema.iter() {
                match (doc.get_field(field.name()), back.get_field(field.name())) {
                    (None, None) => {}
                    (Some(w), Some(b)) => {
                        if model::admits(field.r#type(), w) != model::Class::Valid
                            || !model::bit_eq(&model::declared(field.r#type(), w), w)
                        {
                            return Err((
                                format!("written-not-declared|{}", field.name()),
                                format!("try_from stored {w:?} for field {} of type {:?}", field.name(), field.r#type()),
                            ));
                        }
                        if !model::same_declared(field.r#type(), w, b) {
                            return Err((
                                format!("readback-differs|{}", field.name()),
                                format!("field {} written {w:?} read back {b:?}", field.name()),
                            ));
                        }
                    }
                    (w, b) => {
                        return Err((
                            format!("readback-differs|{}", field.name()),
                            format!("field {} written {w:?} read back {b:?}", field.name()),
                        ));
                    }
                }
            }
            let typed: T = back.try_into().map_err(|e| ("typed-fails".to_string(), format!("try_into fails: {e}")))?;
            if typed != *row || (ordered && format!("{typed:?}") != format!("{row:?}")) {
                return Err(("typed-differs".to_string(), format!("try_into gives {typed:?}")));
            }
            // the same row written field by field through the typed entry
            // `set_field_as` (each field's own serialised value), read back,
            // must give the same document and the same typed value
            let parts = cbor2::Value::serialized(row)
                .ok()
                .and_then(|v| v.into_map().ok())
                .ok_or_else(|| ("harness".to_string(), "row does not serialise to a map".to_string()))?;
            let mut doc2 = Document::new(schema.clone());
            for (k, v) in &parts {
                let name = k.as_text().ok_or_else(|| ("harness".to_string(), "non-text field name".to_string()))?;
                doc2.set_field_as(name, v).map_err(|e| {
                    (format!("own-value-rejected|set_field_as|{name}"), format!("set_field_as rejects the struct's own field value: {e}"))
                })?;
            }
            let mut bytes2 = Vec::new();
            cbor2::to_writer(&doc2, &mut bytes2).map_err(|e| ("own-value-rejected|set_field_as".to_string(), format!("serialise: {e}")))?;
            let back2 = read_back(&schema, &bytes2).map_err(|e| ("accepted-unreadable|set_field_as".to_string(), e))?;
            for field in schema.iter() {
                let same = match (doc.get_field(field.name()), back2.get_field(field.name())) {
                    (None, None) => true,
                    (Some(w), Some(b)) => model::same_declared(field.r#type(), w, b),
                    _ => false,
                };
                if !same {
                    return Err((
                        format!("readback-differs|set_field_as|{}", field.name()),
                        format!(
                            "field {} built with set_field_as reads back {:?}, try_from stored {:?}",
                            field.name(),
                            back2.get_field(field.name()),
                            doc.get_field(field.name())
                        ),
                    ));
                }
            }
            let typed2: T = back2.try_into().map_err(|e| ("typed-fails|set_field_as".to_string(), format!("try_into fails: {e}")))?;
            if typed2 != *row || (ordered && format!("{typed2:?}") != format!("{row:?}")) {
                return Err(("typed-differs|set_field_as".to_string(), format!("try_into gives {typed2:?}")));
            }
            Ok(())
        }));
        let fail = match res {
            Ok(Ok(())) => None,
            Ok(Err(f)) => Some(f),
            Err(p) => Some(("panic".to_string(), format!("panicked: {}", panic_msg(p)))),
        };
        if let Some((kind, detail)) = fail {
            run.violation(Violation {
                signature: format!("C13|derive|{kind}|{name}"),
                summary: format!("struct {name} row {ri} {row:?}: {detail}"),
                replay: json!({"struct": name, "row": ri}),
            });
        }
        if ri == 2 {
            run.sample(json!({"struct": name, "row": ri, "value": format!("{row:?}")}));
        }
    }
}

// ---- typed values offered to another struct's schema: must be rejected -----------

#[derive(Debug, Clone, PartialEq, Serialize, Deserialize, AndaDBSchema)]
struct Target {
    _id: u64,
    u: u64,
    i: i64,
    f: f32,
    t: String,
    b: Vec<u8>,
    v: Vec<bf16>,
    o: Option<u32>,
    l: Vec<i64>,
    m: BTreeMap<String, u64>,
    n: Inner,
}

fn good_inner() -> serde_json::Value {
    json!({"a": 1, "b": null, "c": [1, 2], "v": [16256], "f": 0.5, "renamedKey": 1})
}

/// (name, a serialisable value shaped like Target except for one defect, must_reject)
fn offers() -> Vec<(&'static str, serde_json::Value, bool)> {
    let base = json!({
        "_id": 1, "u": 5, "i": -5, "f": 0.5, "t": "x", "b": [1, 2], "v": [16256], "o": null,
        "l": [1, -1], "m": {"k": 1}, "n": good_inner()
    });
    let with = |k: &str, v: serde_json::Value| {
        let mut b = base.clone();
        b[k] = v;
        b
    };
    let without = |k: &str| {
        let mut b = base.clone();
        b.as_object_mut().unwrap().remove(k);
        b
    };
    vec![
        ("well_formed", base.clone(), false),
        ("optional_absent", without("o"), false),
        ("u_negative", with("u", json!(-1)), true),
        ("u_text", with("u", json!("5")), true),
        ("u_float", with("u", json!(5.5)), true),
        ("i_above_i64", with("i", json!(i64::MAX as u64 + 1)), true),
        ("i_null", with("i", json!(null)), true),
        ("f_out_of_f32_range", with("f", json!(1e39)), true),
        ("f_integer", with("f", json!(1)), true),
        ("t_bytes_like", with("t", json!([104, 105])), true),
        ("b_element_256", with("b", json!([1, 256])), true),
        ("b_text", with("b", json!("ab")), true),
        ("v_element_65536", with("v", json!([65536])), true),
        ("v_negative", with("v", json!([-1])), true),
        ("o_text", with("o", json!("x")), true),
        ("l_holds_text", with("l", json!([1, "x"])), true),
        ("l_holds_null", with("l", json!([1, null])), true),
        ("m_value_negative", with("m", json!({"k": -1})), true),
        ("m_not_a_map", with("m", json!([1])), true),
        ("n_missing_required_key", with("n", json!({"b": null, "c": [], "v": [], "f": 0.5, "renamedKey": 1})), true),
        ("n_extra_key", with("n", {
            let mut g = good_inner();
            g["zz"] = json!(1);
            g
        }), true),
        ("n_key_wrong_type", with("n", {
            let mut g = good_inner();
            g["a"] = json!("1");
            g
        }), true),
        ("n_unrenamed_key", with("n", json!({"a": 1, "b": null, "c": [], "v": [], "f": 0.5, "r": 1})), true),
        ("missing_required_field", without("t"), true),
        ("extra_field", with("zz", json!(1)), true),
        ("missing_id", without("_id"), true),
    ]
}

fn check_offers(run: &mut Run) {
    let schema = Arc::new(Target::schema().expect("Target schema"));
    for (name, offer, must_reject) in offers() {
        run.add("evaluations", 1);
        run.distinct(util::fnv64(format!("offer|{name}").as_bytes()));
        let res = catch_unwind(AssertUnwindSafe(|| -> Result<bool, String> {
            let doc = match Document::try_from(schema.clone(), &offer) {
                Ok(d) => d,
                Err(_) => return Ok(false),
            };
            if schema.validate(doc.fields()).is_err() {
                return Ok(false);
            }
            let mut bytes = Vec::new();
            if cbor2::to_writer(&doc, &mut bytes).is_err() {
                return Ok(false);
            }
            // accepted: must read back and convert to the typed struct
            let back = read_back(&schema, &bytes)?;
            let _typed: Target = back.try_into().map_err(|e| format!("try_into fails: {e}"))?;
            Ok(true)
        }));
        let problem = match res {
            Err(p) => Some(("panic", format!("panicked: {}", panic_msg(p)))),
            Ok(Err(e)) => Some(("accepted-unreadable", e)),
            Ok(Ok(true)) if must_reject => Some(("invalid-accepted", "the offered value violates the schema but was accepted".to_string())),
            Ok(Ok(accepted)) => {
                if !must_reject && !accepted {
                    run.add("well_formed_offer_rejected", 1);
                }
                None
            }
        };
        if let Some((kind, detail)) = problem {
            run.violation(Violation {
                signature: format!("C13|derive-offer|{kind}|{name}"),
                summary: format!("offer {name} {offer} to Target::schema(): {detail}"),
                replay: json!({"offer": name}),
            });
        }
    }
}

// ---- typed field probes: real Rust values through set_field_as / get_field_as ------

/// One typed probe: `value` (a plain Rust value) is written into a field of
/// type `ft` with `Document::set_field_as`; `as_fv` is the same value spelled
/// as a FieldValue, which the reference model classifies (type, budget).
/// Oracle: model says over budget / invalid => the write must fail; accepted
/// => the stored bytes read back valid, the field equals the written one in
/// the declared variant, and `get_field_as::<T>` returns the value.
fn typed_probe<T>(run: &mut Run, only: Option<&str>, name: &str, ft: vschema::grammar::Ft, value: T, as_fv: vschema::values::Fv)
where
    T: Serialize + DeserializeOwned + PartialEq + Debug,
{
    if only.is_some_and(|o| o != name) {
        return;
    }
    use vschema::model::Extract;
    run.add("evaluations", 1);
    run.add("typed_field_probes", 1);
    run.distinct(util::fnv64(format!("probe|{name}").as_bytes()));
    let schema = vschema::exec::schema_for(&ft);
    let verdict = model::classify_extract(&ft, &as_fv);
    let res = catch_unwind(AssertUnwindSafe(|| -> Result<bool, (String, String)> {
        let mut doc = Document::new(schema.clone());
        doc.set_id(1);
        if doc.set_field_as("v", &value).is_err() {
            return Ok(false);
        }
        let mut bytes = Vec::new();
        if cbor2::to_writer(&doc, &mut bytes).is_err() {
            return Ok(false);
        }
        if matches!(verdict, Extract::Reject) {
            return Err(("invalid-accepted".into(), "set_field_as accepted a value that violates the declared type or the complexity budget".into()));
        }
        let back = read_back(&schema, &bytes).map_err(|e| ("accepted-unreadable".to_string(), e))?;
        let got = back.get_field("v").ok_or_else(|| ("readback-differs".to_string(), "field missing".to_string()))?;
        if let Extract::Accept(want) = &verdict
            && !model::same_declared(&ft, want, got)
        {
            return Err(("readback-differs".into(), format!("reads back {got:?}")));
        }
        let typed: T = back.get_field_as("v").map_err(|e| ("typed-fails".to_string(), format!("get_field_as fails: {e}")))?;
        if typed != value {
            return Err(("typed-differs".into(), "get_field_as returns a different value".into()));
        }
        Ok(true)
    }));
    let problem = match res {
        Ok(Ok(accepted)) => {
            if accepted {
                run.add("typed_field_probes_accepted", 1);
            } else if matches!(verdict, Extract::Accept(_)) {
                run.add("typed_field_probes_valid_but_rejected", 1);
            }
            None
        }
        Ok(Err(f)) => Some(f),
        Err(p) => Some(("panic".to_string(), format!("panicked: {}", panic_msg(p)))),
    };
    if let Some((kind, detail)) = problem {
        let class = name.trim_end_matches(|c: char| c.is_ascii_digit());
        run.violation(Violation {
            signature: format!("C13|set_field_as|{kind}|{class}"),
            summary: format!("typed probe {name} (field type {ft:?}): {detail}"),
            replay: json!({"probe": name}),
        });
    }
}

fn typed_probes(run: &mut Run, only: Option<&str>) {
    use vschema::grammar::{self as g, Ft};
    use vschema::values::{self, Fk, Fv};
    let lens = [0usize, 1, 4095, 4096, 4097, 5000];
    for n in lens {
        let strs: Vec<String> = (0..n).map(|i| format!("t{i}")).collect();
        typed_probe(run, only, &format!("vec_string_len{n}"), g::arr1(Ft::Text), strs.clone(), Fv::Array(strs.iter().cloned().map(Fv::Text).collect()));
        typed_probe(
            run,
            only,
            &format!("opt_vec_string_len{n}"),
            g::opt(g::arr1(Ft::Text)),
            Some(strs.clone()),
            Fv::Array(strs.iter().cloned().map(Fv::Text).collect()),
        );
        let nums: Vec<u64> = (0..n as u64).map(|i| i * 1_000_003).collect();
        typed_probe(run, only, &format!("vec_u64_len{n}"), g::arr1(Ft::U64), nums.clone(), Fv::Array(nums.iter().map(|x| Fv::U64(*x)).collect()));
        let signed: Vec<i64> = (0..n as i64).map(|i| i - 2048).collect();
        typed_probe(run, only, &format!("vec_i64_len{n}"), g::arr1(Ft::I64), signed.clone(), Fv::Array(signed.iter().map(|x| Fv::I64(*x)).collect()));
        let m: BTreeMap<String, u64> = (0..n).map(|i| (format!("k{i}"), i as u64)).collect();
        typed_probe(
            run,
            only,
            &format!("btreemap_string_u64_entries{n}"),
            g::wild_text(Ft::U64),
            m.clone(),
            Fv::Map(m.iter().map(|(k, v)| (Fk::Text(k.clone()), Fv::U64(*v))).collect()),
        );
        let mi: BTreeMap<i64, String> = (0..n as i64).map(|i| (i - 7, format!("v{i}"))).collect();
        typed_probe(
            run,
            only,
            &format!("btreemap_i64_string_entries{n}"),
            g::wild_i64(Ft::Text),
            mi.clone(),
            Fv::Map(mi.iter().map(|(k, v)| (Fk::I64(*k), Fv::Text(v.clone()))).collect()),
        );
        // single-node leaves: no length limit applies
        typed_probe(run, only, &format!("bytebuf_len{n}"), Ft::Bytes, ByteBuf::from(vec![7u8; n]), Fv::Bytes(vec![7u8; n]));
        typed_probe(run, only, &format!("vec_u8_len{n}"), Ft::Bytes, vec![7u8; n], Fv::Bytes(vec![7u8; n]));
        typed_probe(run, only, &format!("vec_bf16_len{n}"), Ft::Vector, vec![bf(0x3F80); n], values::vector(&vec![0x3F80; n]));
        typed_probe(run, only, &format!("string_len{n}"), Ft::Text, "x".repeat(n), Fv::Text("x".repeat(n)));
        let ja = serde_json::Value::Array(vec![json!(0); n]);
        typed_probe(run, only, &format!("json_array_len{n}"), Ft::Json, ja.clone(), Fv::Json(ja));
        let jo = serde_json::Value::Object((0..n).map(|i| (format!("k{i}"), json!(i))).collect());
        typed_probe(run, only, &format!("json_object_entries{n}"), Ft::Json, jo.clone(), Fv::Json(jo));
    }
    // node count 16384 / 16385
    for last in [4090usize, 4091] {
        let inner = [4096usize, 4096, 4096, last, 0];
        let total: usize = 1 + inner.len() + inner.iter().sum::<usize>();
        let vv: Vec<Vec<u64>> = inner.iter().map(|n| vec![1u64; *n]).collect();
        typed_probe(
            run,
            only,
            &format!("vec_vec_u64_nodes{total}"),
            g::arr1(g::arr1(Ft::U64)),
            vv.clone(),
            Fv::Array(vv.iter().map(|v| Fv::Array(v.iter().map(|x| Fv::U64(*x)).collect())).collect()),
        );
    }
    // nesting towers in serde_json::Value (and inside typed containers)
    for k in values::TOWER_HEIGHTS {
        for (kind, j) in [
            ("json_obj", values::nest_json_obj(k)),
            ("json_arr", values::nest_json(k)),
            ("json_mixed", values::nest_json_mixed(k, true)),
        ] {
            typed_probe(run, only, &format!("{kind}_nest{k}"), Ft::Json, j.clone(), Fv::Json(j.clone()));
            typed_probe(run, only, &format!("opt_{kind}_nest{k}"), g::opt(Ft::Json), Some(j.clone()), Fv::Json(j.clone()));
            typed_probe(run, only, &format!("vec_{kind}_nest{k}"), g::arr1(Ft::Json), vec![j.clone()], Fv::Array(vec![Fv::Json(j.clone())]));
            typed_probe(
                run,
                only,
                &format!("btreemap_{kind}_nest{k}"),
                g::wild_text(Ft::Json),
                BTreeMap::from([("k".to_string(), j.clone())]),
                Fv::Map(BTreeMap::from([(Fk::Text("k".into()), Fv::Json(j.clone()))])),
            );
        }
    }
    // scalar boundaries through the typed entry
    for (i, x) in [i64::MIN, -1, 0, i64::MAX].into_iter().enumerate() {
        typed_probe(run, only, &format!("i64_boundary{i}"), Ft::I64, x, Fv::I64(x));
    }
    for (i, x) in [0u64, i64::MAX as u64, i64::MAX as u64 + 1, u64::MAX].into_iter().enumerate() {
        typed_probe(run, only, &format!("u64_boundary{i}"), Ft::U64, x, Fv::U64(x));
        // an unsigned value offered to a signed field: rejected above i64::MAX
        typed_probe(run, only, &format!("u64_into_i64_field{i}"), Ft::I64, x, Fv::U64(x));
    }
    for (i, x) in F32S.into_iter().enumerate() {
        typed_probe(run, only, &format!("f32_boundary{i}"), Ft::F32, x, Fv::F32(x));
    }
    for (i, x) in F64S.into_iter().enumerate() {
        typed_probe(run, only, &format!("f64_boundary{i}"), Ft::F64, x, Fv::F64(x));
        // a double offered to an F32 field: finite values beyond f32 range are rejected
        typed_probe(run, only, &format!("f64_into_f32_field{i}"), Ft::F32, x as f32 as f64, Fv::F64(x as f32 as f64));
    }
    typed_probe(run, only, "f64_out_of_f32_range_into_f32_field", Ft::F32, 1e39f64, Fv::F64(1e39));
    typed_probe(run, only, "negative_into_u64_field", Ft::U64, -1i64, Fv::I64(-1));
    typed_probe(run, only, "string_into_u64_field", Ft::U64, "5".to_string(), Fv::Text("5".into()));
    typed_probe(run, only, "none_into_required_field", Ft::Text, None::<String>, Fv::Null);
    typed_probe(run, only, "tuple_arity_3_into_2", g::tuple(Ft::I64, Ft::Text), (1i64, "x".to_string(), 2u8), Fv::Array(vec![Fv::I64(1), Fv::Text("x".into()), Fv::U64(2)]));
    typed_probe(run, only, "tuple_arity_2", g::tuple(Ft::I64, Ft::Text), (1i64, "x".to_string()), Fv::Array(vec![Fv::I64(1), Fv::Text("x".into())]));
}

fn main() {
    let mut run = Run::from_args("C13", "derive", "exploration");
    let mut only: Option<String> = None;
    let mut only_offer: Option<String> = None;
    let mut only_probe: Option<String> = None;
    if let Some(file) = run.replay_file.clone() {
        let v: serde_json::Value = serde_json::from_slice(&std::fs::read(&file).expect("read replay")).expect("json");
        only = v["replay"]["struct"].as_str().map(|s| s.to_string());
        only_offer = v["replay"]["offer"].as_str().map(|s| s.to_string());
        only_probe = v["replay"]["probe"].as_str().map(|s| s.to_string());
        if let Some(r) = v["replay"]["row"].as_u64() {
            run.args.push("--row".into());
            run.args.push(r.to_string());
        }
    }
    let replaying = only.is_some() || only_offer.is_some() || only_probe.is_some();
    let want = |n: &str| if replaying { only.as_deref() == Some(n) } else { true };

    if want("Ints") {
        check_struct(&mut run, "Ints", Ints::schema(), ints(), true);
    }
    if want("Scalars") {
        check_struct(&mut run, "Scalars", Scalars::schema(), scalars(), true);
    }
    if want("BytesFamily") {
        check_struct(&mut run, "BytesFamily", BytesFamily::schema(), bytes_family(), true);
    }
    if want("Vectors") {
        check_struct(&mut run, "Vectors", Vectors::schema(), vectors(), true);
    }
    if want("Collections") {
        check_struct(&mut run, "Collections", Collections::schema(), collections(), false);
    }
    if want("Maps") {
        check_struct(&mut run, "Maps", Maps::schema(), maps(), false);
    }
    if want("Jsons") {
        check_struct(&mut run, "Jsons", Jsons::schema(), jsons(), true);
    }
    if want("Nested") {
        check_struct(&mut run, "Nested", Nested::schema(), nested(), true);
    }
    if want("Pointers") {
        check_struct(&mut run, "Pointers", Pointers::schema(), pointers(), true);
    }
    if want("Attrs") {
        check_struct(&mut run, "Attrs", Attrs::schema(), attrs(), true);
    }
    if want("WithResource") {
        check_struct(&mut run, "WithResource", WithResource::schema(), with_resource(), true);
    }
    if !replaying || only_offer.is_some() {
        if only_offer.is_some() {
            // a single offer cannot be isolated cheaply; the matrix is 26 cases
        }
        check_offers(&mut run);
    }

    if !replaying || only_probe.is_some() {
        typed_probes(&mut run, only_probe.as_deref());
    }

    run.rule(
        "11 structs deriving AndaDBSchema (+ 3 nested FieldTyped structs + the built-in Resource) using every Rust field type the derive macros infer: u8..u64/usize, i8..i64/isize, f32, f64, bool, String, Cow<str>, Vec<u8>, [u8;N], serde_bytes ByteBuf/ByteArray, ByteBufB64/ByteArrayB64, Vec<bf16>, [bf16;N], Vector, Vec/BTreeSet/HashSet/[T;N] of T, BTreeMap/HashMap/serde_json::Map with String / signed-integer / bytes keys, Option (incl. nested in containers), Box, serde_json::Value / Json, nested structs (incl. serde rename / rename_all), and the attributes field_type (6 DSL forms), unique, serde rename / rename_all / skip / default + skip_serializing_if; every row of each struct's boundary table (all rows, no sampling) is round-tripped T -> Document -> CBOR -> DocumentOwned -> Document -> T, once built with Document::try_from and once field by field with Document::set_field_as (every field of every row); plus typed field probes: plain Rust values (Vec<String>/Vec<u64>/Vec<i64>/Option<Vec<String>>/BTreeMap<String,u64>/BTreeMap<i64,String>/ByteBuf/Vec<u8>/Vec<bf16>/String/serde_json::Value/Vec<Vec<u64>>/tuples/scalars) of length 0,1,4095,4096,4097,5000, node count 16384/16385, serde_json nesting towers (objects, arrays, mixed; bare, in Option, Vec, BTreeMap) of height 63,64,65,66,70,100,128,130,140 and scalar boundaries, written with Document::set_field_as, read back from CBOR and fetched with Document::get_field_as::<T> (over budget / wrong type => must be rejected at write; accepted => must read back equal); plus 26 typed offers to another struct's schema with one defect each (wrong type, out of range, null, missing / extra field or nested key) that must be rejected; distinct = (struct, row) and offers",
    );
    run.assume("a struct's own value being rejected by the schema its derive generated is reported as a violation (the typed round trip would otherwise be vacuous)");
    run.assume("not covered: Arc/Rc fields (serde `rc` feature is off), #[cbor(key = N)] nested keys (cbor2 derive feature is off), borrowed &str / slices (serialise-only); Some(None) / Some(Json null) inside Option are skipped because serde itself cannot tell them from None");
    run.finish();
}

//! C13 part `roundtrip` — what validation accepts, storage returns unchanged;
//! nothing invalid gets in.
//!
//! SCOPE: every FieldType of the grammar to a nesting depth, for each type
//! every generated valid value and every single mutation of it, through the
//! write entry points (`Document::set_field`, `Document::try_from`,
//! `Document::set_field_as`) and the
//! read-back path (CBOR bytes -> `DocumentOwned` -> `Document::try_from_doc`),
//! compared with the reference model in `vschema::model`.

use anda_db_schema::FieldType;
use serde_json::json;
use std::collections::BTreeMap;
use std::time::{Duration, Instant};
use vcore::{Run, util};
use vschema::exec::{Case, Entry, Tally, run_case, run_undeclared_key, schema_for, skeleton};
use vschema::grammar::{self, Ft};
use vschema::values::{self, Fk, Fv};
use vschema::{codec, model};

struct Probe {
    name: String,
    /// shape class for the signature
    family: &'static str,
    ft: Ft,
    value: Fv,
}

fn probe(name: &str, ft: Ft, value: Fv) -> Probe {
    // a Vector sitting where the schema declares no type is one node when
    // written and an array of bit patterns when read back
    let family = if name.starts_with("untyped") && name.contains("vector") {
        "vector-in-untyped-slot"
    } else if name.contains("nest") {
        "depth"
    } else if name.contains("nodes") {
        "nodes"
    } else {
        "length"
    };
    Probe { name: name.to_string(), family, ft, value }
}

/// Complexity-budget probes: at the limit and one beyond, for every limit
/// `validate_complexity` enforces (depth 64, nodes 16384, array length 4096,
/// map / JSON-object entries 4096), in typed, untyped and Json positions and
/// at shifted depths; plus large single-node leaves (Vector / Bytes / Text).
fn budget_probes() -> Vec<Probe> {
    let mut out = Vec::new();
    let zeros = |n: usize| Fv::Array(vec![Fv::U64(1); n]);
    for n in [model::MAX_ARRAY_LEN, model::MAX_ARRAY_LEN + 1] {
        out.push(probe(&format!("arr1_u64_len{n}"), grammar::arr1(Ft::U64), zeros(n)));
        out.push(probe(&format!("untyped_len{n}"), Ft::Array(vec![]), zeros(n)));
        out.push(probe(
            &format!("wild_text_entries{n}"),
            grammar::wild_text(Ft::U64),
            Fv::Map((0..n).map(|i| (Fk::Text(format!("k{i}")), Fv::U64(i as u64))).collect()),
        ));
        out.push(probe(
            &format!("wild_bytes_entries{n}"),
            grammar::wild_bytes(Ft::Bool),
            Fv::Map((0..n).map(|i| (Fk::Bytes((i as u32).to_be_bytes().to_vec()), Fv::Bool(true))).collect()),
        ));
        out.push(probe(
            &format!("json_array_len{n}"),
            Ft::Json,
            Fv::Json(serde_json::Value::Array(vec![json!(0); n])),
        ));
        out.push(probe(
            &format!("json_object_entries{n}"),
            Ft::Json,
            Fv::Json(serde_json::Value::Object((0..n).map(|i| (format!("k{i}"), json!(i))).collect())),
        ));
        out.push(probe(
            &format!("untyped_holds_json_array_len{n}"),
            Ft::Array(vec![]),
            Fv::Array(vec![Fv::Json(serde_json::Value::Array(vec![json!(0); n]))]),
        ));
        out.push(probe(
            &format!("untyped_holds_vector_len{n}"),
            Ft::Array(vec![]),
            Fv::Array(vec![values::vector(&vec![0x3F80; n])]),
        ));
        out.push(probe(&format!("vector_len{n}"), Ft::Vector, values::vector(&vec![0x3F80; n])));
        out.push(probe(
            &format!("arr1_vector_len{n}"),
            grammar::arr1(Ft::Vector),
            Fv::Array(vec![values::vector(&vec![0x3F80; n])]),
        ));
        out.push(probe(
            &format!("opt_vector_len{n}"),
            grammar::opt(Ft::Vector),
            values::vector(&vec![0x3F80; n]),
        ));
        out.push(probe(&format!("untyped_holds_bytes_len{n}"), Ft::Array(vec![]), Fv::Array(vec![Fv::Bytes(vec![7; n])])));
        out.push(probe(&format!("text_len{n}"), Ft::Text, Fv::Text("x".repeat(n))));
    }
    // node count: 1 + 5 + sum(inner) = 16384 / 16385
    for last in [4090usize, 4091] {
        let inner = [4096usize, 4096, 4096, last, 0];
        let total: usize = 1 + inner.len() + inner.iter().sum::<usize>();
        out.push(probe(
            &format!("arr_arr_u64_nodes{total}"),
            grammar::arr1(grammar::arr1(Ft::U64)),
            Fv::Array(inner.iter().map(|n| zeros(*n)).collect()),
        ));
        // Json: holder + payload root + 5 + sum
        let inner_j = [4096usize, 4096, 4096, last - 1, 0];
        let total_j: usize = 2 + inner_j.len() + inner_j.iter().sum::<usize>();
        out.push(probe(
            &format!("json_nodes{total_j}"),
            Ft::Json,
            Fv::Json(serde_json::Value::Array(
                inner_j.iter().map(|n| serde_json::Value::Array(vec![json!(0); *n])).collect(),
            )),
        ));
    }
    // vector read back as an array: nodes
    out.push(probe(
        "untyped_holds_4_vectors_4095",
        Ft::Array(vec![]),
        Fv::Array(vec![values::vector(&vec![1; 4095]); 4]),
    ));
    out.push(probe(
        "untyped_holds_5_vectors_4095",
        Ft::Array(vec![]),
        Fv::Array(vec![values::vector(&vec![1; 4095]); 5]),
    ));
    // towers of JSON objects, mixed JSON containers, FieldValue maps and mixed
    // FieldValue containers (arrays alone are below)
    for k in values::TOWER_HEIGHTS {
        let jo = || Fv::Json(values::nest_json_obj(k));
        out.push(probe(&format!("json_obj_nest{k}"), Ft::Json, jo()));
        out.push(probe(&format!("json_mixed_obj_outer_nest{k}"), Ft::Json, Fv::Json(values::nest_json_mixed(k, true))));
        out.push(probe(&format!("json_mixed_arr_outer_nest{k}"), Ft::Json, Fv::Json(values::nest_json_mixed(k, false))));
        out.push(probe(&format!("opt_json_obj_nest{k}"), grammar::opt(Ft::Json), jo()));
        out.push(probe(&format!("arr1_json_obj_nest{k}"), grammar::arr1(Ft::Json), Fv::Array(vec![jo()])));
        out.push(probe(
            &format!("wild_text_json_obj_nest{k}"),
            grammar::wild_text(Ft::Json),
            Fv::Map(BTreeMap::from([(Fk::Text("k".into()), jo())])),
        ));
        out.push(probe(
            &format!("keyed_json_obj_nest{k}"),
            grammar::keyed(Ft::Json, Ft::I64),
            Fv::Map(BTreeMap::from([(Fk::Text("a".into()), jo())])),
        ));
        out.push(probe(&format!("untyped_holds_json_obj_nest{k}"), Ft::Array(vec![]), Fv::Array(vec![jo()])));
        out.push(probe(&format!("untyped_holds_fv_map_nest{k}"), Ft::Array(vec![]), Fv::Array(vec![values::nest_fv_map(k)])));
        out.push(probe(&format!("untyped_holds_fv_mixed_nest{k}"), Ft::Array(vec![]), Fv::Array(vec![values::nest_fv_mixed(k)])));
        out.push(probe(
            &format!("wild_i64_untyped_holds_fv_mixed_nest{k}"),
            grammar::wild_i64(Ft::Array(vec![])),
            Fv::Map(BTreeMap::from([(Fk::I64(0), Fv::Array(vec![values::nest_fv_mixed(k)]))])),
        ));
        // a FieldValue map tower offered to a Json slot (unspecified: must round-trip if accepted)
        out.push(probe(&format!("json_slot_holds_fv_map_nest{k}"), Ft::Json, values::nest_fv_map(k)));
    }
    // depth, arrays only
    for k in (62..=67usize).chain([100, 128, 130, 140]) {
        out.push(probe(&format!("untyped_nest{k}"), Ft::Array(vec![]), values::nest_array(k)));
        out.push(probe(&format!("opt_untyped_nest{k}"), grammar::opt(Ft::Array(vec![])), values::nest_array(k)));
        out.push(probe(&format!("json_nest{k}"), Ft::Json, Fv::Json(values::nest_json(k))));
        out.push(probe(
            &format!("arr1_json_nest{k}"),
            grammar::arr1(Ft::Json),
            Fv::Array(vec![Fv::Json(values::nest_json(k))]),
        ));
        out.push(probe(
            &format!("wild_i64_untyped_nest{k}"),
            grammar::wild_i64(Ft::Array(vec![])),
            Fv::Map(BTreeMap::from([(Fk::I64(0), values::nest_array(k))])),
        ));
        out.push(probe(
            &format!("keyed_json_nest{k}"),
            grammar::keyed(Ft::Json, Ft::I64),
            Fv::Map(BTreeMap::from([(Fk::Text("a".into()), Fv::Json(values::nest_json(k)))])),
        ));
        // innermost element is a Vector: one container level deeper when read back as an array
        let mut v = Fv::Array(vec![values::vector(&[0x3F80])]);
        for _ in 1..k {
            v = Fv::Array(vec![v]);
        }
        out.push(probe(&format!("untyped_nest{k}_holds_vector"), Ft::Array(vec![]), v));
        // innermost element is a Json array
        let mut v = Fv::Array(vec![Fv::Json(json!([1]))]);
        for _ in 1..k {
            v = Fv::Array(vec![v]);
        }
        out.push(probe(&format!("untyped_nest{k}_holds_json_array"), Ft::Array(vec![]), v));
    }
    out
}

struct Work {
    ft: Ft,
}

struct Done {
    tally: Tally,
    types_done: u64,
    types_skipped: u64,
    values: u64,
    mutations: u64,
}

/// `mutate_all`: mutate every valid value; otherwise only three of them
/// (the second, the middle and the last one — the last value of every
/// container is the fully populated one, so every position of the type still
/// meets every alien).
fn explore_type(ft: &Ft, aliens: &[Fv], mutate_all: bool, t: &mut Tally, values_n: &mut u64, mutations_n: &mut u64) {
    let schema = schema_for(ft);
    let vals = values::valid_values(ft);
    let n = vals.len();
    let chosen = [1.min(n - 1), n / 2, n - 1];
    for (vi, v) in vals.iter().enumerate() {
        *values_n += 1;
        t.distinct.push(util::fnv64(format!("{ft:?}|{v:?}").as_bytes()));
        for entry in [Entry::Set, Entry::TryFrom, Entry::SetAs] {
            let case = Case {
                ft,
                schema: &schema,
                value: v,
                desc: &|| format!("valid#{vi}"),
                mutation_kind: &|| "valid".to_string(),
                mutated: false,
                recipe: None,
            };
            run_case(&case, entry, t);
        }
        // a typed value one top-level key ahead of the schema (first and last valid value)
        if vi == 0 || vi == n - 1 {
            for extra in [Fv::U64(0), Fv::Text("x".into())] {
                for first in [false, true] {
                    run_undeclared_key(ft, &schema, v, &extra, first, t);
                }
            }
        }
        if !mutate_all && !chosen.contains(&vi) {
            continue;
        }
        for m in values::mutations(v, aliens) {
            *mutations_n += 1;
            for entry in [Entry::Set, Entry::TryFrom, Entry::SetAs] {
                let case = Case {
                    ft,
                    schema: &schema,
                    value: &m.value,
                    desc: &|| format!("valid#{vi} {}", m.desc()),
                    mutation_kind: &|| m.kind(),
                    mutated: true,
                    recipe: None,
                };
                run_case(&case, entry, t);
            }
        }
    }
}

fn run_level(run: &mut Run, name: &str, types: Vec<Ft>, mutate_all: bool, deadline: Instant) -> bool {
    let n_types = types.len() as u64;
    let threads = util::n_threads();
    // small chunks, interleaved, so that the deadline cuts evenly
    let n_chunks = (threads * 8).max(1);
    let mut chunks: Vec<Vec<Work>> = (0..n_chunks).map(|_| Vec::new()).collect();
    for (i, ft) in types.into_iter().enumerate() {
        chunks[i % n_chunks].push(Work { ft });
    }
    let aliens = values::aliens();
    let done = util::par_map(chunks, threads, |chunk| {
        let mut d = Done { tally: Tally::default(), types_done: 0, types_skipped: 0, values: 0, mutations: 0 };
        for w in &chunk {
            if Instant::now() > deadline {
                d.types_skipped += 1;
                continue;
            }
            explore_type(&w.ft, &aliens, mutate_all, &mut d.tally, &mut d.values, &mut d.mutations);
            d.types_done += 1;
        }
        d
    });
    let mut skipped = 0;
    let mut vr_samples = Vec::new();
    for mut d in done {
        run.add(&format!("types_{name}"), d.types_done);
        run.add("types", d.types_done);
        run.add("valid_values", d.values);
        run.add("mutated_values", d.mutations);
        skipped += d.types_skipped;
        vr_samples.append(&mut d.tally.valid_rejected_samples);
        d.tally.merge_into(run);
    }
    for s in vr_samples.into_iter().take(2) {
        eprintln!("note: model-valid value rejected at write: {s}");
    }
    if skipped > 0 {
        run.cap_hit(&format!("time budget: {name} stopped with {skipped} of {n_types} types unexplored"));
        return false;
    }
    true
}

fn main() {
    let mut run = Run::from_args("C13", "roundtrip", "exploration");

    if let Some(file) = run.replay_file.clone() {
        let v: serde_json::Value = serde_json::from_slice(&std::fs::read(&file).expect("read replay")).expect("json");
        let r = &v["replay"];
        let ft: FieldType = serde_json::from_value(r["type"].clone()).expect("type");
        if let Some(pos) = r["undeclared_key"].as_str() {
            let value = codec::dec(&r["value"]).expect("value");
            let extra = codec::dec(&r["extra"]).expect("extra");
            let mut t = Tally::default();
            run_undeclared_key(&ft, &schema_for(&ft), &value, &extra, pos == "extra-key-first", &mut t);
            t.merge_into(&mut run);
            run.finish();
        }
        let value = if let Some(name) = r["value"]["recipe"]["probe"].as_str() {
            budget_probes().into_iter().find(|p| p.name == name).expect("probe").value
        } else {
            codec::dec(&r["value"]).expect("value")
        };
        let entry = Entry::from_name(r["entry"].as_str().unwrap_or("set_field"));
        let schema = schema_for(&ft);
        let mut t = Tally::default();
        let desc = r["how"].as_str().unwrap_or("replay").to_string();
        let kind = v["signature"].as_str().and_then(|s| s.rsplit('|').next()).unwrap_or("replay").to_string();
        let case = Case {
            ft: &ft,
            schema: &schema,
            value: &value,
            desc: &|| desc.clone(),
            mutation_kind: &|| kind.clone(),
            mutated: false,
            recipe: None,
        };
        run_case(&case, entry, &mut t);
        t.merge_into(&mut run);
        run.finish();
    }

    let thorough = run.tier == vcore::Tier::Thorough;
    let max_depth = 4;
    let lv = grammar::levels(thorough);
    // leave room for the budget probes and the evidence write-out
    let deadline = Instant::now() + Duration::from_secs_f64((run.remaining_s() - run.tier.pick(4.0, 30.0)).max(1.0));

    // budget probes first: they are few and must never be cut by the deadline
    // (their results are merged last so that small cases are reported first)
    let probe_tally;
    {
        let mut t = Tally::default();
        let probes = budget_probes();
        run.add("budget_probes", probes.len() as u64);
        for p in &probes {
            let schema = schema_for(&p.ft);
            let desc = format!("budget:{}", p.name);
            for entry in [Entry::Set, Entry::TryFrom, Entry::SetAs] {
                let case = Case {
                    ft: &p.ft,
                    schema: &schema,
                    value: &p.value,
                    desc: &|| desc.clone(),
                    mutation_kind: &|| format!("budget:{}", p.family),
                    mutated: false,
                    recipe: Some(json!({"probe": p.name})),
                };
                run_case(&case, entry, &mut t);
            }
            t.distinct.push(util::fnv64(desc.as_bytes()));
        }
        probe_tally = t;
    }

    let mut completed = 0;
    let levels: Vec<(&str, Vec<Ft>)> = vec![
        ("depth1", lv.l1.clone()),
        ("depth2", lv.l2.clone()),
        ("depth3", lv.l3.clone()),
        ("depth4", lv.l4.clone()),
    ];
    for (i, (name, types)) in levels.into_iter().enumerate() {
        if types.is_empty() {
            continue;
        }
        if Instant::now() > deadline {
            run.cap_hit(&format!("time budget: {name} not started"));
            break;
        }
        // quick: below depth 3 every value is mutated, from depth 3 on three values per type
        let mutate_all = thorough || i < 2;
        if !run_level(&mut run, name, types, mutate_all, deadline) {
            break;
        }
        completed = i + 1;
    }
    probe_tally.merge_into(&mut run);
    run.set("depth_completed", json!(completed));
    run.set("depth_target", json!(max_depth));

    run.sample(json!({
        "type": "Map({\"a\": I64, \"b\": Option(Vector)})",
        "skeleton": skeleton(&grammar::keyed(Ft::I64, Ft::Vector)),
        "valid_values": values::valid_values(&grammar::keyed(Ft::I64, Ft::Vector)).iter().map(|v| format!("{v:?}")).collect::<Vec<_>>(),
        "single_mutations_of_second_value": values::mutations(&values::valid_values(&grammar::keyed(Ft::I64, Ft::Vector))[1], &values::aliens()).len(),
    }));
    let grammar_txt = "FieldType grammar {Bool,I64,U64,F64,F32,Bytes,Text,Json,Vector; Option(T); Array([]); Array([T]); Array([T,U]); wildcard Map with Text/I64/Bytes key; keyed Map {a:T} and {a:T,b:Option(U)}; the open Map({})}";
    let reps = "{I64,F32,Vector,Json,Bytes; Option(I64), Array([F32]), Array([I64,Vector]), Map{i64*:Json}, {a:F32,b:Option(I64)}}";
    let (n1, n2, n3, n4) = (lv.l1.len(), lv.l2.len(), lv.l3.len(), lv.l4.len());
    run.rule(&if thorough {
        format!("{grammar_txt}: depth 1 and 2 complete ({n1} + {n2} types); depth 3 ({n3} types) = the 6 unary constructors over all depth-2 types + tuple / 2-key map over ALL pairs of depth<=2 types touching depth 2; depth 4 ({n4} types) = unary constructors over the narrow depth-3 set (unary over all depth-2 types + binary over representative pairs) + binary constructors over pairs of the 15 representative types ({reps} and the same five constructors one level up) touching depth 3")
    } else {
        format!("{grammar_txt}: depth 1 and 2 complete ({n1} + {n2} types); depth 3 ({n3} types) = the 6 unary constructors over all depth-2 types + tuple / 2-key map over pairs of the 10 representative types {reps} touching depth 2; depth 4 ({n4} types) = unary constructors over the depth-3 types built from representative children + binary constructors over pairs of the 15 representative types (those 10 + the five constructors one level up) touching depth 3")
    });
    run.rule(
        "per type: valid values cover every leaf boundary value (i64::MIN,-1,0,i64::MAX; 0,i64::MAX,i64::MAX+1,u64::MAX; +-0.0, subnormal, f32::MAX, 2.71, extremes, infinities; 11 bf16 edge bit patterns incl. NaN patterns; empty/non-empty containers; Null/absent for Option) at least once per container position; per valid value (quick, depth >= 3: for three values per type — second, middle and the fully populated last one; otherwise for every value) EVERY single mutation: each node swapped with each of 30 alien values (all variants, Null, zero as U64 / I64 / -0.0, out-of-range integers, NaN, non-read-back floats, read-back shapes), array drop-last/append, map remove-each-key/extra key of each key kind; each case through the three write entries Document::set_field, Document::try_from and Document::set_field_as (accepted = the entry returns a Document and it serialises to CBOR), accepted ones read back via DocumentOwned/try_from_doc and compared in the declared variant (bit-exact), the field the accepted document holds compared with the field read back (variant-exact in undeclared positions for try_from / set_field_as, where the library chose the variants), then try_into / get_field_as; per type, for the first and the last valid value, Document::try_from of a typed value carrying one undeclared non-null top-level key (before / after the declared ones): refused, or the stored document converts back to the value written; complexity-budget probes at limit / limit+1 (nodes 16384, array 4096, map 4096) and nesting towers of height 62..67, 70, 100, 128, 130, 140 (arrays, JSON objects, mixed JSON object/array, FieldValue maps, mixed FieldValue map/array) in typed, untyped, Json and shifted-depth positions; distinct = (type, valid value) pairs and budget probes",
    );
    run.assume("validity is judged by the documented contract: declared variant or a documented read-back shape (U64<=i64::MAX for I64, CBOR/JSON f32 read-backs for F32, u16 bit-pattern arrays for Vector); anything offered to a Json slot other than the Json variant, NaN inside an untyped array and budget verdicts that differ between raw and canonical form are 'unspecified' (accept or reject, but must round-trip if accepted)");
    run.assume("where the schema declares no variant (elements of Array([]), values of the open Map({}), non-Json contents of a Json slot) equality is equality of the documented schema-less form (I64>=0 = U64, F32 = F64 widening, Vector = array of bit patterns, Json = its shape) when the caller chose the variants (set_field), and variant-exact between the accepted document and the read-back when the library chose them (try_from, set_field_as); under Option, Json(null) and Null are the same value");
    run.assume("the stored form is cbor2 of the Document (what Storage::put writes); object-store / compression layers are covered by part `collection`");
    run.finish();
}

//! C13 part `untyped` — positions where the schema declares NO variant
//! (elements of `Array([])`, values of the open `Map({})`, anything below
//! them, the payload of `Json`, map keys) and the two shape-driven decoders
//! that decide the variant there: `FieldValue::try_from` at write time and
//! the `FieldValue` `Deserialize` visitor at read time.
//!
//! Three complete enumerations:
//!
//! A. position x scalar x write entry: every position context (a FieldType
//!    with an undeclared / Json / declared-contrast slot and the value that
//!    puts a scalar there) x every boundary scalar (integers around every
//!    CBOR width boundary and around the i64 / u64 limits in every variant
//!    that can hold them, floats around every CBOR float width, specials,
//!    non-numeric leaves) x every write entry (`Document::set_field`,
//!    `Document::try_from`, `Document::set_field_as`, `FieldType::extract`,
//!    `FieldEntry::coerce`, `FieldValue::serialized(_, Some(type))`), through
//!    the stored CBOR and `try_from_doc`, judged by `vschema::exec::run_case`
//!    (accepted => readable, equal to the model's declared form, and the field
//!    the accepted document HOLDS equals the field read back — variant-exact
//!    wherever the library chose the variants itself).
//!
//! B. CBOR item classes: hand-encoded items of every major type and
//!    additional-information class (shortest and longer-than-needed heads,
//!    reserved heads, indefinite lengths, tags, simple values, all float
//!    widths), bare and inside arrays / maps, given to both decoders.
//!    Law 1 (verdict, every item): what `FieldValue::try_from` accepts is
//!    stored and read back as exactly that value. Law 2 (verdict for items in
//!    the encoding the store itself writes; counted otherwise): both decoders
//!    give the same value for the same item, and what the write-time decoder
//!    accepts the read-time decoder does not refuse.
//!
//! C. schema-less entries: every scalar in every small value tree through
//!    `FieldValue::serialized(_, None)` and `FieldValue::try_from`: the result
//!    is the documented schema-less form of the input and survives the store
//!    variant-exact.

use anda_db_schema::{FieldType, FieldValue};
use cbor2::Value as Cbor;
use serde_json::json;
use std::collections::BTreeMap;
use std::panic::{AssertUnwindSafe, catch_unwind};
use vcore::{Run, Violation, util};
use vschema::exec::{ALL_ENTRIES, Case, Entry, Tally, run_case, schema_for};
use vschema::grammar::{self as g, Ft};
use vschema::values::{self, Fk, Fv};
use vschema::{codec, model};

// ---- scalars --------------------------------------------------------------------

/// Integer boundaries: 0, +-1, both sides of every CBOR head width (23|24,
/// 255|256, 65535|65536, u32::MAX|+1, for negative numbers the argument is
/// -1-n), the i64 and u64 limits.
fn int_boundaries() -> Vec<i128> {
    let mut v: Vec<i128> = vec![0, 1, 2, 23, 24, 255, 256, 65535, 65536];
    v.push(u32::MAX as i128);
    v.push(u32::MAX as i128 + 1);
    v.push(i64::MAX as i128 - 1);
    v.push(i64::MAX as i128);
    v.push(i64::MAX as i128 + 1);
    v.push(u64::MAX as i128 - 1);
    v.push(u64::MAX as i128);
    // negative: n = -1 - arg
    for arg in [0i128, 1, 23, 24, 255, 256, 65535, 65536, u32::MAX as i128, u32::MAX as i128 + 1, i64::MAX as i128 - 1, i64::MAX as i128] {
        v.push(-1 - arg);
    }
    v
}

/// f64 boundaries: zeros, the smallest subnormal of every width, values
/// exact in f16 / exact in f32 only / f64 only, the largest finite value of
/// every width and its f64 neighbour, integral floats at the integer limits,
/// infinities, NaN.
fn f64_boundaries() -> Vec<f64> {
    let f32max = f32::MAX as f64;
    vec![
        0.0,
        -0.0,
        f64::from_bits(1),                 // f64 smallest subnormal
        f32::from_bits(1) as f64,          // f32 smallest subnormal
        5.960464477539063e-8,              // 2^-24: f16 smallest subnormal
        6.103515625e-5,                    // 2^-14: f16 smallest normal
        f64::MIN_POSITIVE,
        f32::MIN_POSITIVE as f64,
        1.0,
        -1.0,
        1.5,
        65504.0,                           // f16 max
        65520.0,                           // rounds to inf in f16, exact in f32
        0.1f32 as f64,                     // exact in f32, not in f16
        0.1,                               // f64 only
        2.71,
        16777217.0,                        // 2^24 + 1: not exact in f32
        f32max,
        f64::from_bits(f32max.to_bits() + 1), // just above f32::MAX (finite in f64 only)
        -f32max,
        1e39,
        f64::MAX,
        f64::MIN,
        9007199254740992.0,                // 2^53
        9223372036854775808.0,             // 2^63 = i64::MAX + 1
        -9223372036854775808.0,            // i64::MIN
        18446744073709551616.0,            // 2^64 = u64::MAX + 1
        f64::INFINITY,
        f64::NEG_INFINITY,
        f64::NAN,
    ]
}

struct Scalar {
    name: String,
    v: Fv,
}

fn scalars() -> Vec<Scalar> {
    let mut out = Vec::new();
    for x in int_boundaries() {
        if x >= i64::MIN as i128 && x <= i64::MAX as i128 {
            out.push(Scalar { name: format!("I64({x})"), v: Fv::I64(x as i64) });
        }
        if x >= 0 {
            out.push(Scalar { name: format!("U64({x})"), v: Fv::U64(x as u64) });
        }
    }
    for f in f64_boundaries() {
        out.push(Scalar { name: format!("F64({f:?})"), v: Fv::F64(f) });
        let n = f as f32;
        if f.is_nan() || (n as f64).to_bits() == f.to_bits() {
            out.push(Scalar { name: format!("F32({n:?})"), v: Fv::F32(n) });
        }
    }
    for (name, v) in [
        ("Null", Fv::Null),
        ("false", Fv::Bool(false)),
        ("true", Fv::Bool(true)),
        ("Text()", Fv::Text(String::new())),
        ("Text(0)", Fv::Text("0".into())),
        ("Bytes()", Fv::Bytes(vec![])),
        ("Bytes(0)", Fv::Bytes(vec![0])),
        ("Array()", Fv::Array(vec![])),
        ("Map()", Fv::Map(BTreeMap::new())),
        ("Vector(zero)", values::vector(&[0])),
        ("Vector(edge)", values::vector(&[0x8000, 0x7F80, 0x7FC0, 0xFFFF])),
        ("Json(0)", Fv::Json(json!(0))),
        ("Json(-1)", Fv::Json(json!(-1))),
        ("Json(-0.0)", Fv::Json(json!(-0.0))),
        ("Json(1.0)", Fv::Json(json!(1.0))),
        ("Json(null)", Fv::Json(json!(null))),
        ("Json([0,-0.0,u64max])", Fv::Json(json!([0, -0.0, u64::MAX, i64::MIN, 0.1]))),
    ] {
        out.push(Scalar { name: name.to_string(), v });
    }
    out
}

/// JSON number (or other JSON leaf) for a scalar, if JSON can hold it.
fn as_json(v: &Fv) -> Option<serde_json::Value> {
    Some(match v {
        Fv::Null => json!(null),
        Fv::Bool(b) => json!(b),
        Fv::I64(i) => json!(i),
        Fv::U64(u) => json!(u),
        Fv::F64(f) if f.is_finite() => json!(f),
        Fv::F32(f) if f.is_finite() => json!(*f as f64),
        Fv::Text(t) => json!(t),
        Fv::Json(j) => j.clone(),
        _ => return None,
    })
}

fn as_key(v: &Fv) -> Option<Fk> {
    Some(match v {
        Fv::I64(i) => Fk::I64(*i),
        Fv::U64(u) if *u <= i64::MAX as u64 => Fk::I64(*u as i64),
        Fv::Text(t) => Fk::Text(t.clone()),
        Fv::Bytes(b) => Fk::Bytes(b.clone()),
        _ => return None,
    })
}

// ---- position contexts ----------------------------------------------------------

type Embed = Box<dyn Fn(&Fv) -> Option<Fv> + Sync + Send>;

struct Ctx {
    name: &'static str,
    ft: Ft,
    embed: Embed,
    /// also place every ordered pair of scalars side by side here
    pairs: bool,
}

/// `embed` was given the two-element array [a, b] as its "scalar": turn the
/// innermost single-slot holder of that array into a holder of a and b
/// ([[a, b]] -> [a, b]; {k: [a, b]} -> {k: a, k2: b}).
fn splice_pair(v: Fv) -> Fv {
    match v {
        Fv::Array(mut outer) if outer.len() == 1 && matches!(outer[0], Fv::Array(_)) => outer.pop().unwrap(),
        Fv::Map(m) if m.len() == 1 => {
            let (k, inner) = m.into_iter().next().unwrap();
            match inner {
                Fv::Array(mut ab) if ab.len() == 2 => {
                    let b = ab.pop().unwrap();
                    let a = ab.pop().unwrap();
                    Fv::Map(BTreeMap::from([(k, a), (Fk::I64(i64::MAX), b)]))
                }
                other => Fv::Map(BTreeMap::from([(k, other)])),
            }
        }
        other => other,
    }
}

fn arr(v: Vec<Fv>) -> Fv {
    Fv::Array(v)
}
fn map1(k: Fk, v: Fv) -> Fv {
    Fv::Map(BTreeMap::from([(k, v)]))
}
fn tk(s: &str) -> Fk {
    Fk::Text(s.into())
}

fn contexts() -> Vec<Ctx> {
    let untyped = || Ft::Array(vec![]);
    let open = g::open_map;
    let mut out: Vec<Ctx> = Vec::new();
    let mut add = |name: &'static str, ft: Ft, embed: Embed| {
        let pairs = matches!(name, "Arr[]/elem" | "Open{}/value");
        out.push(Ctx { name, ft, embed, pairs })
    };
    macro_rules! ctx {
        ($name:expr, $ft:expr, |$s:ident| $body:expr) => {
            add($name, $ft, Box::new(move |$s: &Fv| Some($body)))
        };
    }
    // -- elements of Array([]) and below
    ctx!("Arr[]/elem", untyped(), |s| arr(vec![s.clone()]));
    ctx!("Arr[]/elem-among-others", untyped(), |s| arr(vec![Fv::Text("x".into()), s.clone(), Fv::I64(-7)]));
    ctx!("Arr[]/arr/elem", untyped(), |s| arr(vec![arr(vec![s.clone()])]));
    ctx!("Arr[]/arr/arr/elem", untyped(), |s| arr(vec![arr(vec![arr(vec![s.clone()])]), s.clone()]));
    ctx!("Arr[]/map/value", untyped(), |s| arr(vec![map1(tk("k"), s.clone())]));
    ctx!("Arr[]/map-i64key/arr/elem", untyped(), |s| arr(vec![map1(Fk::I64(1), arr(vec![s.clone()]))]));
    ctx!("Arr[]/map-byteskey/map/value", untyped(), |s| arr(vec![map1(Fk::Bytes(vec![0]), map1(tk("k"), s.clone()))]));
    // -- values of the open Map({}) and below
    ctx!("Open{}/value", open(), |s| map1(tk("k"), s.clone()));
    ctx!("Open{}/value-i64key0", open(), |s| map1(Fk::I64(0), s.clone()));
    ctx!("Open{}/value-byteskey", open(), |s| map1(Fk::Bytes(vec![]), s.clone()));
    ctx!("Open{}/arr/elem", open(), |s| map1(tk("k"), arr(vec![s.clone()])));
    ctx!("Open{}/map/value", open(), |s| map1(tk("k"), map1(Fk::I64(-1), s.clone())));
    ctx!("Open{}/arr/map/arr/elem", open(), |s| map1(tk("k"), arr(vec![map1(tk("j"), arr(vec![s.clone()]))])));
    // -- undeclared slots below declared constructors (depth 2..4)
    ctx!("Opt(Arr[])/elem", g::opt(untyped()), |s| arr(vec![s.clone()]));
    ctx!("Opt(Open{})/value", g::opt(open()), |s| map1(tk("k"), s.clone()));
    ctx!("Arr[Arr[]]/elem", g::arr1(untyped()), |s| arr(vec![arr(vec![]), arr(vec![s.clone()])]));
    ctx!("Arr[Open{}]/value", g::arr1(open()), |s| arr(vec![map1(tk("k"), s.clone())]));
    ctx!("WildText(Arr[])/elem", g::wild_text(untyped()), |s| map1(tk("x"), arr(vec![s.clone()])));
    ctx!("WildI64(Open{})/value", g::wild_i64(open()), |s| map1(Fk::I64(0), map1(tk("k"), s.clone())));
    ctx!("WildBytes(Opt(Arr[]))/elem", g::wild_bytes(g::opt(untyped())), |s| map1(Fk::Bytes(vec![1]), arr(vec![s.clone()])));
    ctx!("Keyed{a:Arr[],b:Opt(Open{})}", g::keyed(untyped(), open()), |s| Fv::Map(BTreeMap::from([
        (tk("a"), arr(vec![s.clone()])),
        (tk("b"), map1(tk("k"), s.clone())),
    ])));
    ctx!("Tup[Arr[],Open{}]", g::tuple(untyped(), open()), |s| arr(vec![arr(vec![s.clone()]), map1(tk("k"), s.clone())]));
    ctx!("Tup[I64,Arr[]]/elem", g::tuple(Ft::I64, untyped()), |s| arr(vec![Fv::I64(-1), arr(vec![s.clone()])]));
    ctx!("Arr[WildText(Opt(Arr[]))]/elem", g::arr1(g::wild_text(g::opt(untyped()))), |s| arr(vec![map1(tk("x"), arr(vec![s.clone()]))]));
    ctx!("Keyed{a:Arr[Open{}],b:Opt(I64)}/value", g::keyed(g::arr1(open()), Ft::I64), |s| map1(tk("a"), arr(vec![map1(tk("k"), s.clone())])));
    // -- the undeclared slot itself: the scalar offered as the whole field
    ctx!("Opt(Arr[])/whole", g::opt(untyped()), |s| s.clone());
    ctx!("Opt(Open{})/whole", g::opt(open()), |s| s.clone());
    // -- Json payloads (a Json number is typed by its shape on the way back, too)
    add("Json/payload", Ft::Json, Box::new(|s| as_json(s).map(Fv::Json)));
    add("Json/payload/obj/arr", Ft::Json, Box::new(|s| as_json(s).map(|j| Fv::Json(json!({"k": [j, {"z": null}]})))));
    add("Opt(Json)/payload", g::opt(Ft::Json), Box::new(|s| as_json(s).map(Fv::Json)));
    add("Arr[Json]/payload", g::arr1(Ft::Json), Box::new(|s| as_json(s).map(|j| arr(vec![Fv::Json(j)]))));
    add("WildText(Json)/payload", g::wild_text(Ft::Json), Box::new(|s| as_json(s).map(|j| map1(tk("x"), Fv::Json(json!([j]))))));
    add("Arr[]/Json-elem", Ft::Array(vec![]), Box::new(|s| as_json(s).map(|j| arr(vec![Fv::Json(json!([j]))]))));
    add("Open{}/Json-value", g::open_map(), Box::new(|s| as_json(s).map(|j| map1(tk("k"), Fv::Json(json!({"j": j}))))));
    // a Json slot offered something that is not the Json variant (unspecified: must round-trip if accepted)
    ctx!("Json/raw", Ft::Json, |s| s.clone());
    ctx!("Json/raw/arr", Ft::Json, |s| arr(vec![s.clone()]));
    ctx!("Json/raw/map", Ft::Json, |s| map1(tk("k"), s.clone()));
    // -- map keys (typed by shape as well: FieldKey::try_from at write, KeyVisitor at read)
    add("Open{}/key", g::open_map(), Box::new(|s| as_key(s).map(|k| map1(k, Fv::U64(1)))));
    add("Arr[]/map/key", Ft::Array(vec![]), Box::new(|s| as_key(s).map(|k| arr(vec![map1(k, Fv::U64(1))]))));
    add("WildI64(U64)/key", g::wild_i64(Ft::U64), Box::new(|s| as_key(s).map(|k| map1(k, Fv::U64(1)))));
    add("WildText(U64)/key", g::wild_text(Ft::U64), Box::new(|s| as_key(s).map(|k| map1(k, Fv::U64(1)))));
    add("WildBytes(U64)/key", g::wild_bytes(Ft::U64), Box::new(|s| as_key(s).map(|k| map1(k, Fv::U64(1)))));
    // -- declared slots, as the contrast (and for the boundary values themselves)
    for (name, ft) in [
        ("I64", Ft::I64),
        ("U64", Ft::U64),
        ("F64", Ft::F64),
        ("F32", Ft::F32),
        ("Bool", Ft::Bool),
        ("Text", Ft::Text),
        ("Bytes", Ft::Bytes),
        ("Vector", Ft::Vector),
        ("Opt(I64)", g::opt(Ft::I64)),
        ("Opt(U64)", g::opt(Ft::U64)),
        ("Opt(F32)", g::opt(Ft::F32)),
        ("Opt(F64)", g::opt(Ft::F64)),
    ] {
        add(name, ft, Box::new(|s| Some(s.clone())));
    }
    for (name, ft) in [
        ("Arr[I64]", g::arr1(Ft::I64)),
        ("Arr[U64]", g::arr1(Ft::U64)),
        ("Arr[F64]", g::arr1(Ft::F64)),
        ("Arr[F32]", g::arr1(Ft::F32)),
        ("Arr[Opt(I64)]", g::arr1(g::opt(Ft::I64))),
        // an array of integers offered to Bytes / Vector slots (0..=255 resp. 0..=65535 only)
        ("Bytes<-arr", Ft::Bytes),
        ("Vector<-arr", Ft::Vector),
    ] {
        add(name, ft, Box::new(|s| Some(arr(vec![s.clone()]))));
    }
    ctx!("Arr[Vector]<-arr", g::arr1(Ft::Vector), |s| arr(vec![arr(vec![s.clone()])]));
    ctx!("WildText(I64)/value", g::wild_text(Ft::I64), |s| map1(tk("x"), s.clone()));
    ctx!("Keyed{a:U64,b:Opt(F32)}", g::keyed(Ft::U64, Ft::F32), |s| Fv::Map(BTreeMap::from([(tk("a"), s.clone()), (tk("b"), s.clone())])));
    ctx!("Tup[I64,F64]", g::tuple(Ft::I64, Ft::F64), |s| arr(vec![s.clone(), s.clone()]));
    out
}

// ---- section A ------------------------------------------------------------------

fn section_a(run: &mut Run) {
    let ctxs = contexts();
    let scs = scalars();
    run.add("positions", ctxs.len() as u64);
    run.add("scalars", scs.len() as u64);
    let n_ctx = ctxs.len();
    let idx: Vec<usize> = (0..n_ctx).collect();
    let tallies = util::par_map(idx, util::n_threads(), |ci| {
        let c = &ctxs[ci];
        let schema = schema_for(&c.ft);
        let mut t = Tally::default();
        let mut cases = 0u64;
        let mut vals: Vec<(String, Fv)> = Vec::new();
        for s in &scs {
            if let Some(v) = (c.embed)(&s.v) {
                vals.push((s.name.clone(), v));
            }
        }
        // sequence positions: every ordered pair of scalars side by side
        if c.pairs {
            for a in &scs {
                for b in &scs {
                    if let Some(v) = (c.embed)(&Fv::Array(vec![a.v.clone(), b.v.clone()])) {
                        // the embedding wraps ONE value; splice the pair in its place
                        vals.push((format!("{}+{}", a.name, b.name), splice_pair(v)));
                    }
                }
            }
        }
        for (sname, v) in &vals {
            cases += 1;
            t.distinct.push(util::fnv64(format!("{}|{sname}", c.name).as_bytes()));
            for entry in ALL_ENTRIES {
                let case = Case {
                    ft: &c.ft,
                    schema: &schema,
                    value: v,
                    desc: &|| format!("position {} scalar {sname}", c.name),
                    mutation_kind: &|| format!("pos:{}|{}", c.name, sname.split('+').map(scalar_class).collect::<Vec<_>>().join("+")),
                    mutated: false,
                    recipe: None,
                };
                run_case(&case, entry, &mut t);
            }
        }
        (t, cases)
    });
    for (t, cases) in tallies {
        run.add("position_scalar_cases", cases);
        t.merge_into(run);
    }
}

/// variant name of a scalar label ("I64(0)" -> "I64"): signatures carry the
/// position and the variant, not the number
fn scalar_class(name: &str) -> String {
    name.split('(').next().unwrap_or(name).to_string()
}

// ---- section B: CBOR items ------------------------------------------------------

fn head(major: u8, arg: u64, width: u8) -> Vec<u8> {
    let m = major << 5;
    match width {
        0 => vec![m | arg as u8],
        1 => vec![m | 24, arg as u8],
        2 => {
            let mut v = vec![m | 25];
            v.extend((arg as u16).to_be_bytes());
            v
        }
        4 => {
            let mut v = vec![m | 26];
            v.extend((arg as u32).to_be_bytes());
            v
        }
        _ => {
            let mut v = vec![m | 27];
            v.extend(arg.to_be_bytes());
            v
        }
    }
}

fn min_width(arg: u64) -> u8 {
    if arg < 24 {
        0
    } else if arg <= 0xff {
        1
    } else if arg <= 0xffff {
        2
    } else if arg <= 0xffff_ffff {
        4
    } else {
        8
    }
}

#[derive(Clone)]
struct Item {
    /// written-out description
    name: String,
    /// shape class: major type / additional-information class
    class: String,
    bytes: Vec<u8>,
    /// true when this is the encoding the store itself writes for the value
    /// (shortest head, definite length, shortest float, no tag)
    stored_form: bool,
}

fn item(name: String, class: &str, bytes: Vec<u8>, stored_form: bool) -> Item {
    Item { name, class: class.to_string(), bytes, stored_form }
}

fn ai_class(width: u8) -> &'static str {
    match width {
        0 => "ai0-23",
        1 => "ai24",
        2 => "ai25",
        4 => "ai26",
        _ => "ai27",
    }
}

fn f16_bits(f: f64) -> Option<u16> {
    let h = half::f16::from_f64(f);
    if f.is_nan() {
        return Some(0x7e00);
    }
    (h.to_f64().to_bits() == f.to_bits()).then(|| h.to_bits())
}

fn leaf_items() -> Vec<Item> {
    let mut out = Vec::new();
    let args: Vec<u64> = vec![
        0,
        1,
        23,
        24,
        255,
        256,
        65535,
        65536,
        u32::MAX as u64,
        u32::MAX as u64 + 1,
        i64::MAX as u64 - 1,
        i64::MAX as u64,
        i64::MAX as u64 + 1,
        u64::MAX,
    ];
    // major 0 / 1: every boundary argument in every head width that can hold it
    for major in [0u8, 1] {
        for &a in &args {
            let mw = min_width(a);
            for w in [0u8, 1, 2, 4, 8] {
                if w < mw || (w == 0 && a >= 24) {
                    continue;
                }
                let shown: i128 = if major == 0 { a as i128 } else { -1 - a as i128 };
                let class = format!("maj{major}/{}{}", ai_class(w), if w == mw { "" } else { "/longer-than-needed" });
                out.push(item(format!("int {shown} in a {w}-byte head"), &class, head(major, a, w), w == mw));
            }
        }
    }
    // reserved / invalid additional information 28..31 for every major type
    for major in 0u8..8 {
        for ai in 28u8..32 {
            if ai == 31 && matches!(major, 2 | 3 | 4 | 5) {
                continue; // indefinite length: below
            }
            out.push(item(format!("major {major} additional information {ai} alone"), &format!("maj{major}/ai{ai}"), vec![(major << 5) | ai], false));
        }
    }
    // major 2 / 3: strings of boundary lengths, definite and chunked
    for (major, fill) in [(2u8, 0u8), (3, b'a')] {
        for len in [0usize, 1, 23, 24, 255, 256] {
            let mut b = head(major, len as u64, min_width(len as u64));
            b.extend(vec![fill; len]);
            out.push(item(format!("major {major} string of length {len}"), &format!("maj{major}/{}", ai_class(min_width(len as u64))), b, true));
        }
        let mut b = head(major, 1, 1);
        b.push(fill);
        out.push(item(format!("major {major} string of length 1, 1-byte length head"), &format!("maj{major}/ai24/longer-than-needed"), b, false));
        for chunks in [0usize, 1, 2] {
            let mut b = vec![(major << 5) | 31];
            for _ in 0..chunks {
                b.extend(head(major, 1, 0));
                b.push(fill);
            }
            b.push(0xff);
            out.push(item(format!("major {major} indefinite-length string of {chunks} chunks"), &format!("maj{major}/ai31-indefinite"), b, false));
        }
    }
    out.push(item("text string with invalid UTF-8".into(), "maj3/invalid-utf8", vec![0x62, 0xc3, 0x28], false));
    // major 7: simple values
    for v in 0u8..20 {
        if matches!(v, 0 | 19) {
            out.push(item(format!("simple({v})"), "maj7/ai0-19-unassigned-simple", vec![0xe0 | v], false));
        }
    }
    out.push(item("false".into(), "maj7/ai20-false", vec![0xf4], true));
    out.push(item("true".into(), "maj7/ai21-true", vec![0xf5], true));
    out.push(item("null".into(), "maj7/ai22-null", vec![0xf6], true));
    out.push(item("undefined".into(), "maj7/ai23-undefined", vec![0xf7], false));
    out.push(item("simple(16) in two bytes (invalid)".into(), "maj7/ai24-below-32", vec![0xf8, 16], false));
    out.push(item("simple(32)".into(), "maj7/ai24-simple", vec![0xf8, 32], false));
    out.push(item("simple(255)".into(), "maj7/ai24-simple", vec![0xf8, 255], false));
    // floats: every boundary value in every width that holds it exactly
    for f in f64_boundaries() {
        let h = f16_bits(f);
        let s = if f.is_nan() { Some(0x7fc0_0000u32) } else { ((f as f32) as f64).to_bits().eq(&f.to_bits()).then(|| (f as f32).to_bits()) };
        let shortest = if h.is_some() {
            2
        } else if s.is_some() {
            4
        } else {
            8
        };
        if let Some(h) = h {
            let mut b = vec![0xf9];
            b.extend(h.to_be_bytes());
            out.push(item(format!("float {f:?} as f16"), "maj7/ai25-f16", b, !f.is_nan()));
        }
        if let Some(s) = s {
            let mut b = vec![0xfa];
            b.extend(s.to_be_bytes());
            let st = shortest == 4;
            out.push(item(format!("float {f:?} as f32"), if st { "maj7/ai26-f32" } else { "maj7/ai26-f32/longer-than-needed" }, b, st && !f.is_nan()));
        }
        let mut b = vec![0xfb];
        b.extend(f.to_bits().to_be_bytes());
        let st = shortest == 8;
        out.push(item(format!("float {f:?} as f64"), if st { "maj7/ai27-f64" } else { "maj7/ai27-f64/longer-than-needed" }, b, st && !f.is_nan()));
    }
    // NaN payloads
    out.push(item("f16 signalling NaN".into(), "maj7/ai25-f16", vec![0xf9, 0x7c, 0x01], false));
    out.push(item("f32 NaN with payload".into(), "maj7/ai26-f32", vec![0xfa, 0xff, 0x80, 0x00, 0x01], false));
    out.push(item("f64 NaN with payload".into(), "maj7/ai27-f64", vec![0xfb, 0x7f, 0xf0, 0, 0, 0, 0, 0, 1], false));
    out
}

/// composite items built around every leaf: arrays, maps (the leaf as value
/// and, separately, as key), tags; definite and indefinite.
fn all_items() -> Vec<Item> {
    let leaves = leaf_items();
    let mut out = leaves.clone();
    let wrap = |out: &mut Vec<Item>, l: &Item, how: &str, pre: Vec<u8>, post: Vec<u8>, keeps_stored: bool| {
        let mut b = pre;
        b.extend(&l.bytes);
        b.extend(post);
        out.push(Item {
            name: format!("{how} {}", l.name),
            class: format!("{how}>{}", l.class),
            bytes: b,
            stored_form: l.stored_form && keeps_stored,
        });
    };
    for l in &leaves {
        wrap(&mut out, l, "array[1]", vec![0x81], vec![], true);
        wrap(&mut out, l, "array[3]", vec![0x83, 0x20], vec![0x61, b'x'], true);
        wrap(&mut out, l, "array[array[1]]", vec![0x81, 0x81], vec![], true);
        wrap(&mut out, l, "array[*]", vec![0x9f], vec![0xff], false);
        wrap(&mut out, l, "map{text:_}", vec![0xa1, 0x61, b'k'], vec![], true);
        wrap(&mut out, l, "map{0:_}", vec![0xa1, 0x00], vec![], true);
        wrap(&mut out, l, "map{-1:_}", vec![0xa1, 0x20], vec![], true);
        wrap(&mut out, l, "map{bytes:_}", vec![0xa1, 0x41, 0x00], vec![], true);
        wrap(&mut out, l, "map{text:array[1]}", vec![0xa1, 0x61, b'k', 0x81], vec![], true);
        wrap(&mut out, l, "array[map{text:_}]", vec![0x81, 0xa1, 0x61, b'k'], vec![], true);
        wrap(&mut out, l, "map{*}", vec![0xbf, 0x61, b'k'], vec![0xff], false);
        // the leaf as a map KEY
        wrap(&mut out, l, "map{_:1}", vec![0xa1], vec![0x01], true);
        wrap(&mut out, l, "array[map{_:1}]", vec![0x81, 0xa1], vec![0x01], true);
        // the same key twice
        {
            let mut b = vec![0xa2];
            b.extend(&l.bytes);
            b.push(0x01);
            b.extend(&l.bytes);
            b.push(0x02);
            out.push(Item { name: format!("map with key twice: {}", l.name), class: format!("map{{_:1,_:2}}>{}", l.class), bytes: b, stored_form: false });
        }
        // tags around the leaf
        for (tag, tname) in [(0u64, "tag0"), (1, "tag1"), (2, "tag2"), (3, "tag3"), (4, "tag4"), (24, "tag24"), (32, "tag32"), (258, "tag258"), (55799, "tag55799"), (1000, "tag1000"), (u64::MAX, "tagmax")] {
            wrap(&mut out, l, tname, head(6, tag, min_width(tag)), vec![], false);
        }
        wrap(&mut out, l, "array[tag1000]", vec![0x81, 0xd9, 0x03, 0xe8], vec![], false);
        wrap(&mut out, l, "tag1000>tag1000", vec![0xd9, 0x03, 0xe8, 0xd9, 0x03, 0xe8], vec![], false);
    }
    // containers on their own
    for (name, class, bytes, st) in [
        ("empty array", "maj4/ai0-23", vec![0x80u8], true),
        ("empty map", "maj5/ai0-23", vec![0xa0], true),
        ("empty indefinite array", "maj4/ai31-indefinite", vec![0x9f, 0xff], false),
        ("empty indefinite map", "maj5/ai31-indefinite", vec![0xbf, 0xff], false),
        ("array of 24 zeros", "maj4/ai24", {
            let mut b = vec![0x98, 24];
            b.extend([0u8; 24]);
            b
        }, true),
        ("array of 256 zeros", "maj4/ai25", {
            let mut b = vec![0x99, 1, 0];
            b.extend([0u8; 256]);
            b
        }, true),
        ("array[1] with a 1-byte length head", "maj4/ai24/longer-than-needed", vec![0x98, 1, 0], false),
        ("map[1] with a 1-byte length head", "maj5/ai24/longer-than-needed", vec![0xb8, 1, 0, 0], false),
        ("map of 24 integer keys", "maj5/ai24", {
            let mut b = vec![0xb8, 24];
            for k in 0u8..24 {
                b.push(k);
                b.push(0);
            }
            b
        }, true),
        ("map with keys 0 and 0-in-two-bytes", "maj5/duplicate-key-different-encoding", vec![0xa2, 0x00, 0x01, 0x18, 0x00, 0x02], false),
        ("array shorter than its head says", "maj4/truncated", vec![0x82, 0x00], false),
        ("bignum tag2 of 8 bytes u64::MAX", "tag2>maj2", vec![0xc2, 0x48, 255, 255, 255, 255, 255, 255, 255, 255], false),
        ("bignum tag2 of 9 bytes 2^64", "tag2>maj2", vec![0xc2, 0x49, 1, 0, 0, 0, 0, 0, 0, 0, 0], false),
        ("bignum tag2 empty (0)", "tag2>maj2", vec![0xc2, 0x40], false),
        ("bignum tag3 empty (-1)", "tag3>maj2", vec![0xc3, 0x40], false),
        ("bignum tag3 of 8 bytes i64::MAX (i64::MIN)", "tag3>maj2", vec![0xc3, 0x48, 0x7f, 255, 255, 255, 255, 255, 255, 255], false),
        ("bignum tag3 of 8 bytes 2^63 (i64::MIN - 1)", "tag3>maj2", vec![0xc3, 0x48, 0x80, 0, 0, 0, 0, 0, 0, 0], false),
        ("map with an array [0] as key", "maj5/array-key", vec![0xa1, 0x81, 0x00, 0x01], false),
        ("map with an empty array as key", "maj5/array-key", vec![0xa1, 0x80, 0x01], false),
        ("map with an empty map as key", "maj5/map-key", vec![0xa1, 0xa0, 0x01], false),
        ("break alone", "maj7/ai31-break", vec![0xff], false),
        ("empty input", "empty", vec![], false),
    ] {
        out.push(item(name.to_string(), class, bytes, st));
    }
    out
}

fn hex(b: &[u8]) -> String {
    b.iter().map(|x| format!("{x:02x}")).collect()
}
fn unhex(s: &str) -> Vec<u8> {
    (0..s.len() / 2).filter_map(|i| u8::from_str_radix(&s[2 * i..2 * i + 2], 16).ok()).collect()
}

fn short(v: &Fv) -> String {
    let s = format!("{v:?}");
    if s.chars().count() > 200 { format!("{}..", s.chars().take(200).collect::<String>()) } else { s }
}

#[derive(Default)]
struct ItemTally {
    write_accepts: u64,
    write_refuses: u64,
    read_accepts: u64,
    read_refuses: u64,
    both_refuse: u64,
    non_stored_disagreements: u64,
    /// (kind of disagreement, encoding family) -> (count, first example)
    non_stored: BTreeMap<String, (u64, String)>,
    violations: Vec<Violation>,
}

/// Why an item is not in the store's own encoding (for grouping the
/// disagreements that are counted, not judged).
fn family(class: &str) -> &'static str {
    if class.contains("tag") {
        "tagged"
    } else if class.contains("indefinite") || class.contains("[*]") || class.contains("{*}") {
        "indefinite-length"
    } else if class.contains("longer-than-needed") {
        "longer-than-needed-head"
    } else if class.contains("undefined") {
        "undefined"
    } else if class.contains("simple") {
        "unassigned-simple"
    } else if class.contains("-key") || class.contains("{_:1") {
        "non-scalar-or-repeated-key"
    } else if class.contains("f16") || class.contains("f32") || class.contains("f64") {
        "nan"
    } else {
        "other"
    }
}

/// The two shape-driven decoders on one CBOR item.
fn check_item(it: &Item, t: &mut ItemTally) {
    let replay = json!({"cbor_hex": hex(&it.bytes), "item": it.name, "class": it.class, "stored_form": it.stored_form});
    let res = catch_unwind(AssertUnwindSafe(|| {
        // write time: the generic CBOR value a typed value serialises to, typed by shape
        let w: Result<Fv, String> = cbor2::from_reader::<Cbor, _>(&it.bytes[..])
            .map_err(|e| format!("not a CBOR value: {e}"))
            .and_then(|c| FieldValue::try_from(c).map_err(|e| e.to_string()));
        // read time: the visitor on the same bytes
        let r: Result<Fv, String> = cbor2::from_reader::<Fv, _>(&it.bytes[..]).map_err(|e| e.to_string());
        // law 1: what the write-time decoder accepted, stored, read
        let stored: Option<Result<(Vec<u8>, Result<Fv, String>), String>> = w.as_ref().ok().map(|w| {
            let mut bytes = Vec::new();
            cbor2::to_writer(w, &mut bytes).map_err(|e| e.to_string())?;
            let back = cbor2::from_reader::<Fv, _>(&bytes[..]).map_err(|e| e.to_string());
            Ok((bytes, back))
        });
        (w, r, stored)
    }));
    let (w, r, stored) = match res {
        Ok(x) => x,
        Err(_) => {
            t.violations.push(Violation {
                signature: format!("C13|cbor-item|panic|{}", it.class),
                summary: format!("decoding CBOR item {} ({}) panics", it.name, hex(&it.bytes)),
                replay,
            });
            return;
        }
    };
    match &w {
        Ok(_) => t.write_accepts += 1,
        Err(_) => t.write_refuses += 1,
    }
    match &r {
        Ok(_) => t.read_accepts += 1,
        Err(_) => t.read_refuses += 1,
    }
    // law 1
    if let (Ok(w), Some(stored)) = (&w, &stored) {
        match stored {
            Err(e) => t.violations.push(Violation {
                signature: format!("C13|cbor-item|accepted-unstorable|{}", it.class),
                summary: format!("item {} ({}): FieldValue::try_from gives {} which does not serialise: {e}", it.name, hex(&it.bytes), short(w)),
                replay: replay.clone(),
            }),
            Ok((bytes, Err(e))) => t.violations.push(Violation {
                signature: format!("C13|cbor-item|accepted-unreadable|{}", it.class),
                summary: format!(
                    "item {} ({}): FieldValue::try_from gives {}, stored as {}, which the read-back decoder refuses: {e}",
                    it.name,
                    hex(&it.bytes),
                    short(w),
                    hex(bytes)
                ),
                replay: replay.clone(),
            }),
            Ok((bytes, Ok(back))) => {
                if !model::bit_eq(w, back) {
                    t.violations.push(Violation {
                        signature: format!("C13|cbor-item|write-store-read-differs|{}|{}", it.class, model::first_untyped_diff(w, back)),
                        summary: format!(
                            "item {} ({}): FieldValue::try_from (write time) gives {}, stored as {}, read back as {}",
                            it.name,
                            hex(&it.bytes),
                            short(w),
                            hex(bytes),
                            short(back)
                        ),
                        replay: replay.clone(),
                    });
                }
            }
        }
    }
    // law 2
    let disagreement: Option<(String, String)> = match (&w, &r) {
        (Ok(a), Ok(b)) if model::bit_eq(a, b) => None,
        (Ok(a), Ok(b)) => Some((
            format!("decoders-differ|{}|{}", it.class, model::first_untyped_diff(a, b)),
            format!("write-time decoder gives {}, read-time decoder gives {}", short(a), short(b)),
        )),
        (Ok(a), Err(e)) => Some((
            format!("write-accepts-read-refuses|{}", it.class),
            format!("write-time decoder gives {}, read-time decoder refuses: {e}", short(a)),
        )),
        (Err(e), Ok(b)) => {
            // the read side accepting more than the write side breaks nothing the property states
            t.non_stored_disagreements += 1;
            let g = t.non_stored.entry(format!("read-accepts-more|{}", family(&it.class))).or_insert((0, String::new()));
            g.0 += 1;
            if g.0 == 1 {
                g.1 = format!("{} ({}): write-time decoder refuses ({e}), read-time decoder gives {}", it.name, hex(&it.bytes), short(b));
            }
            None
        }
        (Err(_), Err(_)) => {
            t.both_refuse += 1;
            None
        }
    };
    if let Some((sig, what)) = disagreement {
        if it.stored_form {
            t.violations.push(Violation {
                signature: format!("C13|cbor-item|{sig}"),
                summary: format!("item {} ({}), the encoding the store writes: {what}", it.name, hex(&it.bytes)),
                replay,
            });
        } else {
            t.non_stored_disagreements += 1;
            let kind = sig.split('|').next().unwrap_or("");
            let g = t.non_stored.entry(format!("{kind}|{}", family(&it.class))).or_insert((0, String::new()));
            g.0 += 1;
            if g.0 == 1 {
                g.1 = format!("{} ({}): {what}", it.name, hex(&it.bytes));
            }
        }
    }
}

fn section_b(run: &mut Run, only: Option<&[u8]>) {
    let items = all_items();
    let mut t = ItemTally::default();
    let mut classes = std::collections::BTreeSet::new();
    for it in &items {
        if only.is_some_and(|b| b != it.bytes) {
            continue;
        }
        run.add("evaluations", 1);
        run.add("cbor_items", 1);
        if it.stored_form {
            run.add("cbor_items_in_stored_encoding", 1);
        }
        classes.insert(it.class.clone());
        run.distinct(util::fnv64(it.class.as_bytes()));
        check_item(it, &mut t);
    }
    if let Some(b) = only
        && !items.iter().any(|it| it.bytes == b)
    {
        // replay of an item that is no longer generated: run it as a non-stored item
        check_item(&item("replayed item".into(), "replay", b.to_vec(), true), &mut t);
    }
    run.add("cbor_item_classes", classes.len() as u64);
    run.add("cbor_write_decoder_accepts", t.write_accepts);
    run.add("cbor_write_decoder_refuses", t.write_refuses);
    run.add("cbor_read_decoder_accepts", t.read_accepts);
    run.add("cbor_read_decoder_refuses", t.read_refuses);
    run.add("cbor_both_refuse", t.both_refuse);
    run.add("cbor_decoders_disagree_outside_stored_encoding", t.non_stored_disagreements);
    run.set(
        "cbor_disagreements_outside_stored_encoding",
        json!(t.non_stored.iter().map(|(k, (n, ex))| json!({"kind": k, "items": n, "first": ex})).collect::<Vec<_>>()),
    );
    for v in t.violations {
        run.violation(v);
    }
    run.sample(json!({
        "section": "B",
        "item": "map{0:_} int 0 in a 0-byte head",
        "bytes": "a10000",
        "write_time": "FieldValue::try_from(cbor2::Value) -> Map({I64 key 0: U64(0)})",
        "read_time": "cbor2::from_reader::<FieldValue> -> the same",
    }));
}

// ---- section C: schema-less entries ---------------------------------------------

fn trees(s: &Fv) -> Vec<(&'static str, Fv)> {
    let mut out = vec![
        ("bare", s.clone()),
        ("arr", arr(vec![s.clone()])),
        ("arr-among-others", arr(vec![Fv::Null, s.clone(), Fv::Text("x".into())])),
        ("arr/arr", arr(vec![arr(vec![s.clone()])])),
        ("map", map1(tk("k"), s.clone())),
        ("map-i64key", map1(Fk::I64(0), s.clone())),
        ("map/arr", map1(tk("k"), arr(vec![s.clone()]))),
        ("arr/map", arr(vec![map1(Fk::Bytes(vec![]), s.clone())])),
        ("arr/map/arr/map", arr(vec![map1(tk("k"), arr(vec![map1(Fk::I64(-1), s.clone())]))])),
    ];
    if let Some(k) = as_key(s) {
        out.push(("map-key", map1(k.clone(), Fv::U64(0))));
        out.push(("arr/map-key", arr(vec![map1(k, Fv::Null)])));
    }
    out
}

fn has_nan(v: &Fv) -> bool {
    match v {
        Fv::F64(f) => f.is_nan(),
        Fv::F32(f) => f.is_nan(),
        Fv::Array(a) => a.iter().any(has_nan),
        Fv::Map(m) => m.values().any(has_nan),
        _ => false,
    }
}

fn check_schemaless(via: &str, shape: &str, sname: &str, tree: &Fv, run: &mut Run) {
    run.add("evaluations", 1);
    run.add("schemaless_cases", 1);
    let replay = json!({"schemaless": via, "value": codec::enc(tree), "value_debug": short(tree)});
    let class = format!("{via}|{shape}|{}", scalar_class(sname));
    let res = catch_unwind(AssertUnwindSafe(|| {
        let w: Result<Fv, String> = match via {
            "serialized" => FieldValue::serialized(tree, None).map_err(|e| e.to_string()),
            _ => tree.clone().try_into_cbor().and_then(FieldValue::try_from).map_err(|e| e.to_string()),
        };
        let w = w?;
        let mut bytes = Vec::new();
        cbor2::to_writer(&w, &mut bytes).map_err(|e| format!("!unstorable: {e}"))?;
        let back = cbor2::from_reader::<Fv, _>(&bytes[..]).map_err(|e| format!("!unreadable: {e}"));
        Ok::<_, String>((w, bytes, back))
    }));
    let fail = |run: &mut Run, kind: &str, detail: String| {
        run.violation(Violation {
            signature: format!("C13|schemaless|{kind}|{class}"),
            summary: format!("FieldValue::{via} of {} ({sname} in {shape}): {detail}", short(tree)),
            replay: replay.clone(),
        });
    };
    match res {
        Err(_) => fail(run, "panic", "panics".into()),
        Ok(Err(e)) if e.starts_with('!') => fail(run, "accepted-unstorable", e),
        Ok(Err(e)) => {
            run.add("schemaless_refused", 1);
            // NaN is refused by contract; nothing else in this value set may be
            if !has_nan(tree) {
                fail(run, "valid-refused", format!("refused: {e}"));
            }
        }
        Ok(Ok((w, bytes, back))) => {
            run.add("schemaless_accepted", 1);
            // the documented schema-less form (crate docs: F32 -> F64,
            // non-negative I64 -> U64, Vector -> Array(U64), Json -> its shape)
            let want = model::canon(tree);
            if !model::bit_eq(&w, &want) {
                fail(
                    run,
                    &format!("not-the-documented-schema-less-form|{}", model::first_untyped_diff(&want, &w)),
                    format!("gives {} but the documented schema-less form is {}", short(&w), short(&want)),
                );
                return;
            }
            match back {
                Err(e) => fail(run, "accepted-unreadable", format!("gives {}, stored as {}, {e}", short(&w), hex(&bytes))),
                Ok(b) if !model::bit_eq(&w, &b) => fail(
                    run,
                    &format!("write-store-read-differs|{}", model::first_untyped_diff(&w, &b)),
                    format!("gives {}, stored as {}, read back as {}", short(&w), hex(&bytes), short(&b)),
                ),
                Ok(_) => {}
            }
        }
    }
}

fn section_c(run: &mut Run) {
    for s in scalars() {
        for (shape, tree) in trees(&s.v) {
            run.distinct(util::fnv64(format!("C|{shape}|{}", s.name).as_bytes()));
            for via in ["serialized", "try_from"] {
                check_schemaless(via, shape, &s.name, &tree, run);
            }
        }
    }
}


// ---- section D: typed Rust values in undeclared positions -----------------------

#[derive(serde::Serialize)]
struct UnitStruct;
#[derive(serde::Serialize)]
struct Newtype(i64);
#[derive(serde::Serialize)]
struct TupleStruct(u8, i8, f32);
#[derive(serde::Serialize)]
struct Plain {
    zero: u32,
    neg: i16,
    half: f32,
    none: Option<u8>,
}
#[derive(serde::Serialize)]
enum Choice {
    Unit,
    New(u64),
    Tup(i8, u8),
    Rec { zero: i32 },
}

/// the typed wrapper of `Document::try_from`
#[derive(serde::Serialize)]
struct DynT<'a, T: serde::Serialize> {
    _id: u64,
    v: &'a T,
}

/// One Rust value `x` of some serde-serialisable type: schema-less
/// (`FieldValue::serialized(&x, None)`), and as the only element of an
/// `Array([])` field / the only value of a `Map({})` field through
/// `set_field_as`, `Document::try_from` and `FieldValue::serialized(_, Some)`.
/// What the library produced at write time must be what is read back from the
/// stored form, variant-exact.
fn typed_value<T: serde::Serialize>(run: &mut Run, only: Option<&str>, name: &str, x: &T) {
    if only.is_some_and(|o| o != name) {
        return;
    }
    run.distinct(util::fnv64(format!("D|{name}").as_bytes()));
    let class = name.split('=').next().unwrap_or(name).to_string();
    let fail = |run: &mut Run, via: &str, kind: String, detail: String| {
        run.violation(Violation {
            signature: format!("C13|typed-in-untyped|{via}|{kind}|{class}"),
            summary: format!("Rust value {name} via {via}: {detail}"),
            replay: json!({"typed_value": name}),
        });
    };
    // schema-less
    run.add("evaluations", 1);
    run.add("typed_rust_value_cases", 1);
    let r = catch_unwind(AssertUnwindSafe(|| {
        let w = FieldValue::serialized(x, None).map_err(|e| format!("refused: {e}"))?;
        let mut bytes = Vec::new();
        cbor2::to_writer(&w, &mut bytes).map_err(|e| format!("!{}: does not serialise: {e}", short(&w)))?;
        let back = cbor2::from_reader::<Fv, _>(&bytes[..]).map_err(|e| format!("!{} stored as {} is refused on read: {e}", short(&w), hex(&bytes)))?;
        Ok::<_, String>((w, bytes, back))
    }));
    match r {
        Err(_) => fail(run, "serialized-none", "panic".into(), "panics".into()),
        Ok(Err(e)) if e.starts_with('!') => fail(run, "serialized-none", "accepted-unreadable".into(), e),
        Ok(Err(_)) => run.add("typed_rust_values_refused", 1),
        Ok(Ok((w, bytes, back))) => {
            if !model::bit_eq(&w, &back) {
                fail(
                    run,
                    "serialized-none",
                    format!("write-store-read-differs|{}", model::first_untyped_diff(&w, &back)),
                    format!("gives {}, stored as {}, read back as {}", short(&w), hex(&bytes), short(&back)),
                );
            }
        }
    }
    // inside an Array([]) field and inside a Map({}) field
    for (pos, ft) in [("Arr[]", Ft::Array(vec![])), ("Open{}", g::open_map())] {
        let schema = schema_for(&ft);
        for via in ["set_field_as", "try_from", "serialized-some"] {
            run.add("evaluations", 1);
            run.add("typed_rust_value_cases", 1);
            let r = catch_unwind(AssertUnwindSafe(|| {
                let one = [x];
                let keyed = BTreeMap::from([("k", x)]);
                let mut doc = anda_db_schema::Document::new(schema.clone());
                doc.set_id(1);
                let w = match (via, pos) {
                    ("set_field_as", "Arr[]") => doc.set_field_as("v", &one).map(|_| ()),
                    ("set_field_as", _) => doc.set_field_as("v", &keyed).map(|_| ()),
                    ("try_from", "Arr[]") => anda_db_schema::Document::try_from(schema.clone(), &DynT { _id: 1, v: &one }).map(|d| doc = d),
                    ("try_from", _) => anda_db_schema::Document::try_from(schema.clone(), &DynT { _id: 1, v: &keyed }).map(|d| doc = d),
                    (_, "Arr[]") => FieldValue::serialized(&one, Some(&ft)).and_then(|v| doc.set_field("v", v).map(|_| ())),
                    _ => FieldValue::serialized(&keyed, Some(&ft)).and_then(|v| doc.set_field("v", v).map(|_| ())),
                };
                w.map_err(|e| format!("refused: {e}"))?;
                let held = doc.get_field("v").cloned().ok_or_else(|| "!accepted document does not hold the field".to_string())?;
                let mut bytes = Vec::new();
                cbor2::to_writer(&doc, &mut bytes).map_err(|e| format!("!holds {} which does not serialise: {e}", short(&held)))?;
                let back = vschema::exec::read_back(&schema, &bytes).map_err(|e| format!("!holds {}, stored, refused on read: {e}", short(&held)))?;
                let got = back.get_field("v").cloned().ok_or_else(|| "!read-back document does not hold the field".to_string())?;
                Ok::<_, String>((held, got))
            }));
            let via_pos = format!("{via}|{pos}");
            match r {
                Err(_) => fail(run, &via_pos, "panic".into(), "panics".into()),
                Ok(Err(e)) if e.starts_with('!') => fail(run, &via_pos, "accepted-unreadable".into(), e),
                Ok(Err(_)) => run.add("typed_rust_values_refused", 1),
                Ok(Ok((held, got))) => {
                    if !model::bit_eq(&held, &got) {
                        fail(
                            run,
                            &via_pos,
                            format!("written-differs-from-read|{}", model::first_untyped_diff(&held, &got)),
                            format!("the accepted document holds {} but its stored form reads back as {}", short(&held), short(&got)),
                        );
                    }
                }
            }
        }
    }
}

fn section_d(run: &mut Run, only: Option<&str>) {
    macro_rules! t {
        ($name:expr, $x:expr) => {
            typed_value(run, only, $name, &$x)
        };
    }
    // every integer type at zero, at its own limits and one step inside
    t!("i8=0", 0i8);
    t!("i8=min", i8::MIN);
    t!("i8=max", i8::MAX);
    t!("i16=0", 0i16);
    t!("i16=min", i16::MIN);
    t!("i32=0", 0i32);
    t!("i32=min", i32::MIN);
    t!("i64=0", 0i64);
    t!("i64=1", 1i64);
    t!("i64=-1", -1i64);
    t!("i64=min", i64::MIN);
    t!("i64=max", i64::MAX);
    t!("i128=0", 0i128);
    t!("i128=-1", -1i128);
    t!("i128=i64min", i64::MIN as i128);
    t!("i128=i64min-1", i64::MIN as i128 - 1);
    t!("i128=-2^64", -(1i128 << 64));
    t!("i128=-2^64-1", -(1i128 << 64) - 1);
    t!("i128=min", i128::MIN);
    t!("i128=u64max", u64::MAX as i128);
    t!("i128=u64max+1", u64::MAX as i128 + 1);
    t!("isize=0", 0isize);
    t!("u8=0", 0u8);
    t!("u8=max", u8::MAX);
    t!("u16=0", 0u16);
    t!("u16=max", u16::MAX);
    t!("u32=0", 0u32);
    t!("u32=max", u32::MAX);
    t!("u64=0", 0u64);
    t!("u64=i64max", i64::MAX as u64);
    t!("u64=i64max+1", i64::MAX as u64 + 1);
    t!("u64=max", u64::MAX);
    t!("u128=0", 0u128);
    t!("u128=u64max", u64::MAX as u128);
    t!("u128=u64max+1", u64::MAX as u128 + 1);
    t!("u128=max", u128::MAX);
    t!("usize=0", 0usize);
    // floats
    t!("f32=0", 0.0f32);
    t!("f32=-0", -0.0f32);
    t!("f32=subnormal", f32::from_bits(1));
    t!("f32=0.1", 0.1f32);
    t!("f32=max", f32::MAX);
    t!("f32=inf", f32::INFINITY);
    t!("f32=-inf", f32::NEG_INFINITY);
    t!("f32=nan", f32::NAN);
    t!("f64=0", 0.0f64);
    t!("f64=-0", -0.0f64);
    t!("f64=subnormal", f64::from_bits(1));
    t!("f64=0.1", 0.1f64);
    t!("f64=1", 1.0f64);
    t!("f64=2^63", 9223372036854775808.0f64);
    t!("f64=max", f64::MAX);
    t!("f64=inf", f64::INFINITY);
    t!("f64=-inf", f64::NEG_INFINITY);
    t!("f64=nan", f64::NAN);
    t!("bf16=0", half::bf16::from_bits(0));
    t!("bf16=nan", half::bf16::from_bits(0x7FC0));
    // the rest of the serde data model
    t!("bool=false", false);
    t!("char=0", '0');
    t!("char=nul", '\0');
    t!("str=empty", "");
    t!("string=0", String::from("0"));
    t!("bytes=empty", serde_bytes::ByteBuf::from(Vec::<u8>::new()));
    t!("bytes=0", serde_bytes::ByteBuf::from(vec![0u8]));
    t!("vec_u8=0", vec![0u8]);
    t!("array_u8=0", [0u8; 4]);
    t!("option=none", None::<u8>);
    t!("option=some0", Some(0u8));
    t!("option=somesome0", Some(Some(0i64)));
    t!("unit=()", ());
    t!("unit_struct", UnitStruct);
    t!("newtype=0", Newtype(0));
    t!("tuple=(0,-1,0.0)", (0u8, -1i8, 0.0f64));
    t!("tuple_struct", TupleStruct(0, 0, 0.0));
    t!("vec=empty", Vec::<i64>::new());
    t!("vec_i64=0,-1,max", vec![0i64, -1, i64::MAX]);
    t!("vec_vec=0", vec![vec![0u64], vec![]]);
    t!("map_str=0", BTreeMap::from([("a", 0i64), ("b", -1)]));
    t!("map_i8key=0", BTreeMap::from([(0i8, 0u8), (-1, 1), (i8::MIN, 2)]));
    t!("map_u64key=0", BTreeMap::from([(0u64, 0u8), (i64::MAX as u64, 1)]));
    t!("map_u64key=above_i64", BTreeMap::from([(i64::MAX as u64 + 1, 0u8)]));
    t!("map_byteskey", BTreeMap::from([(serde_bytes::ByteBuf::from(vec![0u8]), 0u8)]));
    t!("map_boolkey", BTreeMap::from([(false, 0u8)]));
    t!("struct", Plain { zero: 0, neg: -1, half: 0.5, none: None });
    t!("enum=unit", Choice::Unit);
    t!("enum=newtype0", Choice::New(0));
    t!("enum=tuple", Choice::Tup(0, 0));
    t!("enum=struct", Choice::Rec { zero: 0 });
    t!("json=0", json!(0));
    t!("json=mixed", json!({"a": [0, -1, 0.0, -0.0, 1.5, null, u64::MAX, i64::MIN], "": {}}));
    t!("field_value=i64_0", Fv::I64(0));
    t!("field_value=f32_0", Fv::F32(0.0));
    t!("field_value=vector", values::vector(&[0, 0x8000]));
    t!("cbor_value=tagged0", Cbor::Tag(1000, Box::new(Cbor::Integer(0.into()))));
    t!("cbor_value=tagged_in_array", Cbor::Array(vec![Cbor::Tag(1, Box::new(Cbor::Float(0.0))), Cbor::Integer((-1).into())]));
}

// ---- main -----------------------------------------------------------------------

fn main() {
    let mut run = Run::from_args("C13", "untyped", "exploration");

    if let Some(file) = run.replay_file.clone() {
        let v: serde_json::Value = serde_json::from_slice(&std::fs::read(&file).expect("read replay")).expect("json");
        let r = &v["replay"];
        if let Some(h) = r["cbor_hex"].as_str() {
            section_b(&mut run, Some(&unhex(h)));
        } else if let Some(name) = r["typed_value"].as_str() {
            section_d(&mut run, Some(name));
        } else if let Some(via) = r["schemaless"].as_str() {
            let tree = codec::dec(&r["value"]).expect("value");
            let sig = v["signature"].as_str().unwrap_or("");
            let parts: Vec<&str> = sig.split('|').collect();
            let shape = parts.iter().rev().nth(1).copied().unwrap_or("replay").to_string();
            let sname = parts.last().copied().unwrap_or("replay").to_string();
            check_schemaless(via, &shape, &sname, &tree, &mut run);
        } else {
            let ft: FieldType = serde_json::from_value(r["type"].clone()).expect("type");
            let value = codec::dec(&r["value"]).expect("value");
            let entry = Entry::from_name(r["entry"].as_str().unwrap_or("set_field"));
            let schema = schema_for(&ft);
            let mut t = Tally::default();
            let desc = r["how"].as_str().unwrap_or("replay").to_string();
            // the mutation kind is the tail of the signature after the skeleton
            let sig = v["signature"].as_str().unwrap_or("").to_string();
            let kind = sig.find("|pos:").map(|i| sig[i + 1..].to_string()).unwrap_or_else(|| "replay".into());
            let case = Case {
                ft: &ft,
                schema: &schema,
                value: &value,
                desc: &|| desc.clone(),
                mutation_kind: &|| kind.clone(),
                mutated: false,
                recipe: None,
            };
            run_case(&case, entry, &mut t);
            t.merge_into(&mut run);
        }
        run.finish();
    }

    section_a(&mut run);
    section_b(&mut run, None);
    section_c(&mut run);
    section_d(&mut run, None);

    let sc = scalars();
    run.sample(json!({
        "section": "A",
        "position": "Keyed{a:Arr[],b:Opt(Open{})}",
        "type": format!("{:?}", g::keyed(Ft::Array(vec![]), g::open_map())),
        "scalar": "I64(0)",
        "value": "{a: [I64(0)], b: {k: I64(0)}}",
        "entries": ALL_ENTRIES.iter().map(|e| e.name()).collect::<Vec<_>>(),
        "expected": "set_field keeps I64(0) and reads U64(0) back (documented schema-less form); the five extracting entries hold U64(0) and must read U64(0) back",
    }));
    run.sample(json!({"section": "A", "scalars": sc.iter().map(|s| s.name.clone()).collect::<Vec<_>>()}));
    run.rule("A: position contexts (elements of Array([]) and values of the open Map({}) directly and 1-3 value levels below, with Text / I64 / Bytes keys on the way; the same undeclared slots below Option, Array([T]), tuple, wildcard and keyed maps up to type depth 4; the whole field of Option(Array([])) / Option(Map({})); Json payloads directly, nested, below Option / Array / wildcard map and as Json elements of undeclared slots; non-Json values offered to a Json slot; map KEYS of open, value-level and wildcard maps; declared I64/U64/F64/F32/Bool/Text/Bytes/Vector slots bare, optional and inside arrays / maps / tuples as the contrast) x scalars (integers 0, 1, 2, 23|24, 255|256, 65535|65536, u32::MAX|+1, i64::MAX-1|i64::MAX|+1, u64::MAX-1|u64::MAX and the negative numbers with the same CBOR arguments down to i64::MIN, each as I64 and as U64 where the variant can hold it; floats +-0.0, smallest subnormal and smallest normal of f16 / f32 / f64, values exact in f16, in f32 only and in f64 only, the largest finite f16 / f32 / f64 and the f64 just above f32::MAX, 2^53, 2^63, -2^63, 2^64, +-infinity, NaN, each as F64 and as F32 where exact; Null, Bool, empty and one-element Text / Bytes, empty Array / Map, two Vectors with edge bit patterns, Json numbers) x the six write entries set_field, try_from, set_field_as, FieldType::extract + set_field, FieldEntry::coerce + set_field, FieldValue::serialized(_, Some(type)) + set_field; distinct = (position, scalar)");
    run.rule("B: hand-encoded CBOR items: major 0 and 1 with every boundary argument in every head width that can hold it (shortest and longer than needed); additional information 28-31 of every major type; byte and text strings of length 0, 1, 23, 24, 255, 256, with a longer-than-needed head, chunked, invalid UTF-8; simple values (unassigned, false, true, null, undefined, two-byte forms); every float boundary in f16 / f32 / f64 wherever exact, NaN payloads; every such leaf again as array element (definite, among others, nested, indefinite), as map value under text / integer / bytes keys (definite, nested, indefinite), as map KEY, as a repeated key, and below 11 tags (0-4, 24, 32, 258, 55799, 1000, 2^64-1), a nested tag and a tag inside an array; containers with longer-than-needed or truncated heads, 24 / 256 entries, bignums around the u64 / i64 limits; each item through cbor2::Value + FieldValue::try_from (write time) and through the FieldValue Deserialize visitor (read time); distinct = item classes");
    run.rule("C: every scalar of A bare and in 8 value trees (arrays, maps with each key kind, nested to 4 levels) and as map key, through FieldValue::serialized(_, None) and through try_into_cbor + FieldValue::try_from: result = the documented schema-less form, stored, read back variant-exact");
    run.rule("D: Rust values of every serde data-model class (every integer type at 0, at its limits and just outside i64 / u64 for the 128-bit ones; f32 / f64 / bf16 at +-0, subnormal, inexact, max, +-infinity, NaN; bool, char, str, bytes, Vec<u8>, [u8; N], Option incl. nested, unit, unit / newtype / tuple / field structs, tuples, sequences, maps with text / signed / unsigned / bytes / bool keys, the four enum variant kinds, serde_json::Value, FieldValue, tagged cbor2::Value) through FieldValue::serialized(_, None), and as the only element of an Array([]) field / only value of a Map({}) field through set_field_as, Document::try_from and FieldValue::serialized(_, Some(type)) + set_field: accepted => the stored form reads back as exactly the value the accepted document holds");
    run.assume("a value the caller hands to set_field as a finished FieldValue keeps the caller's variants in undeclared positions and is compared after read-back in the documented schema-less form (crate docs: F32 -> F64, non-negative I64 -> U64, Vector -> Array(U64), Json -> its shape); for every other entry the library chooses the variants at write time and the comparison with the read-back is variant-exact");
    run.assume("B, law 2 is a verdict only for items in the encoding the store itself writes (cbor2 preferred serialisation: shortest heads and floats, definite lengths, no tags, no undefined / unassigned simple values); on other encodings of the same data model a disagreement between the two decoders is counted and listed in the evidence but breaks nothing C13 states, since such bytes are never a stored form");
    run.assume("the stored form is cbor2 of the Document / FieldValue (what Storage::put writes), read with cbor2::from_reader as Storage::get does");
    run.finish();
}

//! C13 part `upgrade` — documents written under an older schema version
//! remain readable, with unchanged surviving fields, after every permitted
//! schema upgrade.
//!
//! SCOPE: all chains of <= 3 (thorough: 4) upgrades (`Schema::upgrade_with`, the old schema
//! taken from its persisted CBOR form as `Collection::try_upgrade_schema`
//! does) over
//!  * `top`:    3 top-level field names, each absent / required T / Option(T)
//!              / Option(T') per version (64 configurations per version);
//!  * `nested`: one field holding a nested struct (keyed Map) whose two keys
//!              are each absent / required T / Option(T) / Option(T') per
//!              version (15 configurations per version), with the struct
//!              sitting directly in the field, in Option, in Array([T]), as
//!              the value of a Text / I64 wildcard map, map-in-map, array in
//!              a wildcard-map value, Option in an array (8 placements).
//! Whether an upgrade is permitted is the code's own answer; for every
//! permitted one, every document written (as stored bytes) under every earlier
//! version of the chain — and its rewritten form after each intermediate
//! read — must read back under the new schema with every surviving field /
//! key equal to what was written; read both with the schema object
//! `upgrade_with` produced (what a live collection keeps using) and with that
//! schema reloaded from its persisted CBOR form (what a reopened one loads).
//!
//! Mixed-version direction: for every permitted step that ADDS a top-level
//! field, every document written under the new version is offered to
//! `Document::try_from_doc` and `Document::set_doc` under the PREVIOUS version
//! (in-memory object and persisted form): a document carrying a value under
//! an index at or above the previous version's allocation watermark must be
//! refused (never silently stripped); one that does not may be read and then
//! shared fields read unchanged. Plus raw index probes at watermark-1 /
//! watermark / watermark+1 for every schema version of the enumeration.

use anda_db_schema::{Document, FieldEntry, FieldType, Schema};
use serde_json::json;
use std::collections::BTreeMap;
use std::panic::{AssertUnwindSafe, catch_unwind};
use std::sync::Arc;
use vcore::{Run, Violation, util};
use vschema::exec::read_back;
use vschema::grammar::{Ft, arr1, opt, wild_i64, wild_text};
use vschema::model;
use vschema::values::{Fk, Fv, vector};

#[derive(Clone, Copy, Debug, PartialEq, Eq, Hash, PartialOrd, Ord)]
enum St {
    Absent,
    Req,  // required T
    Opt,  // Option(T)
    OptB, // Option(T')
}
const STATES: [St; 4] = [St::Absent, St::Req, St::Opt, St::OptB];

impl St {
    fn tag(&self) -> &'static str {
        match self {
            St::Absent => "-",
            St::Req => "T",
            St::Opt => "T?",
            St::OptB => "U?",
        }
    }
}

/// Per slot (field name or nested key): the two alternative base types and a
/// value of each.
struct Slot {
    name: &'static str,
    t: Ft,
    tv: Fv,
    u: Ft,
    uv: Fv,
}

fn top_slots() -> Vec<Slot> {
    vec![
        Slot { name: "x", t: Ft::I64, tv: Fv::I64(5), u: Ft::Text, uv: Fv::Text("old".into()) },
        Slot { name: "y", t: Ft::Vector, tv: vector(&[0x3F80, 0x7FC0]), u: Ft::F32, uv: Fv::F32(2.71) },
        Slot {
            name: "z",
            t: wild_text(Ft::I64),
            tv: Fv::Map(BTreeMap::from([(Fk::Text("k".into()), Fv::I64(7))])),
            u: Ft::Bytes,
            uv: Fv::Bytes(vec![1, 2]),
        },
    ]
}

fn nested_slots() -> Vec<Slot> {
    vec![
        Slot { name: "a", t: Ft::I64, tv: Fv::I64(5), u: Ft::Text, uv: Fv::Text("old".into()) },
        Slot { name: "b", t: Ft::F32, tv: Fv::F32(2.71), u: Ft::U64, uv: Fv::U64(u64::MAX) },
    ]
}

fn slot_type(s: &Slot, st: St) -> Option<Ft> {
    match st {
        St::Absent => None,
        St::Req => Some(s.t.clone()),
        St::Opt => Some(opt(s.t.clone())),
        St::OptB => Some(opt(s.u.clone())),
    }
}

/// Values a slot can take in a document written under state `st`:
/// None = the key / field is left out.
fn slot_values(s: &Slot, st: St) -> Vec<Option<Fv>> {
    match st {
        St::Absent => vec![None],
        St::Req => vec![Some(s.tv.clone())],
        St::Opt => vec![None, Some(Fv::Null), Some(s.tv.clone())],
        St::OptB => vec![None, Some(Fv::Null), Some(s.uv.clone())],
    }
}

type Config = Vec<St>;

fn all_configs(n: usize, allow_all_absent: bool) -> Vec<Config> {
    let mut out: Vec<Config> = vec![vec![]];
    for _ in 0..n {
        let mut next = Vec::new();
        for c in &out {
            for s in STATES {
                let mut d = c.clone();
                d.push(s);
                next.push(d);
            }
        }
        out = next;
    }
    if !allow_all_absent {
        out.retain(|c| c.iter().any(|s| *s != St::Absent));
    }
    out
}

/// Where the upgraded nested struct sits inside the field's type.
#[derive(Clone, Copy, PartialEq, Debug)]
enum Wrap {
    Direct,
    Opt,
    Arr,
    WildText,
    WildI64,
    MapInMap,
    ArrInWild,
    OptInArr,
}
const WRAPS: [Wrap; 8] =
    [Wrap::Direct, Wrap::Opt, Wrap::Arr, Wrap::WildText, Wrap::WildI64, Wrap::MapInMap, Wrap::ArrInWild, Wrap::OptInArr];

impl Wrap {
    fn name(&self) -> &'static str {
        match self {
            Wrap::Direct => "direct",
            Wrap::Opt => "option",
            Wrap::Arr => "array",
            Wrap::WildText => "wildcard-text-map-value",
            Wrap::WildI64 => "wildcard-i64-map-value",
            Wrap::MapInMap => "map-in-map-value",
            Wrap::ArrInWild => "array-in-wildcard-map-value",
            Wrap::OptInArr => "option-in-array",
        }
    }
    fn ty(&self, s: Ft) -> Ft {
        match self {
            Wrap::Direct => s,
            Wrap::Opt => opt(s),
            Wrap::Arr => arr1(s),
            Wrap::WildText => wild_text(s),
            Wrap::WildI64 => wild_i64(s),
            Wrap::MapInMap => wild_text(wild_text(s)),
            Wrap::ArrInWild => wild_text(arr1(s)),
            Wrap::OptInArr => arr1(opt(s)),
        }
    }
    fn value(&self, v: Fv) -> Fv {
        let one = |k: Fk, v: Fv| Fv::Map(BTreeMap::from([(k, v)]));
        match self {
            Wrap::Direct | Wrap::Opt => v,
            Wrap::Arr | Wrap::OptInArr => Fv::Array(vec![v]),
            Wrap::WildText => one(Fk::Text("k".into()), v),
            Wrap::WildI64 => one(Fk::I64(-7), v),
            Wrap::MapInMap => one(Fk::Text("o".into()), one(Fk::Text("i".into()), v)),
            Wrap::ArrInWild => one(Fk::Text("k".into()), Fv::Array(vec![v])),
        }
    }
    fn unwrap<'a>(&self, v: &'a Fv) -> Option<&'a Fv> {
        let first = |v: &'a Fv| -> Option<&'a Fv> {
            match v {
                Fv::Array(a) if a.len() == 1 => a.first(),
                Fv::Map(m) if m.len() == 1 => m.values().next(),
                _ => None,
            }
        };
        match self {
            Wrap::Direct | Wrap::Opt => Some(v),
            Wrap::Arr | Wrap::OptInArr | Wrap::WildText | Wrap::WildI64 => first(v),
            Wrap::MapInMap | Wrap::ArrInWild => first(v).and_then(first),
        }
    }
}

#[derive(Clone, Copy, PartialEq)]
enum Scope {
    Top,
    Nested(Wrap),
}

impl Scope {
    /// signature class: the wrapper is not part of it (a defect of nested
    /// keys is the same defect wherever the struct sits)
    fn name(&self) -> &'static str {
        match self {
            Scope::Top => "top",
            Scope::Nested(_) => "nested",
        }
    }
    fn full(&self) -> String {
        match self {
            Scope::Top => "top".into(),
            Scope::Nested(w) => format!("nested/{}", w.name()),
        }
    }
}

const NESTED_FIELD: &str = "n";

fn build_schema(scope: Scope, slots: &[Slot], cfg: &Config, version: u64) -> Schema {
    let mut b = Schema::builder();
    b.with_version(version);
    match scope {
        Scope::Top => {
            for (s, st) in slots.iter().zip(cfg) {
                if let Some(t) = slot_type(s, *st) {
                    b.add_field(FieldEntry::new(s.name.to_string(), t).expect("entry")).expect("add");
                }
            }
        }
        Scope::Nested(w) => {
            let mut m = BTreeMap::new();
            for (s, st) in slots.iter().zip(cfg) {
                if let Some(t) = slot_type(s, *st) {
                    m.insert(Fk::Text(s.name.to_string()), t);
                }
            }
            b.add_field(FieldEntry::new(NESTED_FIELD.to_string(), w.ty(FieldType::Map(m))).expect("entry")).expect("add");
        }
    }
    b.build().expect("schema")
}

/// What `Collection` does: the old schema comes back from persisted metadata.
fn persisted(s: &Schema) -> Schema {
    let mut buf = Vec::new();
    cbor2::to_writer(s, &mut buf).expect("schema serialises");
    cbor2::from_reader(&buf[..]).expect("schema deserialises")
}

/// One stored document: its bytes as first written, its latest rewritten
/// bytes, and per slot (lineage, written value).
#[derive(Clone)]
struct Stored {
    stage: usize,
    orig: Vec<u8>,
    rewritten: Option<Vec<u8>>,
    /// slot index -> (lineage id of the slot when written, value written)
    expect: Vec<Option<(u32, Fv)>>,
}

fn write_docs(
    scope: Scope,
    slots: &[Slot],
    cfg: &Config,
    lineage: &[Option<u32>],
    schema: &Arc<Schema>,
    stage: usize,
    rejected: &mut u64,
) -> Vec<Stored> {
    // cross product of slot values
    let mut combos: Vec<Vec<Option<Fv>>> = vec![vec![]];
    for (s, st) in slots.iter().zip(cfg) {
        let vals = slot_values(s, *st);
        let mut next = Vec::new();
        for c in &combos {
            for v in &vals {
                let mut d = c.clone();
                d.push(v.clone());
                next.push(d);
            }
        }
        combos = next;
    }
    let mut out = Vec::new();
    for combo in combos {
        // a document the upgraded schema itself refuses is not stored (counted by the caller)
        let built = catch_unwind(AssertUnwindSafe(|| -> Option<Vec<u8>> {
            let mut doc = Document::new(schema.clone());
            doc.set_id(1);
            match scope {
                Scope::Top => {
                    for (s, v) in slots.iter().zip(&combo) {
                        if let Some(v) = v {
                            doc.set_field(s.name, v.clone()).ok()?;
                        }
                    }
                }
                Scope::Nested(w) => {
                    let m: BTreeMap<Fk, Fv> = slots
                        .iter()
                        .zip(&combo)
                        .filter_map(|(s, v)| v.clone().map(|v| (Fk::Text(s.name.to_string()), v)))
                        .collect();
                    doc.set_field(NESTED_FIELD, w.value(Fv::Map(m))).ok()?;
                }
            }
            schema.validate(doc.fields()).ok()?;
            let mut bytes = Vec::new();
            cbor2::to_writer(&doc, &mut bytes).ok()?;
            Some(bytes)
        }));
        let Ok(Some(bytes)) = built else {
            *rejected += 1;
            continue;
        };
        let expect = combo
            .iter()
            .enumerate()
            .map(|(i, v)| match (v, lineage[i]) {
                (Some(v), Some(l)) => Some((l, v.clone())),
                _ => None,
            })
            .collect();
        out.push(Stored { stage, orig: bytes, rewritten: None, expect });
    }
    out
}

struct Found {
    complexity: (usize, usize, usize),
    v: Violation,
}

#[derive(Default)]
struct Stats {
    upgrades_tried: u64,
    upgrades_permitted: u64,
    reads: u64,
    chains: Vec<u64>,
    docs_written: u64,
    failed_reads: u64,
    own_writes_rejected: u64,
    mixed_version_reads: u64,
    raw_index_probes: u64,
    cut: bool,
    found: Vec<Found>,
    sample: Option<serde_json::Value>,
}

fn cfg_str(slots: &[Slot], cfg: &Config) -> String {
    slots.iter().zip(cfg).map(|(s, st)| format!("{}:{}", s.name, st.tag())).collect::<Vec<_>>().join(" ")
}

/// Shape class of what happened to a slot between two stages of a chain.
fn slot_history_class(hist: &[St]) -> &'static str {
    let mut h: Vec<St> = Vec::new();
    for s in hist {
        if h.last() != Some(s) {
            h.push(*s);
        }
    }
    if h.len() == 1 {
        return "const";
    }
    let first = h[0];
    let last = *h.last().unwrap();
    let removed_mid = h[1..h.len() - 1].contains(&St::Absent);
    if first == St::Absent {
        return "added";
    }
    if last == St::Absent {
        return "removed";
    }
    if removed_mid {
        let same = matches!((first, last), (St::Req | St::Opt, St::Req | St::Opt) | (St::OptB, St::OptB));
        return if same { "removed-readded-same-type" } else { "removed-readded-other-type" };
    }
    "changed-in-place"
}

fn dominant_class(chain: &[Config], from: usize) -> &'static str {
    let n = chain[0].len();
    let order = ["removed-readded-other-type", "removed-readded-same-type", "changed-in-place", "removed", "added", "const"];
    let mut best = order.len() - 1;
    for i in 0..n {
        let hist: Vec<St> = chain[from..].iter().map(|c| c[i]).collect();
        let c = slot_history_class(&hist);
        let p = order.iter().position(|o| *o == c).unwrap();
        best = best.min(p);
    }
    order[best]
}

// ---- mixed-version direction and raw index probes ------------------------------------

/// Both ingest entries of stored bytes under `schema`: `Document::try_from_doc`
/// and `Document::set_doc` on a fresh document. Ok(fields) / Err(message);
/// a panic is reported as Err("PANIC ..").
fn ingest(schema: &Arc<Schema>, owned: &anda_db_schema::DocumentOwned) -> Vec<(&'static str, Result<anda_db_schema::IndexedFieldValues, String>)> {
    let a = catch_unwind(AssertUnwindSafe(|| {
        Document::try_from_doc(schema.clone(), owned.clone()).map(|d| d.fields().clone()).map_err(|e| e.to_string())
    }))
    .unwrap_or_else(|_| Err("PANIC in try_from_doc".to_string()));
    let b = catch_unwind(AssertUnwindSafe(|| {
        let mut d = Document::new(schema.clone());
        d.set_doc(owned.clone()).map(|_| d.fields().clone()).map_err(|e| e.to_string())
    }))
    .unwrap_or_else(|_| Err("PANIC in set_doc".to_string()));
    vec![("try_from_doc", a), ("set_doc", b)]
}

fn note(st: &mut Stats, scope: Scope, chain: &[Config], chain_str: &str, kind: &str, class: &str, detail: String, extra: serde_json::Value) {
    st.failed_reads += 1;
    if st.found.len() >= 400 {
        st.found.sort_by(|a, b| a.complexity.cmp(&b.complexity));
        st.found.truncate(100);
    }
    st.found.push(Found {
        complexity: (chain.len() * 10, 0, 0),
        v: Violation {
            signature: format!("C13|upgrade|{}|{kind}|{class}", scope.name()),
            summary: format!("{} chain {chain_str}: {detail}", scope.full()),
            replay: json!({
                "scope": scope.full(),
                "chain": chain.iter().map(|c| c.iter().map(|s| s.tag()).collect::<Vec<_>>()).collect::<Vec<_>>(),
                "chain_readable": chain_str,
                "mixed_version": extra,
            }),
        },
    });
}

/// Documents written under version N+1 meet a reader still on version N
/// (the in-memory schema object and its persisted form). What HEAD
/// guarantees (`Document::drop_retired_fields`): a document carrying a value
/// under an index the reader's lineage never allocated (>= its watermark) is
/// REFUSED, never silently stripped; otherwise it may be read, and then
/// every slot the two versions share reads unchanged. Only top-level fields
/// have indexes; nested keys carry no such guarantee and are not probed.
#[allow(clippy::too_many_arguments)]
fn newer_docs_under_older(
    scope: Scope,
    slots: &[Slot],
    chain: &[Config],
    chain_str: &str,
    prev_cfg: &Config,
    prev_lineage: &[Option<u32>],
    lineages_before: u32,
    readers: &[(&str, Arc<Schema>)],
    fresh: &[Stored],
    st: &mut Stats,
) {
    for d in fresh {
        let Ok(owned) = cbor2::from_reader::<anda_db_schema::DocumentOwned, _>(&d.orig[..]) else { continue };
        let carries_new = d.expect.iter().flatten().any(|(l, _)| *l > lineages_before);
        for (ri, (rname, reader)) in readers.iter().enumerate() {
            // the persisted form of the older schema matters for the refusal; shared-field
            // equality is checked with the in-memory object only
            if ri > 0 && !carries_new {
                continue;
            }
            for (api, res) in ingest(reader, &owned) {
                st.reads += 1;
                st.mixed_version_reads += 1;
                match res {
                    Err(e) if e.starts_with("PANIC") => {
                        note(st, scope, chain, chain_str, "panic", "mixed-version", e, json!({"api": api, "reader": rname}))
                    }
                    Err(_) => {}
                    Ok(fields) if carries_new => note(
                        st,
                        scope,
                        chain,
                        chain_str,
                        "foreign-index-accepted",
                        "newer-document-under-older-schema",
                        format!(
                            "a document written under the new version with {:?} was accepted by {api} under the previous version ({rname}) and read as {fields:?}: the value under the never-allocated index was silently dropped instead of the document being refused",
                            d.expect.iter().enumerate().filter_map(|(i, e)| e.as_ref().map(|(_, v)| format!("{}={v:?}", slots[i].name))).collect::<Vec<_>>()
                        ),
                        json!({"api": api, "reader": rname}),
                    ),
                    Ok(fields) => {
                        // shared slots must read unchanged
                        for (i, s) in slots.iter().enumerate() {
                            if let (Some((l, want)), Some(pl)) = (&d.expect[i], prev_lineage[i])
                                && *l == pl
                            {
                                let t = slot_type(s, prev_cfg[i]).expect("declared");
                                let got = reader.get_field(s.name).and_then(|f| fields.get(&f.idx()));
                                if !got.is_some_and(|g| model::same_declared(&t, want, g)) {
                                    note(
                                        st,
                                        scope,
                                        chain,
                                        chain_str,
                                        "surviving-field-changed",
                                        "newer-document-under-older-schema",
                                        format!("field {} written {want:?} under the new version reads {got:?} under the previous one ({api}, {rname})", s.name),
                                        json!({"api": api, "reader": rname}),
                                    );
                                }
                            }
                        }
                    }
                }
            }
        }
    }
}

/// Raw index probes: a valid stored document of this schema version gets one
/// extra value under index watermark-1, watermark, watermark+1 (watermark by
/// the harness's own count: 1 + number of fields ever declared in the
/// lineage). Never-allocated (>= watermark): must be refused. Retired
/// (< watermark, allocated once, not declared now): the stale value is
/// dropped and everything else reads unchanged. Declared indexes are skipped.
#[allow(clippy::too_many_arguments)]
fn raw_index_probes(
    scope: Scope,
    chain: &[Config],
    chain_str: &str,
    live: &[Option<u32>],
    lineages_so_far: u32,
    readers: &[(&str, Arc<Schema>)],
    base: Option<&Stored>,
    st: &mut Stats,
) {
    let Some(base) = base else { return };
    let Ok(owned) = cbor2::from_reader::<anda_db_schema::DocumentOwned, _>(&base.orig[..]) else { return };
    let (watermark, declared): (usize, Vec<usize>) = match scope {
        Scope::Top => (lineages_so_far as usize + 1, std::iter::once(0).chain(live.iter().flatten().map(|l| *l as usize)).collect()),
        Scope::Nested(_) => (2, vec![0, 1]),
    };
    for idx in [watermark - 1, watermark, watermark + 1] {
        if declared.contains(&idx) {
            continue;
        }
        let mut probe = owned.clone();
        probe.fields.insert(idx, Fv::Text("foreign".into()));
        for (rname, reader) in readers {
            let clean: Vec<_> = ingest(reader, &owned);
            for ((api, res), (_, base_res)) in ingest(reader, &probe).into_iter().zip(clean) {
                st.reads += 1;
                st.raw_index_probes += 1;
                let at = if idx >= watermark { format!("watermark+{}", idx - watermark) } else { "watermark-1".to_string() };
                let extra = json!({"api": api, "reader": rname, "raw_index": idx, "watermark": watermark});
                match (idx >= watermark, res) {
                    (_, Err(e)) if e.starts_with("PANIC") => note(st, scope, chain, chain_str, "panic", "raw-index", e, extra),
                    (true, Err(_)) => {}
                    (true, Ok(fields)) => note(
                        st,
                        scope,
                        chain,
                        chain_str,
                        "foreign-index-accepted",
                        &format!("raw-index-at-{at}"),
                        format!("a stored document with a value under index {idx} (allocation watermark {watermark}: never allocated) was accepted by {api} ({rname}) and read as {fields:?}"),
                        extra,
                    ),
                    (false, Err(e)) => note(
                        st,
                        scope,
                        chain,
                        chain_str,
                        "retired-index-refused",
                        "raw-index-at-watermark-1",
                        format!("a stored document with a stale value under the retired index {idx} (watermark {watermark}) is refused by {api} ({rname}): {e}"),
                        extra,
                    ),
                    (false, Ok(fields)) => {
                        let same = match &base_res {
                            Ok(b) => b.len() == fields.len() && b.iter().zip(&fields).all(|((i, x), (j, y))| i == j && model::bit_eq(x, y)),
                            Err(_) => false,
                        };
                        if !same {
                            note(
                                st,
                                scope,
                                chain,
                                chain_str,
                                "retired-index-kept",
                                "raw-index-at-watermark-1",
                                format!("with a stale value under the retired index {idx} the document reads {fields:?}, without it {base_res:?} ({api}, {rname})"),
                                extra,
                            );
                        }
                    }
                }
            }
        }
    }
}

#[allow(clippy::too_many_arguments)]
fn step(
    scope: Scope,
    slots: &[Slot],
    configs: &[Config],
    chain: &mut Vec<Config>,
    schema: &Schema,
    lineage: &[Option<u32>],
    next_lineage: u32,
    pool: &[Stored],
    max_len: usize,
    deadline: std::time::Instant,
    st: &mut Stats,
) {
    if chain.len() > max_len {
        return;
    }
    if std::time::Instant::now() > deadline {
        st.cut = true;
        return;
    }
    let version = chain.len() as u64 + 1;
    let old = persisted(schema);
    for cfg in configs {
        st.upgrades_tried += 1;
        let mut new = build_schema(scope, slots, cfg, version);
        let res = catch_unwind(AssertUnwindSafe(|| new.upgrade_with(&old)));
        chain.push(cfg.clone());
        let chain_str = chain.iter().map(|c| cfg_str(slots, c)).collect::<Vec<_>>().join(" -> ");
        match res {
            Err(_) => {
                st.found.push(Found {
                    complexity: (chain.len(), 0, 0),
                    v: Violation {
                        signature: format!("C13|upgrade|{}|panic|upgrade_with", scope.name()),
                        summary: format!("upgrade_with panicked on chain {chain_str}"),
                        replay: json!({"scope": scope.full(), "chain": chain.iter().map(|c| c.iter().map(|s| s.tag()).collect::<Vec<_>>()).collect::<Vec<_>>()}),
                    },
                });
                chain.pop();
                continue;
            }
            Ok(Err(_)) => {
                chain.pop();
                continue;
            }
            Ok(Ok(())) => {}
        }
        st.upgrades_permitted += 1;
        st.chains.push(util::fnv64(format!("{}|{chain_str}", scope.full()).as_bytes()));
        // model of survival: a slot keeps its lineage while it stays declared
        let prev_cfg = &chain[chain.len() - 2].clone();
        let mut nl = next_lineage;
        let new_lineage: Vec<Option<u32>> = (0..slots.len())
            .map(|i| match (prev_cfg[i], cfg[i]) {
                (_, St::Absent) => None,
                (St::Absent, _) => {
                    nl += 1;
                    Some(nl)
                }
                _ => lineage[i],
            })
            .collect();
        let new = Arc::new(new);
        let reloaded = Arc::new(persisted(&new));
        let mut new_pool: Vec<Stored> = Vec::with_capacity(pool.len() + 27);
        for d in pool {
            let mut d = d.clone();
            let mut latest: Option<Vec<u8>> = None;
            let forms: Vec<(&str, Vec<u8>)> = std::iter::once(("as first written", d.orig.clone()))
                .chain(d.rewritten.clone().map(|b| ("as rewritten after the previous upgrade", b)))
                .collect();
            // every stored form is read with the live schema object; the first-written
            // bytes also with the schema as a reopened collection would load it
            let reads: Vec<(&str, &str, &Vec<u8>)> = forms
                .iter()
                .map(|(f, b)| (*f, "the schema object upgrade_with produced", b))
                .chain(forms.first().map(|(f, b)| (*f, "that schema reloaded from its persisted form", b)))
                .collect();
            for (form, via, bytes) in reads {
                st.reads += 1;
                let reader = if via.starts_with("the schema object") { &new } else { &reloaded };
                let outcome = catch_unwind(AssertUnwindSafe(|| -> Result<Vec<u8>, (String, String)> {
                    let back = read_back(reader, bytes).map_err(|e| ("unreadable".to_string(), e))?;
                    let nested: Option<&BTreeMap<Fk, Fv>> = match scope {
                        Scope::Top => None,
                        Scope::Nested(w) => match back.get_field(NESTED_FIELD).and_then(|v| w.unwrap(v)) {
                            Some(Fv::Map(m)) => Some(m),
                            other => return Err(("surviving-field-changed".into(), format!("nested struct reads as {other:?}"))),
                        },
                    };
                    for (i, s) in slots.iter().enumerate() {
                        let got = match scope {
                            Scope::Top => back.get_field(s.name),
                            Scope::Nested(_) => nested.and_then(|m| m.get(&Fk::Text(s.name.to_string()))),
                        };
                        match (&d.expect[i], new_lineage[i]) {
                            (Some((l, want)), Some(cur)) if *l == cur => {
                                let t = slot_type(s, cfg[i]).expect("declared");
                                let same = got.is_some_and(|g| model::same_declared(&t, want, g));
                                if !same {
                                    return Err((
                                        "surviving-field-changed".into(),
                                        format!("{} {} was written {want:?}, reads {got:?}", if scope == Scope::Top { "field" } else { "nested key" }, s.name),
                                    ));
                                }
                            }
                            _ => {}
                        }
                    }
                    let mut out = Vec::new();
                    cbor2::to_writer(&back, &mut out).map_err(|e| ("rewrite-fails".to_string(), e.to_string()))?;
                    Ok(out)
                }));
                let fail = match outcome {
                    Ok(Ok(b)) => {
                        // the rewrite a live collection would do uses the in-memory schema
                        if latest.is_none() || via.starts_with("the schema object") {
                            latest = Some(b);
                        }
                        None
                    }
                    Ok(Err(f)) => Some(f),
                    Err(_) => Some(("panic".to_string(), "panicked".to_string())),
                };
                if let Some((kind, detail)) = fail {
                    // a broken tree fails millions of reads: keep the simplest ones of this job
                    st.failed_reads += 1;
                    if st.found.len() >= 400 {
                        st.found.sort_by(|a, b| a.complexity.cmp(&b.complexity));
                        st.found.truncate(100);
                    }
                    let class = dominant_class(chain, d.stage);
                    st.found.push(Found {
                        complexity: (
                            chain.len() * 10 - d.stage,
                            chain[d.stage..].windows(2).map(|w| w[0].iter().zip(&w[1]).filter(|(a, b)| a != b).count()).sum(),
                            d.expect.iter().flatten().count(),
                        ),
                        v: Violation {
                            signature: format!("C13|upgrade|{}|{kind}|{class}", scope.name()),
                            summary: format!(
                                "{} chain {chain_str}: document written under version {} ({form}), read with {via}, with {:?}: {detail}",
                                scope.full(),
                                d.stage + 1,
                                d.expect.iter().enumerate().filter_map(|(i, e)| e.as_ref().map(|(_, v)| format!("{}={v:?}", slots[i].name))).collect::<Vec<_>>()
                            ),
                            replay: json!({
                                "scope": scope.full(),
                                "chain": chain.iter().map(|c| c.iter().map(|s| s.tag()).collect::<Vec<_>>()).collect::<Vec<_>>(),
                                "chain_readable": chain_str,
                                "written_under_version": d.stage + 1,
                            }),
                        },
                    });
                }
            }
            d.rewritten = latest;
            new_pool.push(d);
        }
        let fresh = write_docs(scope, slots, cfg, &new_lineage, &new, chain.len() - 1, &mut st.own_writes_rejected);
        st.docs_written += fresh.len() as u64;
        // mixed-version direction: the documents just written under the new
        // version meet a reader still on the previous one (top-level fields only)
        let probe_raw = matches!(scope, Scope::Top | Scope::Nested(Wrap::Direct));
        if scope == Scope::Top && nl > next_lineage {
            let prev_readers = [("its in-memory schema object", Arc::new(schema.clone())), ("its persisted schema", Arc::new(old.clone()))];
            newer_docs_under_older(scope, slots, chain, &chain_str, prev_cfg, lineage, next_lineage, &prev_readers, &fresh, st);
        }
        if probe_raw {
            let readers = [("the in-memory schema object", new.clone()), ("the persisted schema", reloaded.clone())];
            raw_index_probes(scope, chain, &chain_str, &new_lineage, nl, &readers, fresh.first(), st);
        }
        if st.sample.is_none() && chain.len() == 3 && chain[0] != chain[1] && chain[1] != chain[2] {
            st.sample = Some(json!({"scope": scope.full(), "permitted_chain": chain_str, "documents_checked": new_pool.len()}));
        }
        new_pool.extend(fresh);
        step(scope, slots, configs, chain, &new, &new_lineage, nl, &new_pool, max_len, deadline, st);
        chain.pop();
    }
}

fn explore(scope: Scope, first: &Config, configs: &[Config], max_len: usize, deadline: std::time::Instant) -> Stats {
    let slots = match scope {
        Scope::Top => top_slots(),
        Scope::Nested(_) => nested_slots(),
    };
    let mut st = Stats::default();
    let s0 = build_schema(scope, &slots, first, 1);
    let mut n = 0u32;
    let lineage: Vec<Option<u32>> = first
        .iter()
        .map(|s| {
            if *s == St::Absent {
                None
            } else {
                n += 1;
                Some(n)
            }
        })
        .collect();
    let s0a = Arc::new(s0.clone());
    let pool = write_docs(scope, &slots, first, &lineage, &s0a, 0, &mut st.own_writes_rejected);
    st.docs_written += pool.len() as u64;
    let mut chain = vec![first.clone()];
    if matches!(scope, Scope::Top | Scope::Nested(Wrap::Direct)) {
        let readers = [("the in-memory schema object", s0a.clone()), ("the persisted schema", Arc::new(persisted(&s0)))];
        let cs = cfg_str(&slots, first);
        raw_index_probes(scope, &chain, &cs, &lineage, n, &readers, pool.first(), &mut st);
    }
    step(scope, &slots, configs, &mut chain, &s0, &lineage, n, &pool, max_len, deadline, &mut st);
    st
}

fn parse_tag(t: &str) -> St {
    match t {
        "T" => St::Req,
        "T?" => St::Opt,
        "U?" => St::OptB,
        _ => St::Absent,
    }
}

fn main() {
    let mut run = Run::from_args("C13", "upgrade", "exploration");
    let max_len = run.tier.pick(3, 4); // upgrades per chain
    let deadline = std::time::Instant::now() + std::time::Duration::from_secs_f64((run.remaining_s() - 1.0).max(1.0));
    let top_cfgs = all_configs(3, true);
    let nested_cfgs = all_configs(2, false);

    let mut jobs: Vec<(Scope, Config, Vec<Config>, usize)> = Vec::new();
    if let Some(file) = run.replay_file.clone() {
        let v: serde_json::Value = serde_json::from_slice(&std::fs::read(&file).expect("read replay")).expect("json");
        let r = &v["replay"];
        let sc = r["scope"].as_str().unwrap_or("top");
        let scope = match sc.strip_prefix("nested") {
            Some(rest) => Scope::Nested(
                WRAPS.iter().copied().find(|w| rest.trim_start_matches('/') == w.name()).unwrap_or(Wrap::Direct),
            ),
            None => Scope::Top,
        };
        let chain: Vec<Config> = r["chain"]
            .as_array()
            .expect("chain")
            .iter()
            .map(|c| c.as_array().unwrap().iter().map(|t| parse_tag(t.as_str().unwrap())).collect())
            .collect();
        // replay exactly that chain: the successor set at every step is the chain's own configs
        jobs.push((scope, chain[0].clone(), chain[1..].to_vec(), chain.len() - 1));
    } else {
        for c in &top_cfgs {
            jobs.push((Scope::Top, c.clone(), top_cfgs.clone(), max_len));
        }
        for w in WRAPS {
            for c in &nested_cfgs {
                jobs.push((Scope::Nested(w), c.clone(), nested_cfgs.clone(), max_len));
            }
        }
    }
    let stats = util::par_map(jobs, util::n_threads(), |(scope, first, cfgs, len)| explore(scope, &first, &cfgs, len, deadline));
    let mut found = Vec::new();
    let mut cut = false;
    for mut s in stats {
        cut |= s.cut;
        run.add("evaluations", s.reads);
        run.add("upgrades_tried", s.upgrades_tried);
        run.add("upgrades_permitted", s.upgrades_permitted);
        run.add("documents_written", s.docs_written);
        run.add("failed_reads", s.failed_reads);
        run.add("newer_document_under_older_schema_reads", s.mixed_version_reads);
        run.add("raw_index_probe_reads", s.raw_index_probes);
        run.add("valid_documents_rejected_by_their_own_upgraded_schema", s.own_writes_rejected);
        for c in s.chains {
            run.distinct(c);
        }
        if let Some(x) = s.sample.take() {
            run.sample(x);
        }
        found.append(&mut s.found);
    }
    if cut {
        run.cap_hit("time budget: some chains were not extended to the full length");
    }
    run.set("max_upgrades_per_chain", json!(max_len));
    // simplest first
    found.sort_by(|a, b| a.complexity.cmp(&b.complexity).then(a.v.summary.cmp(&b.v.summary)));
    for f in found {
        run.violation(f.v);
    }
    run.rule(
        "all chains of <= 3 (thorough: 4) upgrades over (top) 3 field names x {absent, required T, Option(T), Option(T')} = 64 configurations per version and (nested) one nested struct with 2 keys x the same 4 states = 15 configurations per version, the struct placed directly / in Option / in Array([T]) / as Text- and I64-wildcard-map value / map-in-map / array-in-wildcard-map / Option-in-array (8 placements); every successor configuration is offered to Schema::upgrade_with against the CBOR-persisted predecessor; for each permitted upgrade every document written under every earlier version (all combinations of absent / Null / value per optional slot), both as first stored and as rewritten after the previous upgrade, is read under the new schema — with the in-memory schema object upgrade_with produced and (first-stored bytes) with that schema reloaded from CBOR; optional slots carry absent, Null and non-null values; mixed-version direction: for every permitted step that adds a top-level field, every document written under the new version is offered to try_from_doc and set_doc under the previous version (in-memory and persisted schema): carrying a value under an index >= the previous watermark => must be refused, otherwise shared fields read unchanged; raw index probes: for every schema version (top scope and the direct nested scope) a valid stored document + one value under index watermark-1 / watermark / watermark+1 (undeclared ones only): never-allocated => refused, retired => stale value dropped and the rest unchanged; a slot survives while it stays declared without interruption; distinct = permitted chains; evaluations = document read-backs",
    );
    run.assume("slot types: x I64/Text, y Vector/F32, z Map{*:I64}/Bytes; nested keys a I64/Text, b F32/U64; which upgrades are permitted is taken from upgrade_with itself (non-permitted upgrades are not part of the property)");
    run.finish();
}

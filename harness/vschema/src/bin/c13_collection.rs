//! C13 part `collection` — the same round trip through the real storage
//! stack: `Collection::add` / `Collection::get` over
//! `object_store::memory::InMemory`, zstd compression off and on, cache off,
//! and once more after closing the database and reopening the collection
//! from its *persisted* schema.
//!
//! SCOPE: every FieldType of grammar depth <= 2 and the narrow depth-3
//! shapes of part `roundtrip` (thorough: + its quick depth-4 shapes), one collection
//! per shape with schema {v: T, pad: Text}, every generated valid value of T.

use anda_db::collection::{Collection, CollectionConfig};
use anda_db::database::{AndaDB, DBConfig};
use anda_db::storage::StorageConfig;
use anda_db_schema::{Document, FieldEntry, Schema};
use object_store::memory::InMemory;
use serde_json::json;
use std::panic::{AssertUnwindSafe, catch_unwind};
use std::sync::Arc;
use vcore::{Run, Violation, util};
use vschema::exec::skeleton;
use vschema::grammar::{self, Ft};
use vschema::model::{self, Class};
use vschema::values::{self, Fv};
use vschema::codec;

const PAD: &str = "pad";

fn schema_of(ft: &Ft) -> Schema {
    let mut b = Schema::builder();
    b.add_field(FieldEntry::new("v".to_string(), ft.clone()).expect("entry")).expect("add v");
    b.add_field(FieldEntry::new(PAD.to_string(), Ft::Text).expect("entry")).expect("add pad");
    b.build().expect("schema")
}

fn db_config(compress_level: i32) -> DBConfig {
    DBConfig {
        name: "c13".to_string(),
        description: "C13 collection round trip".to_string(),
        storage: StorageConfig {
            compress_level,
            // every get must decode the stored object
            cache_max_capacity: 0,
            ..Default::default()
        },
        lock: None,
    }
}

struct Item {
    idx: usize,
    ft: Ft,
    /// extra values (budget probe) besides the generated valid ones
    extra: Vec<(String, Fv)>,
}

#[derive(Default)]
struct Out {
    evaluations: u64,
    adds: u64,
    gets: u64,
    gets_after_reopen: u64,
    compressed_objects_seen: u64,
    mixed_version_gets: u64,
    mixed_version_setup_failures: Vec<String>,
    valid_rejected: u64,
    distinct: Vec<u64>,
    violations: Vec<Violation>,
    sample: Option<serde_json::Value>,
}

fn fail(out: &mut Out, level: i32, ft: &Ft, how: &str, v: &Fv, kind: &str, shape: String, detail: String) {
    let s = format!("{v:?}");
    let short: String = s.chars().take(200).collect();
    out.violations.push(Violation {
        signature: format!("C13|collection|{kind}|{shape}"),
        summary: format!("compress_level {level} type {ft:?} value {short} ({how}): {detail}"),
        replay: json!({
            "compress_level": level,
            "type": ft,
            "type_debug": format!("{ft:?}"),
            "how": how,
            "value": if how.starts_with("budget:") { json!({"recipe": how}) } else { codec::enc(v) },
        }),
    });
}

async fn check_values(
    coll: &Arc<Collection>,
    level: i32,
    ft: &Ft,
    vals: &[(String, Fv)],
    written: &mut Vec<(u64, String, Fv, Fv)>,
    out: &mut Out,
) {
    for (how, v) in vals {
        out.evaluations += 1;
        let class = model::classify_set(ft, v);
        let mut doc = Document::new(coll.schema());
        doc.set_id(0); // assigned by add
        if doc.set_field("v", v.clone()).is_err() {
            if class == Class::Valid {
                out.valid_rejected += 1;
            }
            continue;
        }
        doc.set_field(PAD, Fv::Text("pad ".repeat(200))).expect("pad");
        let id = match coll.add(doc).await {
            Ok(id) => id,
            Err(e) => {
                if class == Class::Valid {
                    out.valid_rejected += 1;
                    if out.valid_rejected == 1 {
                        eprintln!("note: model-valid value rejected by Collection::add: {ft:?} {how}: {e}");
                    }
                }
                continue;
            }
        };
        out.adds += 1;
        let kind_shape = if how.starts_with("budget:") {
            format!("{}|budget:{}", skeleton(ft), if how.contains("vector") { "vector-in-untyped-slot" } else { "depth" })
        } else {
            skeleton(ft)
        };
        if class == Class::Invalid {
            fail(out, level, ft, how, v, "invalid-accepted", kind_shape, "Collection::add accepted a value the model calls invalid".into());
            continue;
        }
        let want = model::declared(ft, v);
        out.gets += 1;
        match coll.get(id).await {
            Err(e) => fail(
                out,
                level,
                ft,
                how,
                v,
                "accepted-unreadable",
                kind_shape,
                format!("Collection::add returned id {id} but Collection::get fails: {e}"),
            ),
            Ok(back) => {
                let ok = back.get_field("v").is_some_and(|g| model::same_declared(ft, &want, g))
                    && back.id() == id
                    && back.get_field(PAD).is_some_and(|p| model::bit_eq(p, &Fv::Text("pad ".repeat(200))));
                if !ok {
                    fail(
                        out,
                        level,
                        ft,
                        how,
                        v,
                        "readback-differs",
                        kind_shape,
                        format!("Collection::get returns {:?} for written {want:?}", back.get_field("v")),
                    );
                } else {
                    written.push((id, how.clone(), v.clone(), want));
                }
            }
        }
    }
}

/// Mixed-version direction through the storage stack: handle A keeps the
/// collection open with schema v1 while a second connection B on the same
/// object store opens it with v2 (two more optional fields) and updates
/// documents. A document B stored with a value under an index A's schema
/// lineage never allocated (== A's watermark, watermark+1) must be REFUSED by
/// `A.get` (never handed out silently stripped); a document B touched without
/// using a new field reads through A with the new value.
fn mixed_version(level: i32, out: &mut Out) {
    use std::collections::BTreeMap;
    let store = Arc::new(InMemory::new());
    let mk = |version: u64, extra: &[(&str, Ft)]| {
        let mut b = Schema::builder();
        b.with_version(version);
        b.add_field(FieldEntry::new("x".to_string(), grammar::opt(Ft::I64)).expect("entry")).expect("x");
        b.add_field(FieldEntry::new("y".to_string(), Ft::Text).expect("entry")).expect("y");
        for (n, t) in extra {
            b.add_field(FieldEntry::new(n.to_string(), t.clone()).expect("entry")).expect("extra");
        }
        b.build().expect("schema")
    };
    let cfg = || CollectionConfig { name: "mv".to_string(), description: "mixed version".to_string() };
    let res: Result<(), String> = util::block_on(async {
        let db_a = AndaDB::connect(store.clone(), db_config(level)).await.map_err(|e| format!("connect A: {e}"))?;
        let a = db_a.open_or_create_collection(mk(1, &[]), cfg(), async |_c| Ok(())).await.map_err(|e| format!("open A: {e}"))?;
        let mut ids = Vec::new();
        for i in 0..3i64 {
            let mut d = Document::new(a.schema());
            d.set_id(0);
            d.set_field("x", Fv::I64(5 + i)).map_err(|e| e.to_string())?;
            d.set_field("y", Fv::Text(format!("old{i}"))).map_err(|e| e.to_string())?;
            ids.push(a.add(d).await.map_err(|e| format!("add: {e}"))?);
        }
        db_a.flush().await.map_err(|e| format!("flush A: {e}"))?;
        // the newer process
        let db_b = AndaDB::connect(store.clone(), db_config(level)).await.map_err(|e| format!("connect B: {e}"))?;
        let v2 = mk(2, &[("z1", grammar::opt(Ft::Text)), ("z2", grammar::opt(Ft::U64))]);
        let b = db_b.open_or_create_collection(v2, cfg(), async |_c| Ok(())).await.map_err(|e| format!("open B: {e}"))?;
        if b.schema().get_field("z1").is_none() {
            return Err("B did not upgrade the schema".to_string());
        }
        let updates: [(&str, Fv, bool); 3] = [
            ("z1", Fv::Text("new".into()), true),  // index == A's watermark
            ("z2", Fv::U64(7), true),              // index == A's watermark + 1
            ("y", Fv::Text("changed".into()), false), // no index A does not know
        ];
        for (id, (field, value, foreign)) in ids.iter().zip(updates) {
            b.update(*id, BTreeMap::from([(field.to_string(), value.clone())])).await.map_err(|e| format!("update by B: {e}"))?;
            out.evaluations += 1;
            out.mixed_version_gets += 1;
            let got = a.get(*id).await;
            let problem = match (&got, foreign) {
                (Ok(d), true) => Some((
                    "foreign-index-accepted",
                    format!(
                        "a newer writer stored {field}={value:?} (an index the older handle's schema never allocated) in document {id}; Collection::get through the handle still on v1 returned {:?} instead of refusing",
                        d.fields()
                    ),
                )),
                (Err(_), true) => None,
                (Ok(d), false) => {
                    let ok = d.get_field("y").is_some_and(|y| model::bit_eq(y, &value))
                        && d.get_field("x").is_some_and(|x| matches!(x, Fv::I64(_)));
                    if ok { None } else { Some(("surviving-field-changed", format!("document {id} updated by the newer writer in field y reads {:?} through the older handle", d.fields()))) }
                }
                (Err(e), false) => Some(("unreadable", format!("document {id}, updated by the newer writer only in a field both versions share, is refused by the older handle: {e}"))),
            };
            if let Some((kind, detail)) = problem {
                out.violations.push(Violation {
                    signature: format!("C13|collection|{kind}|older-handle-get"),
                    summary: format!("compress_level {level}: {detail}"),
                    replay: json!({"compress_level": level, "mixed_version": field}),
                });
            }
        }
        let _ = db_b.close().await;
        let _ = db_a.close().await;
        Ok(())
    });
    if let Err(e) = res {
        // the scenario could not be set up: not a verdict
        out.mixed_version_setup_failures.push(e);
    }
}

fn run_level(level: i32, items: &[Item], out: &mut Out) {
    let store = Arc::new(InMemory::new());
    let mut all: Vec<(usize, Vec<(u64, String, Fv, Fv)>)> = Vec::new();
    util::block_on(async {
        let db = AndaDB::connect(store.clone(), db_config(level)).await.expect("connect");
        for it in items {
            let name = format!("t{}", it.idx);
            let coll = db
                .open_or_create_collection(
                    schema_of(&it.ft),
                    CollectionConfig { name: name.clone(), description: format!("{:?}", it.ft) },
                    async |_c| Ok(()),
                )
                .await
                .expect("create collection");
            let mut vals: Vec<(String, Fv)> =
                values::valid_values(&it.ft).into_iter().enumerate().map(|(i, v)| (format!("valid#{i}"), v)).collect();
            vals.extend(it.extra.iter().cloned());
            for (_, v) in &vals {
                out.distinct.push(util::fnv64(format!("{level}|{:?}|{v:?}", it.ft).as_bytes()));
            }
            let mut written = Vec::new();
            check_values(&coll, level, &it.ft, &vals, &mut written, out).await;
            all.push((it.idx, written));
        }
        db.close().await.expect("close");
    });
    // how many stored document objects are actually zstd frames
    util::block_on(async {
        use object_store::{ObjectStore, ObjectStoreExt};
        use futures::StreamExt;
        let metas: Vec<_> = store.list(None).collect().await;
        for m in metas.into_iter().flatten() {
            if let Ok(r) = store.get(&m.location).await
                && let Ok(b) = r.bytes().await
                && b.len() >= 4
                && b[..4] == [0x28, 0xB5, 0x2F, 0xFD]
            {
                out.compressed_objects_seen += 1;
            }
        }
    });
    // reopen from the persisted schema
    util::block_on(async {
        let db = AndaDB::connect(store.clone(), db_config(level)).await.expect("reconnect");
        for (it, (_, written)) in items.iter().zip(&all) {
            if written.is_empty() {
                continue;
            }
            let name = format!("t{}", it.idx);
            let coll = match db.open_collection(name, async |_c| Ok(())).await {
                Ok(c) => c,
                Err(e) => {
                    fail(
                        out,
                        level,
                        &it.ft,
                        "reopen",
                        &Fv::Null,
                        "reopen-fails",
                        skeleton(&it.ft),
                        format!("collection cannot be reopened from its persisted schema: {e}"),
                    );
                    continue;
                }
            };
            if *coll.schema() != schema_of(&it.ft) && out.sample.is_none() {
                // informational only: idx allocation etc. may legitimately differ
            }
            for (id, how, v, want) in written {
                out.evaluations += 1;
                out.gets_after_reopen += 1;
                match coll.get(*id).await {
                    Ok(back) if back.get_field("v").is_some_and(|g| model::same_declared(&it.ft, want, g)) => {}
                    Ok(back) => fail(
                        out,
                        level,
                        &it.ft,
                        how,
                        v,
                        "readback-differs-after-reopen",
                        skeleton(&it.ft),
                        format!("after reopen Collection::get returns {:?} for written {want:?}", back.get_field("v")),
                    ),
                    Err(e) => fail(
                        out,
                        level,
                        &it.ft,
                        how,
                        v,
                        "unreadable-after-reopen",
                        skeleton(&it.ft),
                        format!("after reopen Collection::get fails: {e}"),
                    ),
                }
            }
        }
        if out.sample.is_none()
            && let Some((it, (_, w))) = items.iter().zip(&all).find(|(it, (_, w))| grammar::depth(&it.ft) >= 2 && w.len() > 2)
        {
            out.sample = Some(json!({
                "compress_level": level,
                "type": format!("{:?}", it.ft),
                "document": format!("{:?}", w[2].2),
                "read_back_equal_before_and_after_reopen": true,
            }));
        }
        let _ = db.close().await;
    });
}

fn main() {
    let mut run = Run::from_args("C13", "collection", "exploration");
    let lv = grammar::levels(false);
    let mut types: Vec<Ft> = lv.l1.iter().chain(lv.l2.iter()).chain(lv.l3.iter()).cloned().collect();
    if run.tier == vcore::Tier::Thorough {
        types.extend(lv.l4.iter().cloned());
    }
    let mut items: Vec<Item> = types.into_iter().enumerate().map(|(idx, ft)| Item { idx, ft, extra: vec![] }).collect();
    // end-to-end form of the budget probe: a Vector where the schema declares no type
    for it in items.iter_mut() {
        if it.ft == Ft::Array(vec![]) {
            it.extra.push((
                "budget:untyped_holds_vector_len4097".to_string(),
                Fv::Array(vec![values::vector(&vec![0x3F80; model::MAX_ARRAY_LEN + 1])]),
            ));
            it.extra.push((
                "budget:untyped_holds_vector_len4096".to_string(),
                Fv::Array(vec![values::vector(&vec![0x3F80; model::MAX_ARRAY_LEN])]),
            ));
        }
    }

    // nesting towers through the storage stack
    for it in items.iter_mut() {
        for k in [64usize, 65, 70, 130] {
            let jo = Fv::Json(values::nest_json_obj(k));
            if it.ft == Ft::Json || it.ft == grammar::opt(Ft::Json) {
                it.extra.push((format!("budget:json_obj_nest{k}"), jo.clone()));
                it.extra.push((format!("budget:json_mixed_nest{k}"), Fv::Json(values::nest_json_mixed(k, true))));
            }
            if it.ft == grammar::arr1(Ft::Json) {
                it.extra.push((format!("budget:arr1_json_obj_nest{k}"), Fv::Array(vec![jo.clone()])));
            }
            if it.ft == Ft::Array(vec![]) {
                it.extra.push((format!("budget:untyped_holds_fv_mixed_nest{k}"), Fv::Array(vec![values::nest_fv_mixed(k)])));
                it.extra.push((format!("budget:untyped_holds_json_obj_nest{k}"), Fv::Array(vec![jo.clone()])));
            }
        }
    }

    let mut levels = vec![0, 3];
    if let Some(file) = run.replay_file.clone() {
        let v: serde_json::Value = serde_json::from_slice(&std::fs::read(&file).expect("read replay")).expect("json");
        let r = &v["replay"];
        let ft: Ft = serde_json::from_value(r["type"].clone()).expect("type");
        levels = vec![r["compress_level"].as_i64().unwrap_or(0) as i32];
        items.retain(|it| it.ft == ft);
        if items.is_empty() {
            items.push(Item { idx: 0, ft, extra: vec![] });
        }
    }
    run.add("shapes", items.len() as u64);

    // one job per (level, slice of shapes): collections are independent
    let threads = util::n_threads();
    let per = items.len().div_ceil((threads / 2).max(1));
    let mut jobs: Vec<(i32, Vec<Item>)> = Vec::new();
    for level in &levels {
        let mut it = items.iter();
        loop {
            let chunk: Vec<Item> = it
                .by_ref()
                .take(per.max(1))
                .map(|i| Item { idx: i.idx, ft: i.ft.clone(), extra: i.extra.clone() })
                .collect();
            if chunk.is_empty() {
                break;
            }
            jobs.push((*level, chunk));
        }
    }
    // one extra job per level: the mixed-version scenario (empty chunk)
    let replay_mixed = run.replay_file.as_ref().is_some_and(|f| {
        std::fs::read(f).ok().and_then(|b| serde_json::from_slice::<serde_json::Value>(&b).ok()).is_some_and(|v| !v["replay"]["mixed_version"].is_null())
    });
    if replay_mixed {
        jobs.clear();
    }
    if run.replay_file.is_none() || replay_mixed {
        for level in &levels {
            jobs.push((*level, Vec::new()));
        }
    }
    let outs = util::par_map(jobs, threads, |(level, chunk)| {
        let mut out = Out::default();
        let r = catch_unwind(AssertUnwindSafe(|| {
            if chunk.is_empty() {
                mixed_version(level, &mut out)
            } else {
                run_level(level, &chunk, &mut out)
            }
        }));
        if let Err(p) = r {
            let msg = p
                .downcast_ref::<String>()
                .cloned()
                .or_else(|| p.downcast_ref::<&str>().map(|s| s.to_string()))
                .unwrap_or_else(|| "panic".into());
            out.violations.push(Violation {
                signature: "C13|collection|panic".to_string(),
                summary: format!("compress_level {level}: panicked: {msg}"),
                replay: json!({"compress_level": level, "type": chunk.first().map(|c| c.ft.clone()), "how": "panic"}),
            });
        }
        (level, out)
    });
    for (level, o) in outs {
        run.add("evaluations", o.evaluations);
        run.add("adds_accepted", o.adds);
        run.add("gets", o.gets);
        run.add("model_valid_but_rejected", o.valid_rejected);
        run.add("gets_after_reopen", o.gets_after_reopen);
        run.add("mixed_version_gets_through_older_handle", o.mixed_version_gets);
        for e in &o.mixed_version_setup_failures {
            eprintln!("note: mixed-version scenario could not be set up (level {level}): {e}");
            run.add("mixed_version_scenarios_not_set_up", 1);
        }
        run.add(&format!("zstd_objects_in_store_level{level}"), o.compressed_objects_seen);
        for d in o.distinct {
            run.distinct(d);
        }
        if let Some(s) = o.sample {
            run.sample(s);
        }
        for v in o.violations {
            run.violation(v);
        }
    }
    run.rule(&format!(
        "every FieldType of grammar depth <= 2 ({} leaves + {} composites) + the {} narrow depth-3 shapes of part roundtrip{} x every generated valid value (+ budget probes: Vector in an untyped slot, nesting towers of JSON objects / mixed containers of height 64, 65, 70, 130) x zstd compress_level {{0, 3}} (cache off): one collection per shape with schema {{v: T, pad: Text(800 compressible chars)}}, Document::set_field -> Collection::add -> Collection::get, then AndaDB::close, reconnect, open_collection from the persisted schema and get again; compared in the declared variant (bit-exact); plus, per level, a mixed-version scenario: handle A keeps schema v1 open, a second connection B on the same store upgrades to v2 (+2 optional fields) and updates three documents (new field at A's watermark, at watermark+1, a shared field): Collection::get through A must refuse the first two and return the third with the new value; distinct = (level, type, value)",
        lv.l1.len(),
        lv.l2.len(),
        lv.l3.len(),
        if run.tier == vcore::Tier::Thorough { format!(" + its {} quick depth-4 shapes", lv.l4.len()) } else { String::new() },
    ));
    run.assume("InMemory object store; no indexes on the collections; the number of zstd-framed objects found in the store is reported so that 'compression on' is not vacuous");
    run.finish();
}

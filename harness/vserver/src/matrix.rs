//! Runs the complete request matrix at one control-plane state (root +
//! event history) on the real server and applies the C14 oracles.
//!
//! One state is examined in separate worlds (each built by replaying the
//! history on a fresh server) so that requests which legitimately change
//! things cannot disturb the cells whose oracle is "nothing happens":
//!
//! * `reject` world  — every cell the model rejects, the path-level cells and
//!   `GET /`. Oracle: byte-identical to the same request addressed to a
//!   database that never existed; status 401/403; no store call at all.
//! * `tenant:<db>` world — the holder of the key bound to `<db>` on its own
//!   database. Oracle: store calls confined to `<db>/`, nothing of the other
//!   database or of the instance in the response, other database and server
//!   state unchanged, Read-classified methods write nothing.
//! * `admin` world — admin principals. Oracle: Read-classified methods write
//!   nothing; the scraped method tables agree with the server's answers.

use serde_json::{Value, json};
use std::collections::{BTreeMap, BTreeSet, HashMap};
use vcore::{Violation, util};

use crate::cells::{
    Body, BodyKind, NAMED_CLASS, Prepared, Principal, Target, TargetKind, Variant, access, bodies, effect_at, has_params, in_focus, named, nowhere,
    principals, sha3_hex, targets,
};
use crate::model::{Access, Event, Model, Root, Status, token};
use crate::names::{self, dbn, primary};
use crate::table::{Effect, Tables};
use crate::world::{ADMIN_KEY, Auth, COLLECTION, Enc, Req, Resp, StoreTrace, World, marker, rpc};

#[derive(Default)]
pub struct Report {
    pub canon: String,
    pub counters: BTreeMap<&'static str, u64>,
    pub violations: Vec<Violation>,
    pub violation_total: u64,
    pub samples: Vec<Value>,
    pub distinct: BTreeSet<u64>,
    /// Methods that answered 200 to an authorized minimal request.
    pub ok_methods: BTreeSet<String>,
    pub methods_without_params: BTreeSet<String>,
    /// Harness/model problems (never a verdict).
    pub machinery: Vec<String>,
    /// Distinct rejection responses seen (status + body), per encoding.
    pub reject_shapes: BTreeSet<String>,
    /// Distinct answers to the path-level targets (target class, status, content type).
    pub path_level_shapes: BTreeSet<String>,
}

impl Report {
    fn add(&mut self, k: &'static str, n: u64) {
        *self.counters.entry(k).or_insert(0) += n;
    }
    fn violation(&mut self, v: Violation) {
        self.violation_total += 1;
        if !self.violations.iter().any(|x| x.signature == v.signature) {
            self.violations.push(v);
        }
    }
    pub fn merge_into(self, run: &mut vcore::Run) {
        for (k, v) in &self.counters {
            run.add(k, *v);
        }
        for d in &self.distinct {
            run.distinct(*d);
        }
        for v in self.violations {
            run.violation(v);
        }
    }
}

pub fn history_json(root: Root, history: &[Event]) -> Value {
    json!({"root": root.as_str(), "history": history.iter().map(|e| e.to_json()).collect::<Vec<_>>()})
}

/// Applies one event to the real server through admin requests.
pub async fn apply_event(w: World, m: &Model, e: Event) -> Result<World, String> {
    let mut w = w;
    match e {
        Event::Create { db, key } => {
            let mut p = json!({"name": dbn(db)});
            if key {
                p["api_key"] = json!(token(db, m.dbs[db].issued + 1));
            }
            w.admin_rpc("/", "db.create", p).await?;
            w.seed(dbn(db)).await?;
        }
        Event::SetKey { db } => {
            let r = w
                .admin_rpc("/", "db.set_api_key", json!({"name": dbn(db), "api_key": token(db, m.dbs[db].issued + 1)}))
                .await?;
            if r.get("api_key").map(|k| !k.is_null()).unwrap_or(false) {
                return Err(format!("db.set_api_key echoed a supplied key: {r}"));
            }
        }
        Event::SetKeyGen { db } => {
            let r = w.admin_rpc("/", "db.set_api_key", json!({"name": dbn(db)})).await?;
            match r.get("api_key").and_then(|k| k.as_str()) {
                Some(k) if !k.is_empty() => crate::model::set_generated(db, m.dbs[db].issued + 1, k.to_string()),
                _ => return Err(format!("db.set_api_key without api_key returned no generated key: {r}")),
            }
        }
        Event::RemoveKey { db } => {
            let r = w.admin_rpc("/", "db.remove_api_key", json!({"name": dbn(db)})).await?;
            if r != json!(true) {
                return Err(format!("db.remove_api_key returned {r}, the model says a key was bound"));
            }
        }
        Event::Close { db } => {
            w.admin_rpc("/", "db.close", json!({"name": dbn(db)})).await?;
        }
        Event::Open { db } => {
            w.admin_rpc("/", "db.open", json!({"name": dbn(db)})).await?;
        }
        Event::Connect { db } => {
            w.admin_rpc("/", "db.connect", json!({"name": dbn(db)})).await?;
            if m.dbs[db].status == Status::Absent {
                w.seed(dbn(db)).await?;
            }
        }
        Event::Restart => {
            w = w.restart().await?;
        }
    }
    Ok(w)
}

/// Builds the state `root + history` on a fresh server; returns the world and
/// the model state. The number of executed events is returned as well.
pub async fn build_world(root: Root, history: &[Event]) -> Result<(World, Model, u64), String> {
    build_world_without(root, history, None).await
}

/// Logical time at which event number `k` of a history starts. Every event
/// starts at its own fixed time, whatever the events before it consumed: the
/// timestamps a database carries then depend on ITS events only, which is
/// what lets two worlds that differ in the other database be compared byte
/// for byte.
fn event_time(k: usize) -> u64 {
    1_700_000_000_000 + k as u64 * 1_000_000
}

/// As `build_world`, but the events of database `skip` are left out: the
/// world in which that database was never created (every other event keeps
/// its position in time).
pub async fn build_world_without(root: Root, history: &[Event], skip: Option<usize>) -> Result<(World, Model, u64), String> {
    // every world starts at the same logical time (the twin comparison needs
    // identical timestamps in identical histories)
    anda_db_utils::verif::set_clock(Some((event_time(0), 1)));
    crate::model::clear_generated();
    let mut w = World::boot(root.has_admin().then_some(ADMIN_KEY)).await?;
    let mut m = Model::new(root.has_admin());
    let mut n = 0;
    for (k, e) in root.prelude().into_iter().chain(history.iter().copied()).enumerate() {
        if skip.is_some() && e.db() == skip {
            continue;
        }
        if !m.enabled(e) {
            return Err(format!("event {e:?} is not enabled in model state {}", m.canon()));
        }
        // (a restart makes every open database act within one event: the
        // clock stands still during it, so that the time a database stamps
        // on its own flush does not depend on how many other databases
        // flushed before it)
        let step = if e == Event::Restart { 0 } else { 1 };
        anda_db_utils::verif::set_clock(Some((event_time(k + 1), step)));
        w = apply_event(w, &m, e).await.map_err(|err| format!("event {e:?} in state {}: {err}", m.canon()))?;
        m.apply(e);
        n += 1;
    }
    anda_db_utils::verif::set_clock(Some((event_time(root.prelude().len() + history.len() + 1), 1)));
    Ok((w, m, n))
}

/// Compares the model's control state with what the real server shows.
async fn probe_canon(w: &mut World, m: &Model) -> Result<(), String> {
    let listed = w.admin_rpc("/", "db.list", Value::Null).await?;
    let mut expect: Vec<String> = (0..2).filter(|d| m.dbs[*d].status.is_open()).map(|d| dbn(d).to_string()).collect();
    expect.push(primary().to_string());
    expect.sort();
    let mut got: Vec<String> =
        listed.as_array().map(|a| a.iter().filter_map(|v| v.as_str().map(|s| s.to_string())).collect()).unwrap_or_default();
    got.sort();
    if got != expect {
        return Err(format!("model/real mismatch: db.list = {got:?}, model expects {expect:?} in {}", m.canon()));
    }
    let meta = w.admin_rpc(&format!("/{}", primary()), "db.metadata", Value::Null).await?;
    let keys = meta.get("extensions").and_then(|e| e.get("server:api_keys")).cloned().unwrap_or(json!({}));
    for db in 0..2 {
        let real = keys.get(dbn(db)).and_then(|v| v.as_str()).map(|s| s.to_string());
        let model = m.bound_token(db).map(|t| sha3_hex(&t));
        if real != model {
            return Err(format!(
                "model/real mismatch: persisted key hash of {} = {real:?}, model expects {model:?} in {}",
                dbn(db),
                m.canon()
            ));
        }
    }
    Ok(())
}

/// What a caller confined to database `own` (or, for `own = None`, a public
/// caller) must never be shown, and what it may be shown.
///
/// The names of a universe contain one another (`acme` / `acme_eu`), so a
/// plain substring search is wrong in both directions. The response is
/// scanned left to right instead: at every position the LONGEST listed
/// string that matches there decides — an allowed one (the caller's own
/// database name, its own data marker, its own tokens) is skipped as a whole,
/// a forbidden one is a leak.
#[derive(Clone)]
struct Secrets {
    forbidden: Vec<(String, String)>,
    allowed: Vec<String>,
    /// First bytes of all listed strings (positions starting with any other
    /// byte are skipped without comparing).
    first: [bool; 256],
}

fn secrets(m: &Model, own: Option<usize>) -> Secrets {
    let mut forbidden = vec![
        ("admin key".to_string(), ADMIN_KEY.to_string()),
        ("admin key hash".to_string(), sha3_hex(ADMIN_KEY)),
        ("primary database name".to_string(), primary().to_string()),
        ("server registry key".to_string(), "server:databases".to_string()),
        ("server key map".to_string(), "server:api_keys".to_string()),
        ("scratch database name".to_string(), "scratch_db".to_string()),
    ];
    let mut allowed = Vec::new();
    for db in 0..2 {
        if own == Some(db) {
            allowed.push(dbn(db).to_string());
            allowed.push(marker(dbn(db)));
            for i in 1..=m.dbs[db].issued + 1 {
                allowed.push(token(db, i));
            }
            continue;
        }
        forbidden.push((format!("name of the other database {}", dbn(db)), dbn(db).to_string()));
        forbidden.push((format!("data of {}", dbn(db)), marker(dbn(db))));
        for i in 1..=m.dbs[db].issued + 1 {
            forbidden.push((format!("token {i} of {}", dbn(db)), token(db, i)));
            forbidden.push((format!("hash of token {i} of {}", dbn(db)), sha3_hex(&token(db, i))));
        }
    }
    let mut first = [false; 256];
    for x in forbidden.iter().map(|(_, f)| f).chain(allowed.iter()) {
        if let Some(b) = x.as_bytes().first() {
            first[*b as usize] = true;
        }
    }
    Secrets { forbidden, allowed, first }
}

impl Secrets {
    /// The same lists with `own_input` (something the caller itself sent,
    /// such as the path segment) allowed: echoing it reveals nothing.
    fn allowing(&self, own_input: &str) -> Secrets {
        let mut s = self.clone();
        if let Some(b) = own_input.as_bytes().first() {
            s.allowed.push(own_input.to_string());
            s.first[*b as usize] = true;
        }
        s
    }
}

/// Leftmost-longest scan of `hay`; `Some(what)` names the first forbidden
/// string found outside every occurrence of an allowed one.
fn scan(hay: &[u8], s: &Secrets) -> Option<String> {
    let mut i = 0;
    while i < hay.len() {
        if !s.first[hay[i] as usize] {
            i += 1;
            continue;
        }
        let rest = &hay[i..];
        let best_allowed = s.allowed.iter().filter(|a| !a.is_empty() && rest.starts_with(a.as_bytes())).map(|a| a.len()).max();
        let best_forbidden = s
            .forbidden
            .iter()
            .filter(|(_, f)| !f.is_empty() && rest.starts_with(f.as_bytes()))
            .max_by_key(|(_, f)| f.len());
        match (best_allowed, best_forbidden) {
            (a, Some((what, f))) if a.map(|a| f.len() > a).unwrap_or(true) => return Some(what.clone()),
            (Some(a), _) => i += a,
            _ => i += 1,
        }
    }
    None
}

fn leaks(resp: &Resp, s: &Secrets) -> Option<String> {
    if let Some(what) = scan(&resp.body, s) {
        return Some(what);
    }
    for (_, v) in &resp.headers {
        if let Some(what) = scan(v, s) {
            return Some(format!("{what} (in a header)"));
        }
    }
    None
}

fn mask_counters(v: &mut Value) {
    // read counters change with every read (the dump itself reads)
    const VOLATILE: [&str; 5] =
        ["get_count", "search_count", "total_fetch_count", "total_fetch_bytes", "total_cache_get_count"];
    match v {
        Value::Object(map) => {
            for (k, x) in map.iter_mut() {
                if VOLATILE.contains(&k.as_str()) && x.is_number() {
                    *x = json!("<masked>");
                } else {
                    mask_counters(x);
                }
            }
        }
        Value::Array(a) => a.iter_mut().for_each(mask_counters),
        _ => {}
    }
}

/// Observable state of database `o` and of the instance, as the admin sees it.
async fn dump(w: &mut World, m: &Model, o: usize) -> Value {
    let admin = crate::world::admin_auth(&w.admin);
    let odb = format!("/{}", dbn(o));
    let primary = format!("/{}", primary());
    let c = COLLECTION;
    let mut out = Vec::new();
    let list: Vec<(&str, &str, Value)> = vec![
        ("/", "info", Value::Null),
        ("/", "db.list", Value::Null),
        (&primary, "db.metadata", Value::Null),
        (&odb, "db.metadata", Value::Null),
        (&odb, "collection.list", Value::Null),
        (&odb, "collection.metadata", json!({"collection": c})),
        (&odb, "doc.get_many", json!({"collection": c, "_ids": [1, 2, 3, 4, 5]})),
        (&odb, "doc.query_ids", json!({"collection": c, "filter": {"Field": ["score", {"Ge": 0}]}})),
        (&odb, "doc.search_ids", json!({"collection": c, "query": {"search": {"text": "common"}, "limit": 10}})),
    ];
    for (path, method, params) in list {
        let (resp, _) = w.send(&rpc(path, admin.clone(), Enc::Json, method, params)).await;
        let mut v = resp.body_value().unwrap_or(Value::Null);
        mask_counters(&mut v);
        out.push(json!({"path": path, "method": method, "status": resp.status, "body": v}));
    }
    // the binding of o still accepts exactly its bound token
    for i in 1..=m.dbs[o].issued + 1 {
        let (resp, _) = w.send(&rpc(&odb, Auth::Bearer(token(o, i)), Enc::Json, "collection.list", Value::Null)).await;
        out.push(json!({"token": i, "status": resp.status}));
    }
    Value::Array(out)
}

fn first_diff(a: &Value, b: &Value) -> String {
    if let (Some(x), Some(y)) = (a.as_array(), b.as_array()) {
        for (p, q) in x.iter().zip(y.iter()) {
            if p != q {
                return format!("before: {p}  after: {q}");
            }
        }
    }
    "dumps differ".to_string()
}

struct Ctx<'a> {
    tables: &'a Tables,
    root: Root,
    history: &'a [Event],
    model: &'a Model,
    prepared: Prepared,
    lite: bool,
    focus_reject: bool,
    rep: Report,
}

impl Ctx<'_> {
    fn replay(&self, phase: &str, p: &Principal, t: &Target, enc: Option<Enc>, b: Option<&Body>) -> Value {
        let n = names::current();
        json!({
            "names": n.label,
            "name_universe": {"primary": n.primary, "A": n.dbs[0], "B": n.dbs[1], "missing": n.missing, "relation": n.relation},
            "root": self.root.as_str(),
            "history": self.history.iter().map(|e| e.to_json()).collect::<Vec<_>>(),
            "state": self.model.canon(),
            "phase": phase,
            "principal": p.label,
            "target": t.path,
            "encoding": enc.map(|e| e.as_str()),
            "body": b.map(|b| json!({"label": b.label, "variant": b.variant().map(|v| format!("{v:?}"))})),
        })
    }

    fn violate(
        &mut self,
        signature: String,
        what: String,
        phase: &str,
        p: &Principal,
        t: &Target,
        enc: Option<Enc>,
        b: Option<&Body>,
        req: &Req,
        resp: &Resp,
        extra: Value,
    ) {
        let mut replay = self.replay(phase, p, t, enc, b);
        replay["request"] = req.to_json();
        replay["response"] = resp.to_json();
        replay["detail"] = extra;
        let summary = format!(
            "{what} [names {}; state {} after {} event(s); principal {}; {} {}; {}; {}]",
            names::current().label,
            self.model.canon(),
            self.history.len(),
            p.label,
            req.verb,
            t.path,
            enc.map(|e| e.as_str()).unwrap_or("-"),
            b.map(|b| b.label.as_str()).unwrap_or("-"),
        );
        self.rep.violation(Violation { signature, summary, replay });
    }

    fn distinct(&mut self, access: &str, p: &Principal, tclass: &str, enc: Option<Enc>, b: Option<&Body>) {
        let variant = match b.and_then(|b| b.variant()) {
            None => "-",
            Some(Variant::Minimal) => "minimal",
            Some(Variant::BadParams) => "bad-params",
            Some(Variant::GenKeyFor(i)) => ["gen-a", "gen-b", "gen-primary", "gen-missing"][i],
            Some(Variant::ExplicitKeyFor(i)) => ["exp-a", "exp-b", "exp-primary", "exp-missing"][i],
        };
        let mut h: u64 = 0xcbf29ce484222325;
        for part in [
            access,
            p.kind,
            tclass,
            enc.map(|e| e.as_str()).unwrap_or("-"),
            b.map(|b| b.label.as_str()).unwrap_or("-"),
            variant,
        ] {
            for byte in part.as_bytes().iter().chain(b"|") {
                h ^= *byte as u64;
                h = h.wrapping_mul(0x100000001b3);
            }
        }
        self.rep.distinct.insert(h);
    }
}

/// Keeps a few written-out cells for the evidence file.
fn maybe_sample(cx: &mut Ctx<'_>, phase: &str, p: &Principal, t: &Target, enc: Enc, b: &Body, resp: &Resp, trace: &StoreTrace) {
    if cx.rep.samples.len() >= 8 || enc != Enc::Json || b.variant() != Some(Variant::Minimal) {
        return;
    }
    let want = matches!(
        (phase, p.kind, b.label.as_str(), t.kind),
        ("reject", "bound-key", "doc.get", TargetKind::Db(_))
            | ("reject", "revoked-key", "doc.get", TargetKind::Db(_))
            | ("reject", "none", "db.set_api_key", TargetKind::Root)
            | ("admin", _, "doc.get", TargetKind::Db(0))
    ) || (phase.starts_with("tenant") && matches!(b.label.as_str(), "doc.get" | "info") && matches!(t.kind, TargetKind::Db(_)));
    if !want {
        return;
    }
    cx.rep.samples.push(json!({
        "state": cx.model.canon(),
        "phase": phase,
        "principal": p.label,
        "request": format!("POST {} {}", t.path, b.label),
        "status": resp.status,
        "body": resp.body_value(),
        "store_calls": trace.calls.len(),
        "store_mutations": trace.mutations.len(),
    }));
}

/// HTTP verbs other than `POST`. `GET` is sent to every target except `/`
/// (`GET /` is the public route and has its own cells).
pub const VERBS: [&str; 6] = ["GET", "PUT", "DELETE", "PATCH", "HEAD", "OPTIONS"];

/// Index of the database a caller would try to reach beyond its own.
fn victim_of(m: &Model, p: &Principal) -> usize {
    match m.holder_of(p.token.as_deref()) {
        Some(1) => 0,
        _ => 1,
    }
}

fn calls_json(trace: &StoreTrace) -> Value {
    json!({"mutations": trace.mutations, "calls": trace.calls.iter().map(|(o, p)| format!("{o} {p}")).collect::<Vec<_>>()})
}

/// Which phases to run (a replay runs only the phase of the violation).
#[derive(Clone, Debug, Default)]
pub struct Select {
    pub only_phase: Option<String>,
    /// Quick tier: four redundant header spellings (a second garbage token,
    /// the empty bearer token, two of the three malformed headers) are left
    /// out and the two path-level targets get the minimal-params bodies and
    /// the probes only.
    pub lite: bool,
    /// Namespace pass: the rejected cells are sent with the small body subset
    /// (`cells::in_focus`) by every principal — the decision they probe is
    /// taken from the path and the header before the body is looked at. The
    /// tenant, twin and admin worlds are complete.
    pub focus_reject: bool,
}

impl Select {
    fn wants(&self, phase: &str) -> bool {
        self.only_phase.as_deref().map(|p| p == phase).unwrap_or(true)
    }
}

pub async fn run_state(tables: &Tables, root: Root, history: &[Event], select: &Select) -> Report {
    let model = {
        let mut m = Model::of_root(root);
        for e in history {
            if !m.enabled(*e) {
                let mut rep = Report::default();
                rep.machinery.push(format!("history {history:?} is not enabled in the model"));
                return rep;
            }
            m.apply(*e);
        }
        m
    };
    let bs = bodies(tables);
    let mut cx = Ctx {
        tables,
        root,
        history,
        model: &model,
        prepared: Prepared::new(&bs),
        lite: false,
        focus_reject: select.focus_reject,
        rep: Report::default(),
    };
    cx.rep.canon = model.canon();
    for b in &bs {
        if let Some(n) = b.method()
            && !has_params(n)
        {
            cx.rep.methods_without_params.insert(n.to_string());
        }
    }
    // principals are recomputed after every world build: a server-generated
    // key differs from world to world
    let lite = select.lite;
    let mk_ps = |m: &Model| {
        let mut ps = principals(m);
        if lite {
            let dropped = ["timing-dummy", "empty-bearer", "malformed:basic", "malformed:no-token"];
            ps.retain(|p| !dropped.contains(&p.label.as_str()));
        }
        ps
    };
    cx.lite = select.lite;
    let ts = targets();

    if select.wants("reject") || select.wants("restart-lookahead") || select.wants("keyless-restart") {
        match build_world(root, history).await {
            Ok((mut w, m, n)) => {
                debug_assert_eq!(m, model);
                let ps = mk_ps(&model);
                cx.rep.add("events_executed", n);
                cx.rep.add("worlds_built", 1);
                if let Err(e) = probe_canon(&mut w, &model).await {
                    cx.rep.machinery.push(e);
                }
                if select.wants("reject") {
                    phase_reject(&mut cx, &mut w, &ps, &ts, &bs).await;
                }
                // One-step lookahead: the rejected cells leave the world
                // untouched, so it is restarted here and every credential is
                // tried once more on every database. What was persisted about
                // the bindings (a revocation above all) must give the same
                // decisions as the live instance gave.
                let (store, ctl) = (w.store.clone(), w.ctl.clone());
                if select.wants("restart-lookahead") {
                    match w.restart().await {
                        Ok(mut w2) => {
                            cx.rep.add("events_executed", 1);
                            phase_restart_lookahead(&mut cx, &mut w2, &ps, &ts, &bs).await;
                            w2.shutdown().await;
                        }
                        Err(e) => cx.rep.machinery.push(format!("restart lookahead: {e}")),
                    }
                } else {
                    w.shutdown().await;
                }
                // Second lookahead: the operator restarts the instance WITHOUT
                // an admin key. The documented rule (state.rs, auth.rs rule 1)
                // is that such a start is refused while any per-database
                // binding exists, whatever is open or registered.
                if select.wants("keyless-restart") && model.admin {
                    phase_keyless_restart(&mut cx, store, ctl, &ps, &ts).await;
                }
            }
            Err(e) => cx.rep.machinery.push(e),
        }
    }
    for d in 0..2 {
        let phase = format!("tenant:{}", dbn(d));
        if model.dbs[d].bound.is_none() || !model.admin || !select.wants(&phase) {
            continue;
        }
        let mut records: Vec<TenantRecord> = Vec::new();
        match build_world(root, history).await {
            Ok((mut w, _, n)) => {
                let ps = mk_ps(&model);
                cx.rep.add("events_executed", n);
                cx.rep.add("worlds_built", 1);
                phase_tenant(&mut cx, &mut w, &phase, d, &ps, &ts, &bs, &mut records).await;
                w.shutdown().await;
            }
            Err(e) => cx.rep.machinery.push(e),
        }
        // Twin world: the same history, then ONLY the other database is given
        // different content. Every answer to the tenant must be byte-identical
        // in both worlds (non-interference), whatever the method computes.
        let o = 1 - d;
        if model.dbs[o].status.is_open() {
            let mut twin: Vec<TenantRecord> = Vec::new();
            match build_world(root, history).await {
                Ok((mut w, _, n)) => {
                    let ps = mk_ps(&model);
                    cx.rep.add("events_executed", n);
                    cx.rep.add("worlds_built", 1);
                    match perturb_other(&mut w, o).await {
                        Ok(()) => {
                            phase_tenant(&mut cx, &mut w, &phase, d, &ps, &ts, &bs, &mut twin).await;
                            compare_twins(&mut cx, &phase, d, &ps, &ts, &records, &twin, Twin::Content);
                        }
                        Err(e) => cx.rep.machinery.push(format!("twin world: {e}")),
                    }
                    w.shutdown().await;
                }
                Err(e) => cx.rep.machinery.push(e),
            }
        }
        // Namespace twin: the same history WITHOUT the events of the other
        // database (it was never created, bound, closed ...), on an instance
        // whose primary database has another name. The tenant sends the same
        // bytes; every answer must be byte-identical: nothing it can read —
        // a list of names, a count, a piece of metadata, an error text — may
        // depend on which other databases the instance holds or what they are
        // called.
        {
            let base_names = names::current();
            let mut twin_names = base_names;
            twin_names.primary = TWIN_PRIMARY;
            names::install(twin_names);
            let mut twin: Vec<TenantRecord> = Vec::new();
            match build_world_without(root, history, Some(o)).await {
                Ok((mut w, _, n)) => {
                    let ps = mk_ps(&model);
                    cx.rep.add("events_executed", n);
                    cx.rep.add("worlds_built", 1);
                    phase_tenant_observe(&mut cx, &mut w, d, &ps, &ts, &mut twin).await;
                    names::install(base_names);
                    compare_twins(&mut cx, &phase, d, &ps, &ts, &records, &twin, Twin::Namespace);
                    w.shutdown().await;
                }
                Err(e) => cx.rep.machinery.push(format!("namespace twin world: {e}")),
            }
            names::install(base_names);
        }
    }
    if select.wants("admin") {
        match build_world(root, history).await {
            Ok((mut w, _, n)) => {
                let ps = mk_ps(&model);
                cx.rep.add("events_executed", n);
                cx.rep.add("worlds_built", 1);
                phase_admin(&mut cx, &mut w, &ps, &ts, &bs).await;
                w.shutdown().await;
            }
            Err(e) => cx.rep.machinery.push(e),
        }
    }
    cx.rep
}

fn status_label(m: &Model, t: &Target) -> String {
    match (t.kind, t.db) {
        (TargetKind::Root, _) => "root".into(),
        (_, Some(db)) => m.dbs[db].status.label().into(),
        (TargetKind::Primary, _) => "primary".into(),
        _ => "no-database".into(),
    }
}

async fn phase_reject(cx: &mut Ctx<'_>, w: &mut World, ps: &[Principal], ts: &[Target], bs: &[Body]) {
    let m = cx.model;
    let phase = "reject";
    // ---- GET /: public, principal-independent, tells nothing about the instance
    let secrets = secrets(m, None);
    let root_t = &ts[0];
    for enc in [None, Some(Enc::Cbor), Some(Enc::Json)] {
        let mut base: Option<Resp> = None;
        for p in ps {
            let req = Req {
                verb: "GET",
                path: "/".into(),
                auth: p.auth.clone(),
                content_type: enc.map(|e| e.content_type()),
                accept: None,
                body: Default::default(),
            };
            let (resp, trace) = w.send(&req).await;
            cx.rep.add("evaluations", 1);
            cx.rep.add("cells_public", 1);
            cx.distinct("public", p, "get-root", enc, None);
            if let Some(what) = leaks(&resp, &secrets) {
                cx.violate(
                    "C14|public-observe|GET /".into(),
                    format!("GET / reveals the {what}"),
                    phase,
                    p,
                    root_t,
                    enc,
                    None,
                    &req,
                    &resp,
                    Value::Null,
                );
            }
            if !trace.calls.is_empty() || !trace.mutations.is_empty() {
                cx.violate(
                    "C14|public-store-access|GET /".into(),
                    "GET / touches the object store".into(),
                    phase,
                    p,
                    root_t,
                    enc,
                    None,
                    &req,
                    &resp,
                    calls_json(&trace),
                );
            }
            match &base {
                None => base = Some(resp),
                Some(b0) => {
                    if *b0 != resp {
                        cx.violate(
                            "C14|public-differs|GET /".into(),
                            "GET / answers differently depending on the credential".into(),
                            phase,
                            p,
                            root_t,
                            enc,
                            None,
                            &req,
                            &resp,
                            json!({"response_without_credential": b0.to_json()}),
                        );
                    }
                }
            }
        }
    }

    // ---- the other HTTP verbs. Only `POST` passes the authorization layer
    // (documented: "other methods keep the router's own 405 answers") and
    // `GET /` is the one public route, so a verb that reaches a handler is
    // served WITHOUT any credential check. Whatever the router answers must
    // come from the path alone: not served on a database route, no store
    // call, the same bytes for every credential and for every database name
    // (existing, other key, missing, never existed).
    let nowhere = nowhere();
    let info_body: bytes::Bytes = Enc::Cbor.encode(&json!({"method": "info"})).into();
    for verb in VERBS {
        let mut per_target: Vec<(usize, Resp)> = Vec::new();
        let mut nowhere_resp: Option<Resp> = None;
        for (ti, t) in ts.iter().enumerate().filter(|(_, t)| !t.focused).chain(std::iter::once((usize::MAX, &nowhere))) {
            if verb == "GET" && t.kind == TargetKind::Root {
                continue;
            }
            let secrets = secrets.allowing(&t.decoded);
            let mut base: Option<Resp> = None;
            for p in ps.iter().filter(|p| !p.focused) {
                let req = Req {
                    verb,
                    path: t.path.clone(),
                    auth: p.auth.clone(),
                    content_type: Some(Enc::Cbor.content_type()),
                    accept: None,
                    body: info_body.clone(),
                };
                let (resp, trace) = w.send(&req).await;
                cx.rep.add("evaluations", 1);
                cx.rep.add("cells_verbs", 1);
                let tclass = t.class(m, m.holder_of(p.token.as_deref()));
                cx.distinct(verb, p, &tclass, None, None);
                let tsig = t.sig_class(m, None);
                let served = (200..300).contains(&resp.status) && t.kind != TargetKind::Root;
                if served || !trace.calls.is_empty() || !trace.mutations.is_empty() {
                    cx.violate(
                        format!("C14|verb-served|{verb}|{tsig}"),
                        format!("{verb} is not an RPC verb and passes no credential check, but the request was served ({}) or touched the store", resp.status),
                        phase,
                        p,
                        t,
                        None,
                        None,
                        &req,
                        &resp,
                        calls_json(&trace),
                    );
                }
                if let Some(what) = leaks(&resp, &secrets) {
                    cx.violate(
                        format!("C14|verb-observe|{verb}|{tsig}"),
                        format!("the answer to {verb} (no credential check) reveals the {what}"),
                        phase,
                        p,
                        t,
                        None,
                        None,
                        &req,
                        &resp,
                        Value::Null,
                    );
                }
                match &base {
                    None => base = Some(resp),
                    Some(b0) => {
                        if *b0 != resp {
                            cx.violate(
                                format!("C14|verb-differs-by-credential|{verb}|{tsig}"),
                                format!("the answer to {verb} depends on the credential"),
                                phase,
                                p,
                                t,
                                None,
                                None,
                                &req,
                                &resp,
                                json!({"response_without_credential": b0.to_json()}),
                            );
                        }
                    }
                }
            }
            if let Some(b0) = base {
                if ti == usize::MAX {
                    nowhere_resp = Some(b0);
                } else if !t.path_level && t.kind != TargetKind::Root {
                    per_target.push((ti, b0));
                }
            }
        }
        // database routes: the same answer as for a name that never existed
        if let Some(rref) = nowhere_resp {
            for (ti, resp) in per_target {
                if resp != rref {
                    let t = &ts[ti];
                    let p = &ps[0];
                    let req = Req { verb, path: t.path.clone(), auth: p.auth.clone(), content_type: Some(Enc::Cbor.content_type()), accept: None, body: info_body.clone() };
                    cx.violate(
                        format!("C14|verb-differs-by-database|{verb}|{}", t.sig_class(m, None)),
                        format!("the answer to {verb} ({}) differs from the answer for a database that never existed ({})", resp.status, rref.status),
                        phase,
                        p,
                        t,
                        None,
                        None,
                        &req,
                        &resp,
                        json!({"reference_request_path": nowhere.path, "reference_response": rref.to_json()}),
                    );
                }
            }
        }
    }

    // ---- rejected and path-level cells
    let mut path_base: HashMap<(usize, Enc, usize), Resp> = HashMap::new();
    let mut shapes_seen: BTreeSet<u64> = BTreeSet::new();
    for (pi, p) in ps.iter().enumerate() {
        let victim = victim_of(m, p);
        let holder = m.holder_of(p.token.as_deref());
        let rejected_somewhere = access(m, p, &nowhere) == Access::Reject;
        // reference: the same caller, the same body, a database that never existed
        let mut reference: HashMap<(Enc, usize), (Resp, StoreTrace)> = HashMap::new();
        if rejected_somewhere {
            for enc in [Enc::Cbor, Enc::Json] {
                for (bi, b) in bs.iter().enumerate() {
                    if (p.focused || cx.focus_reject) && !in_focus(b) {
                        continue;
                    }
                    let req = cx.prepared.request(bi, &nowhere.path, p.auth.clone(), enc, victim);
                    let (resp, trace) = w.send(&req).await;
                    cx.rep.add("evaluations", 1);
                    cx.rep.add("cells_reference", 1);
                    let shape = util::fnv64(&resp.body) ^ ((resp.status as u64) << 48) ^ (enc as u64);
                    if shapes_seen.insert(shape) {
                        cx.rep.reject_shapes.insert(format!(
                            "{} {} {}",
                            enc.as_str(),
                            resp.status,
                            resp.body_value().map(|v| v.to_string()).unwrap_or_else(|| hex::encode(&resp.body))
                        ));
                    }
                    if resp.status != 401 && resp.status != 403 {
                        cx.violate(
                            format!("C14|status-before-auth|{}|{}", resp.status, b.sig_class()),
                            format!(
                                "a caller without a valid key for a nonexistent database gets {} instead of the uniform rejection",
                                resp.status
                            ),
                            phase,
                            p,
                            &nowhere,
                            Some(enc),
                            Some(b),
                            &req,
                            &resp,
                            Value::Null,
                        );
                    }
                    if !trace.calls.is_empty() || !trace.mutations.is_empty() {
                        cx.violate(
                            format!("C14|unauthorized-store-access|{}|nonexistent", b.sig_class()),
                            "a rejected request for a nonexistent database touches the object store".into(),
                            phase,
                            p,
                            &nowhere,
                            Some(enc),
                            Some(b),
                            &req,
                            &resp,
                            calls_json(&trace),
                        );
                    }
                    reference.insert((enc, bi), (resp, trace));
                }
            }
        }
        for (ti, t) in ts.iter().enumerate() {
            let acc = access(m, p, t);
            if !matches!(acc, Access::Reject | Access::PathLevel) {
                continue;
            }
            let tclass = t.class(m, holder);
            let tsig = t.sig_class(m, holder);
            for enc in [Enc::Cbor, Enc::Json] {
                for (bi, b) in bs.iter().enumerate() {
                    if cx.lite && acc == Access::PathLevel && b.variant() == Some(Variant::BadParams) {
                        continue;
                    }
                    if (p.focused || t.focused || cx.focus_reject) && !in_focus(b) {
                        continue;
                    }
                    let req = cx.prepared.request(bi, &t.path, p.auth.clone(), enc, victim);
                    let (resp, trace) = w.send(&req).await;
                    cx.rep.add("evaluations", 1);
                    if acc == Access::PathLevel {
                        cx.rep.add("cells_path_level", 1);
                        if pi == 0 && bi == 0 {
                            let ct = resp
                                .headers
                                .iter()
                                .find(|(k, _)| k == "content-type")
                                .map(|(_, v)| String::from_utf8_lossy(v).to_string())
                                .unwrap_or_else(|| "-".into());
                            cx.rep.path_level_shapes.insert(format!(
                                "{tclass}: {} {ct} {:?} (same for every credential, before authorization)",
                                resp.status,
                                String::from_utf8_lossy(&resp.body)
                            ));
                        }
                        cx.distinct("path-level", p, &tclass, Some(enc), Some(b));
                        if (200..300).contains(&resp.status) || !trace.calls.is_empty() || !trace.mutations.is_empty() {
                            cx.violate(
                                format!("C14|path-level-served|{tsig}"),
                                "a request whose path names no database was served or touched the store".into(),
                                phase,
                                p,
                                t,
                                Some(enc),
                                Some(b),
                                &req,
                                &resp,
                                calls_json(&trace),
                            );
                        }
                        if pi == 0 {
                            path_base.insert((ti, enc, bi), resp);
                        } else if path_base.get(&(ti, enc, bi)) != Some(&resp) {
                            let base = path_base.get(&(ti, enc, bi)).map(|r| r.to_json());
                            cx.violate(
                                format!("C14|path-level-differs|{tsig}"),
                                "the answer to a path that names no database depends on the credential".into(),
                                phase,
                                p,
                                t,
                                Some(enc),
                                Some(b),
                                &req,
                                &resp,
                                json!({"response_without_credential": base}),
                            );
                        }
                        continue;
                    }
                    cx.rep.add("cells_rejected", 1);
                    cx.distinct("reject", p, &tclass, Some(enc), Some(b));
                    maybe_sample(cx, phase, p, t, enc, b, &resp, &trace);
                    let Some((rref, tref)) = reference.get(&(enc, bi)) else {
                        cx.rep.machinery.push(format!("no reference for principal {} (model inconsistency)", p.label));
                        continue;
                    };
                    if resp != *rref {
                        let sig = if holder.is_some() {
                            format!("C14|cross-db-observe|{tsig}")
                        } else {
                            format!("C14|reject-differs|{tsig}")
                        };
                        cx.violate(
                            sig,
                            format!(
                                "the answer ({}) differs from the answer the same caller gets for a nonexistent database ({})",
                                resp.status, rref.status
                            ),
                            phase,
                            p,
                            t,
                            Some(enc),
                            Some(b),
                            &req,
                            &resp,
                            json!({"reference_request_path": nowhere.path, "reference_response": rref.to_json()}),
                        );
                    }
                    if !trace.mutations.is_empty() {
                        cx.violate(
                            format!("C14|unauthorized-write|{}|{tsig}", b.sig_class()),
                            format!("a request the rules reject wrote to storage: {:?}", trace.mutations),
                            phase,
                            p,
                            t,
                            Some(enc),
                            Some(b),
                            &req,
                            &resp,
                            calls_json(&trace),
                        );
                    } else if trace.calls != tref.calls {
                        cx.violate(
                            format!("C14|unauthorized-store-read|{}|{tsig}", b.sig_class()),
                            format!("a request the rules reject read from storage: {:?}", trace.calls),
                            phase,
                            p,
                            t,
                            Some(enc),
                            Some(b),
                            &req,
                            &resp,
                            calls_json(&trace),
                        );
                    }
                }
            }
        }
    }
}

/// Starts a new instance over the same store WITHOUT an admin key.
async fn phase_keyless_restart(
    cx: &mut Ctx<'_>,
    store: std::sync::Arc<vcore::ctlstore::CtlStore>,
    ctl: std::sync::Arc<vcore::ctlstore::Ctl>,
    ps: &[Principal],
    ts: &[Target],
) {
    let m = cx.model;
    let phase = "keyless-restart";
    let bound: Vec<usize> = (0..2).filter(|d| m.dbs[*d].bound.is_some()).collect();
    cx.rep.add("evaluations", 1);
    cx.rep.add("keyless_restarts", 1);
    let started = World::boot_over(store, ctl, None).await;
    let mut w = match started {
        Err(_) => {
            if bound.is_empty() {
                cx.rep.add("keyless_start_refused_without_bindings", 1);
            }
            return;
        }
        Ok(w) => w,
    };
    if let Some(&d) = bound.first() {
        // the instance serves everybody as admin although a binding exists:
        // show what an anonymous caller reaches
        let anon = &ps[0];
        let t = ts.iter().find(|t| t.kind == TargetKind::Db(d)).unwrap_or(&ts[0]);
        let mut steps = Vec::new();
        if !m.dbs[d].status.is_open() {
            let r = rpc("/", Auth::None, Enc::Json, "db.open", json!({"name": dbn(d)}));
            let (resp, _) = w.send(&r).await;
            steps.push(json!({"request": r.to_json(), "response": resp.to_json()}));
        }
        let req = rpc(&t.path, Auth::None, Enc::Json, "doc.get", json!({"collection": COLLECTION, "_id": 1}));
        let (resp, _) = w.send(&req).await;
        let label = format!("{}-bound", m.dbs[d].status.label().trim_start_matches("open-").replace("warm", "open").replace("cold", "open"));
        cx.violate(
            format!("C14|keyless-start-exposes-bound-db|{label}"),
            format!(
                "an instance restarted without an admin key starts although {} has a key bound; an anonymous caller then gets {} for doc.get on it",
                dbn(d), resp.status
            ),
            phase,
            anon,
            t,
            Some(Enc::Json),
            None,
            &req,
            &resp,
            json!({"history_suffix": "restart without admin key", "steps_before": steps}),
        );
    }
    w.shutdown().await;
}

/// After a restart of the untouched reject world: every credential once more
/// on `POST /`, `POST /<A>`, `POST /<B>` (CBOR, `info`). The model state is
/// the same control state with cold databases.
async fn phase_restart_lookahead(cx: &mut Ctx<'_>, w: &mut World, ps: &[Principal], ts: &[Target], bs: &[Body]) {
    let m = cx.model;
    let phase = "restart-lookahead";
    let Some(bi) = bs.iter().position(|b| b.label == "info" && b.variant() == Some(Variant::Minimal)) else { return };
    let b = &bs[bi];
    let nowhere = nowhere();
    let enc = Enc::Cbor;
    for p in ps {
        if access(m, p, &nowhere) != Access::Reject {
            continue;
        }
        let holder = m.holder_of(p.token.as_deref());
        let victim = victim_of(m, p);
        let rreq = cx.prepared.request(bi, &nowhere.path, p.auth.clone(), enc, victim);
        let (rref, _) = w.send(&rreq).await;
        cx.rep.add("evaluations", 1);
        for t in ts.iter().filter(|t| matches!(t.kind, TargetKind::Root | TargetKind::Db(_))) {
            let acc = access(m, p, t);
            let req = cx.prepared.request(bi, &t.path, p.auth.clone(), enc, victim);
            let (resp, trace) = w.send(&req).await;
            cx.rep.add("evaluations", 1);
            cx.rep.add("cells_after_restart", 1);
            let tsig = t.sig_class(m, holder);
            cx.distinct("after-restart", p, &t.class(m, holder), Some(enc), Some(b));
            match acc {
                Access::Reject => {
                    if resp != rref || (resp.status != 401 && resp.status != 403) {
                        cx.violate(
                            format!("C14|reject-differs-after-restart|{}|{tsig}", p.kind),
                            format!(
                                "after a restart the answer ({}) to a credential the rules reject differs from the answer for a nonexistent database ({})",
                                resp.status, rref.status
                            ),
                            phase,
                            p,
                            t,
                            Some(enc),
                            Some(b),
                            &req,
                            &resp,
                            json!({"history_suffix": "restart", "reference_response": rref.to_json(), "store": calls_json(&trace)}),
                        );
                    }
                }
                Access::Scoped(_) => {
                    if resp.status == 401 || resp.status == 403 {
                        cx.rep.machinery.push(format!(
                            "after a restart the bound key of {} is rejected (state {})",
                            t.path,
                            m.canon()
                        ));
                    }
                }
                _ => {}
            }
        }
    }
}

/// Gives database `o` different content (as admin): two more documents, a
/// database extension and a collection extension.
async fn perturb_other(w: &mut World, o: usize) -> Result<(), String> {
    let path = format!("/{}", dbn(o));
    for i in 0..2 {
        w.admin_rpc(
            &path,
            "doc.add",
            json!({"collection": COLLECTION, "doc": {"title": format!("twin extra {i}"), "body": "common text twin", "score": 90 + i}}),
        )
        .await?;
    }
    w.admin_rpc(&path, "db.save_extension", json!({"key": "twin", "value": "only in the twin world"})).await?;
    w.admin_rpc(&path, "collection.save_extension", json!({"collection": COLLECTION, "key": "twin", "value": "only in the twin"})).await?;
    let mut p = crate::world::collection_params("twin");
    p["config"]["name"] = json!("twin_only");
    w.admin_rpc(&path, "collection.create", p).await?;
    Ok(())
}

/// Name of the primary database in the namespace twin world.
const TWIN_PRIMARY: &str = "twin_main_zz";

#[derive(Clone, Copy, PartialEq, Eq)]
enum Twin {
    /// Only the CONTENT of the other database differs.
    Content,
    /// The other database does not exist and the primary has another name.
    Namespace,
}

fn compare_twins(
    cx: &mut Ctx<'_>,
    phase: &str,
    d: usize,
    ps: &[Principal],
    ts: &[Target],
    a: &[TenantRecord],
    b: &[TenantRecord],
    twin: Twin,
) {
    let m = cx.model;
    let Some(p) = ps.iter().find(|p| p.kind == "bound-key" && m.holder_of(p.token.as_deref()) == Some(d)) else { return };
    if a.len() != b.len() {
        cx.rep.machinery.push(format!("twin worlds executed {} vs {} tenant cells", a.len(), b.len()));
        return;
    }
    for (x, y) in a.iter().zip(b.iter()) {
        cx.rep.add(if twin == Twin::Content { "twin_answers_compared" } else { "namespace_twin_answers_compared" }, 1);
        if x.label != y.label {
            cx.rep.machinery.push(format!("twin worlds diverged: {} vs {}", x.label, y.label));
            return;
        }
        if x.resp != y.resp {
            // label: "POST <path> <enc> <body label> <variant>"
            let method = x.label.split(' ').nth(3).unwrap_or("?").to_string();
            let t = ts.iter().find(|t| Some(t.path.as_str()) == x.label.split(' ').nth(1)).unwrap_or(&ts[0]);
            let mut replay = cx.replay(phase, p, t, None, None);
            replay["cell"] = json!(x.label);
            replay["request"] = x.req.to_json();
            replay["response"] = x.resp.to_json();
            replay["response_in_twin_world"] = y.resp.to_json();
            let (signature, depends_on) = match twin {
                Twin::Content => (format!("C14|cross-db-dependence|{method}"), format!("the content of {}", dbn(1 - d))),
                Twin::Namespace => {
                    replay["twin_world"] = json!(format!(
                        "the same history without the events of {}; primary database named {TWIN_PRIMARY} instead of {}",
                        dbn(1 - d),
                        primary()
                    ));
                    (
                        format!("C14|namespace-dependence|{method}"),
                        format!("the existence of {} ({}) or the name of the primary database", dbn(1 - d), m.dbs[1 - d].status.label()),
                    )
                }
            };
            let summary = format!(
                "the answer to a caller confined to {} depends on {depends_on}: {} vs {} [names {}; state {} after {} event(s); {}]",
                dbn(d),
                x.resp.to_json(),
                y.resp.to_json(),
                names::current().label,
                m.canon(),
                cx.history.len(),
                x.label
            );
            cx.rep.violation(Violation { signature, summary, replay });
        }
    }
}

/// One executed tenant cell, kept to compare the twin worlds.
pub struct TenantRecord {
    label: String,
    req: Req,
    resp: Resp,
}

async fn phase_tenant(
    cx: &mut Ctx<'_>,
    w: &mut World,
    phase: &str,
    d: usize,
    ps: &[Principal],
    ts: &[Target],
    bs: &[Body],
    records: &mut Vec<TenantRecord>,
) {
    let m = cx.model;
    let o = 1 - d;
    let Some(p) = ps.iter().find(|p| p.kind == "bound-key" && m.holder_of(p.token.as_deref()) == Some(d)) else {
        cx.rep.machinery.push(format!("no bound-key principal for {}", dbn(d)));
        return;
    };
    let own: Vec<&Target> = ts.iter().filter(|t| access(m, p, t) == Access::Scoped(d)).collect();
    let secrets = secrets(m, Some(d));
    let prefix = format!("{}/", dbn(d));
    let victim = o;
    // The dump of the other database is taken lazily, right before the first
    // Mutating-classified cell: the bodies are ordered unknown/Read first, and
    // those cells must meet the other database exactly as the history left it
    // (cold if it is cold), so that a read that strays into it shows up as a
    // store read under its prefix.
    let mut before: Option<Value> = None;
    let mut cell_no: u64 = 0;
    for (bi, b) in bs.iter().enumerate() {
        for enc in [Enc::Cbor, Enc::Json] {
            for t in &own {
                let t: &Target = t;
                let tclass = t.class(m, Some(d));
                let req = cx.prepared.request(bi, &t.path, p.auth.clone(), enc, victim);
                let effect = b.method().and_then(|n| effect_at(cx.tables, t, n));
                if before.is_none() && effect == Some(Effect::Mutating) {
                    before = Some(dump(w, m, o).await);
                }
                // every tenant cell starts at its own fixed logical time, so
                // that the admin's dump requests in between (which consume
                // clock ticks depending on the other database) cannot show
                // up in the tenant's timestamps when the twin worlds are compared
                cell_no += 1;
                anda_db_utils::verif::set_clock(Some((1_900_000_000_000 + cell_no * 1_000, 1)));
                let (resp, trace) = w.send(&req).await;
                records.push(TenantRecord {
                    label: format!("POST {} {} {} {:?}", t.path, enc.as_str(), b.label, b.variant()),
                    req: req.clone(),
                    resp: resp.clone(),
                });
                cx.rep.add("evaluations", 1);
                cx.rep.add("cells_tenant", 1);
                cx.distinct("tenant", p, &tclass, Some(enc), Some(b));
                maybe_sample(cx, phase, p, t, enc, b, &resp, &trace);
                if resp.status == 200
                    && b.variant() == Some(Variant::Minimal)
                    && let Some(n) = b.method()
                {
                    cx.rep.ok_methods.insert(n.to_string());
                }
                if resp.status == 401 || resp.status == 403 {
                    // not a statement of C14 (availability), but the tenant
                    // cells would be vacuous: report as a harness problem
                    cx.rep.machinery.push(format!(
                        "the holder of the key bound to {} is rejected on it ({} {}, state {})",
                        dbn(d),
                        t.path,
                        b.label,
                        m.canon()
                    ));
                    return;
                }
                if let Some(what) = leaks(&resp, &secrets) {
                    cx.violate(
                        format!("C14|cross-db-observe|{}", b.label),
                        format!("the answer to a caller confined to {} contains the {what}", dbn(d)),
                        phase,
                        p,
                        t,
                        Some(enc),
                        Some(b),
                        &req,
                        &resp,
                        Value::Null,
                    );
                }
                let outside: Vec<String> = trace
                    .calls
                    .iter()
                    .filter(|(_, path)| !path.starts_with(&prefix))
                    .map(|(op, path)| format!("{op} {path}"))
                    .collect();
                let outside_mut: Vec<&String> = trace.mutated_paths.iter().filter(|p| !p.starts_with(&prefix)).collect();
                if !outside_mut.is_empty() {
                    cx.violate(
                        format!("C14|cross-db-write|{}", b.label),
                        format!("a caller confined to {} wrote outside its storage prefix: {outside_mut:?}", dbn(d)),
                        phase,
                        p,
                        t,
                        Some(enc),
                        Some(b),
                        &req,
                        &resp,
                        calls_json(&trace),
                    );
                } else if !outside.is_empty() {
                    cx.violate(
                        format!("C14|cross-db-store-read|{}", b.label),
                        format!("a caller confined to {} caused store reads outside its prefix: {outside:?}", dbn(d)),
                        phase,
                        p,
                        t,
                        Some(enc),
                        Some(b),
                        &req,
                        &resp,
                        calls_json(&trace),
                    );
                }
                if effect == Some(Effect::Read) && !trace.mutations.is_empty() {
                    cx.violate(
                        format!("C14|read-writes|{}|{}", b.label, status_label(m, t)),
                        format!("a method classified Read wrote to storage: {:?}", trace.mutations),
                        phase,
                        p,
                        t,
                        Some(enc),
                        Some(b),
                        &req,
                        &resp,
                        calls_json(&trace),
                    );
                }
                if effect == Some(Effect::Read) {
                    cx.rep.add("read_cells_checked", 1);
                }
                if effect == Some(Effect::Mutating) || !trace.mutations.is_empty() {
                    let after = dump(w, m, o).await;
                    match &before {
                        // a non-Mutating cell wrote before the first dump was
                        // taken (reported above by path and effect): nothing
                        // to compare with yet
                        None => {}
                        Some(b0) => {
                            cx.rep.add("other_db_dumps_compared", 1);
                            if after != *b0 {
                                cx.violate(
                                    format!("C14|cross-db-change|{}", b.label),
                                    format!(
                                        "a request of a caller confined to {} changed {} or server state: {}",
                                        dbn(d),
                                        dbn(o),
                                        first_diff(b0, &after)
                                    ),
                                    phase,
                                    p,
                                    t,
                                    Some(enc),
                                    Some(b),
                                    &req,
                                    &resp,
                                    json!({"before": b0, "after": after}),
                                );
                            }
                        }
                    }
                    before = Some(after);
                }
            }
        }
    }
    let Some(before) = before else { return };
    let after = dump(w, m, o).await;
    cx.rep.add("other_db_dumps_compared", 1);
    if after != before {
        let t = own.first().copied().unwrap_or(&ts[0]);
        let req = Req { verb: "POST", path: t.path.clone(), auth: p.auth.clone(), content_type: None, accept: None, body: Default::default() };
        let resp = Resp { status: 0, headers: vec![], body: vec![] };
        cx.violate(
            "C14|cross-db-change|phase".into(),
            format!("the requests of a caller confined to {} changed {} or server state: {}", dbn(d), dbn(o), first_diff(&before, &after)),
            phase,
            p,
            t,
            None,
            None,
            &req,
            &resp,
            json!({"before": before, "after": after}),
        );
    }
}

/// The tenant cells of `phase_tenant`, in the same order and at the same
/// logical times, sent in a twin world: the answers are recorded, nothing
/// else is examined.
async fn phase_tenant_observe(cx: &mut Ctx<'_>, w: &mut World, d: usize, ps: &[Principal], ts: &[Target], records: &mut Vec<TenantRecord>) {
    let m = cx.model;
    let Some(p) = ps.iter().find(|p| p.kind == "bound-key" && m.holder_of(p.token.as_deref()) == Some(d)) else { return };
    let own: Vec<&Target> = ts.iter().filter(|t| access(m, p, t) == Access::Scoped(d)).collect();
    let bs = bodies(cx.tables);
    let victim = 1 - d;
    let mut cell_no: u64 = 0;
    for (bi, b) in bs.iter().enumerate() {
        for enc in [Enc::Cbor, Enc::Json] {
            for t in &own {
                let req = cx.prepared.request(bi, &t.path, p.auth.clone(), enc, victim);
                cell_no += 1;
                anda_db_utils::verif::set_clock(Some((1_900_000_000_000 + cell_no * 1_000, 1)));
                let (resp, _) = w.send(&req).await;
                cx.rep.add("evaluations", 1);
                cx.rep.add("cells_tenant_twin", 1);
                records.push(TenantRecord {
                    label: format!("POST {} {} {} {:?}", t.path, enc.as_str(), b.label, b.variant()),
                    req,
                    resp,
                });
            }
        }
    }
}

async fn phase_admin(cx: &mut Ctx<'_>, w: &mut World, ps: &[Principal], ts: &[Target], bs: &[Body]) {
    let m = cx.model;
    let phase = "admin";
    // On a loopback instance every caller is admin and the principal
    // dimension is degenerate: four header shapes stand for it.
    let loopback_subset = ["none", "garbage", "malformed:non-utf8", "admin"];
    let admins: Vec<&Principal> = ps
        .iter()
        .filter(|p| m.is_admin_token(p.token.as_deref()))
        .filter(|p| m.admin || loopback_subset.contains(&p.label.as_str()))
        .collect();
    // when an admin key is configured there is exactly one admin principal;
    // on a loopback instance every principal is admin: the first one (no
    // credential at all) runs every body, the others only the non-mutating ones
    for (ai, p) in admins.iter().enumerate() {
        let p: &Principal = p;
        for (bi, b) in bs.iter().enumerate() {
            for enc in [Enc::Cbor, Enc::Json] {
                for t in ts.iter().filter(|t| !t.path_level) {
                    let effect = b.method().and_then(|n| effect_at(cx.tables, t, n));
                    if ai > 0 && effect == Some(Effect::Mutating) {
                        continue;
                    }
                    if t.focused && !in_focus(b) {
                        continue;
                    }
                    let tclass = t.class(m, None);
                    let req = cx.prepared.request(bi, &t.path, p.auth.clone(), enc, 1);
                    let (resp, trace) = w.send(&req).await;
                    cx.rep.add("evaluations", 1);
                    cx.rep.add("cells_admin", 1);
                    // db.set_api_key must be refused for the primary database,
                    // for a database that does not exist and on a keyless
                    // instance — in the generated-key form exactly as in the
                    // explicit form
                    if t.kind == TargetKind::Root
                        && resp.status == 200
                        && let BodyKind::Method { name, variant } = &b.kind
                        && name == "db.set_api_key"
                        && let Some((form, i)) = match variant {
                            Variant::GenKeyFor(i) => Some(("generated", *i)),
                            Variant::ExplicitKeyFor(i) => Some(("explicit", *i)),
                            _ => None,
                        }
                    {
                        let why = if !m.admin {
                            Some("keyless-instance")
                        } else if NAMED_CLASS[i] != "tenant" {
                            Some(NAMED_CLASS[i])
                        } else {
                            None
                        };
                        if let Some(why) = why {
                            // what the handed-out / bound key then reaches
                            let key = resp
                                .result()
                                .and_then(|r| r.get("api_key").and_then(|k| k.as_str().map(|s| s.to_string())))
                                .unwrap_or_else(|| "explicit-key-2718".to_string());
                            let probe = rpc(&format!("/{}", named(i)), Auth::Bearer(key), Enc::Json, "db.metadata", Value::Null);
                            let (presp, _) = w.send(&probe).await;
                            cx.violate(
                                format!("C14|set-api-key-not-refused|{form}|{why}"),
                                format!(
                                    "db.set_api_key ({form} key) for `{}` is accepted; the key then gets {} for db.metadata on it",
                                    named(i), presp.status
                                ),
                                phase,
                                p,
                                t,
                                Some(enc),
                                Some(b),
                                &req,
                                &resp,
                                json!({"probe_with_the_key": {"request": probe.to_json(), "response": presp.to_json()}}),
                            );
                        }
                    }
                    cx.distinct("admin", p, &tclass, Some(enc), Some(b));
                    maybe_sample(cx, phase, p, t, enc, b, &resp, &trace);
                    if resp.status == 200
                        && b.variant() == Some(Variant::Minimal)
                        && let Some(n) = b.method()
                    {
                        cx.rep.ok_methods.insert(n.to_string());
                    }
                    if resp.status == 401 || resp.status == 403 {
                        cx.violate(
                            format!("C14|admin-rejected|{}", t.sig_class(m, None)),
                            "an admin principal is rejected".into(),
                            phase,
                            p,
                            t,
                            Some(enc),
                            Some(b),
                            &req,
                            &resp,
                            Value::Null,
                        );
                    }
                    if effect == Some(Effect::Read) {
                        cx.rep.add("read_cells_checked", 1);
                        if !trace.mutations.is_empty() {
                            cx.violate(
                                format!("C14|read-writes|{}|{}", b.label, status_label(m, t)),
                                format!("a method classified Read wrote to storage: {:?}", trace.mutations),
                                phase,
                                p,
                                t,
                                Some(enc),
                                Some(b),
                                &req,
                                &resp,
                                calls_json(&trace),
                            );
                        }
                    }
                    // the scraped tables must agree with the server
                    if let BodyKind::Method { name, .. } = &b.kind {
                        let unknown_to_server = resp.error_code().as_deref() == Some("method_not_found");
                        if effect.is_some() == unknown_to_server {
                            cx.rep.machinery.push(format!(
                                "method table scrape disagrees with the server: `{name}` on {} is {} in the scraped table but the server answered {} {:?}",
                                t.path,
                                if effect.is_some() { "present" } else { "absent" },
                                resp.status,
                                resp.error_code()
                            ));
                        }
                    }
                }
            }
        }
    }
}

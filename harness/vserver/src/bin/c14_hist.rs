//! C14 part `hist` — HIST + SCOPE: breadth-first search over control-plane
//! event histories; at every reached state the complete request matrix
//! (route × method of both tables + unknown names × principal × encoding ×
//! target × params variant + body probes) on the real router, against the
//! reference model of the documented authorization rules.

use serde_json::{Value, json};
use std::collections::{BTreeMap, BTreeSet};
use std::sync::atomic::{AtomicBool, Ordering};
use vcore::{Run, report::machinery, util};
use vserver::matrix::{Report, Select, history_json, run_state};
use vserver::model::{Event, Model, Root};
use vserver::table::{self, Tables};
use vserver::world::runtime;

fn run_one(tables: &Tables, root: Root, history: &[Event], select: &Select) -> Report {
    anda_db_utils::verif::set_clock(Some((1_700_000_000_000, 1)));
    let rt = runtime();
    let rep = rt.block_on(run_state(tables, root, history, select));
    drop(rt);
    rep
}

fn main() {
    let mut run = Run::from_args("C14", "hist", "model_checking");
    let tables = match table::scrape() {
        Ok(t) => t,
        Err(e) => machinery(&format!("cannot scrape the method tables from {}: {e}", table::API_MOD_PATH)),
    };

    if let Some(file) = run.replay_file.clone() {
        let doc: Value = serde_json::from_slice(&std::fs::read(&file).unwrap_or_else(|e| machinery(&format!("read {file:?}: {e}"))))
            .unwrap_or_else(|e| machinery(&format!("parse {file:?}: {e}")));
        let r = &doc["replay"];
        let root = Root::parse(r["root"].as_str().unwrap_or("")).unwrap_or_else(|| machinery("replay: bad root"));
        let history: Vec<Event> = r["history"]
            .as_array()
            .unwrap_or_else(|| machinery("replay: no history"))
            .iter()
            .map(|e| Event::from_json(e).unwrap_or_else(|| machinery("replay: bad event")))
            .collect();
        let select = Select { only_phase: r["phase"].as_str().map(|s| s.to_string()), lite: false };
        let want = doc["signature"].as_str().unwrap_or("").to_string();
        let rep = run_one(&tables, root, &history, &select);
        for m in &rep.machinery {
            eprintln!("machinery: {m}");
        }
        println!("replayed state {} phase {:?}: {} violation(s)", rep.canon, select.only_phase, rep.violation_total);
        let mut hit = false;
        for v in &rep.violations {
            if v.signature == want {
                hit = true;
                println!("{}", serde_json::to_string_pretty(&v.replay).unwrap());
            }
        }
        if !hit {
            println!("signature {want} did not reproduce");
        }
        for (k, v) in &rep.counters {
            run.add(k, *v);
        }
        for v in rep.violations {
            if v.signature == want {
                run.violation(v);
            }
        }
        run.finish();
    }

    let max_depth: usize = std::env::var("C14_DEPTH").ok().and_then(|s| s.parse().ok()).unwrap_or(run.tier.pick(2, 8));
    let roots = [Root::Admin, Root::Loopback, Root::AdminAB, Root::AdminA];
    let select = Select { only_phase: None, lite: run.tier == vcore::Tier::Quick };
    let threads = util::n_threads();

    let mut visited: BTreeSet<String> = BTreeSet::new();
    let mut frontier: Vec<(Root, Vec<Event>, Model)> = Vec::new();
    for root in roots {
        let m = Model::of_root(root);
        if visited.insert(m.canon()) {
            frontier.push((root, vec![], m));
        }
    }
    let mut ok_methods: BTreeSet<String> = BTreeSet::new();
    let mut without_params: BTreeSet<String> = BTreeSet::new();
    let mut reject_shapes: BTreeSet<String> = BTreeSet::new();
    let mut path_level_shapes: BTreeSet<String> = BTreeSet::new();
    let mut machinery_msgs: Vec<String> = Vec::new();
    let mut per_depth: Vec<Value> = Vec::new();
    let mut completed_depth: Option<usize> = None;
    let mut samples: BTreeMap<String, Vec<Value>> = BTreeMap::new();
    let deadline_hit = AtomicBool::new(false);

    for depth in 0..=max_depth {
        if !run.in_budget() {
            run.cap_hit(&format!("time budget: stopped before depth {depth} (completed depth {completed_depth:?})"));
            break;
        }
        let t0 = run.elapsed();
        let jobs: Vec<(Root, Vec<Event>)> = frontier.iter().map(|(r, h, _)| (*r, h.clone())).collect();
        let budget_left = run.remaining_s();
        let start = std::time::Instant::now();
        let reports = util::par_map(jobs, threads, |(root, history)| {
            if start.elapsed().as_secs_f64() > budget_left {
                deadline_hit.store(true, Ordering::Relaxed);
                return None;
            }
            Some(run_one(&tables, root, &history, &select))
        });
        let mut evals = 0;
        let mut skipped = 0;
        for rep in reports {
            let Some(rep) = rep else {
                skipped += 1;
                continue;
            };
            run.add("states", 1);
            run.add("traces_validated_against_impl", rep.counters.get(&"worlds_built").copied().unwrap_or(0));
            evals += rep.counters.get(&"evaluations").copied().unwrap_or(0);
            ok_methods.extend(rep.ok_methods.iter().cloned());
            without_params.extend(rep.methods_without_params.iter().cloned());
            reject_shapes.extend(rep.reject_shapes.iter().cloned());
            path_level_shapes.extend(rep.path_level_shapes.iter().cloned());
            machinery_msgs.extend(rep.machinery.iter().cloned());
            if !rep.samples.is_empty() {
                samples.entry(rep.canon.clone()).or_default().extend(rep.samples.iter().cloned());
            }
            rep.merge_into(&mut run);
        }
        if skipped > 0 {
            run.cap_hit(&format!("time budget: {skipped} of {} states at depth {depth} not examined", frontier.len()));
        } else {
            completed_depth = Some(depth);
        }
        // expand (model only; every new state's history is executed on the
        // real server when its matrix runs, and each event's outcome and the
        // resulting control state are compared with the model there)
        let mut next = Vec::new();
        let mut transitions = 0u64;
        if depth < max_depth {
            for (root, history, m) in &frontier {
                for e in Event::all() {
                    if !m.enabled(e) {
                        continue;
                    }
                    transitions += 1;
                    let mut m2 = m.clone();
                    m2.apply(e);
                    if visited.insert(m2.canon()) {
                        let mut h = history.clone();
                        h.push(e);
                        next.push((*root, h, m2));
                    }
                }
            }
        }
        run.add("transitions", transitions);
        per_depth.push(json!({"depth": depth, "states": frontier.len(), "requests": evals, "enabled_events_expanded": transitions, "wall_s": run.elapsed() - t0}));
        eprintln!("depth {depth}: {} states, {evals} requests, {:.1}s", frontier.len(), run.elapsed() - t0);
        frontier = next;
        if frontier.is_empty() || skipped > 0 {
            break;
        }
    }

    run.set("per_depth", json!(per_depth));
    run.set("completed_depth", json!(completed_depth));
    run.set("max_depth", json!(max_depth));
    run.set("methods_root", json!(tables.root.iter().map(|(k, v)| format!("{k}:{}", v.as_str())).collect::<Vec<_>>()));
    run.set("methods_db", json!(tables.db.iter().map(|(k, v)| format!("{k}:{}", v.as_str())).collect::<Vec<_>>()));
    run.set("distinct_rejection_responses", json!(reject_shapes));
    run.set("path_level_answers", json!(path_level_shapes));
    if !without_params.is_empty() {
        run.cap_hit(&format!("methods without hand-written params (sent with generic params): {without_params:?}"));
    }
    // positive control: every method of both tables answered 200 at least once
    // to an authorized caller with the minimal params, i.e. the cells are
    // well-formed requests and not rejected for a trivial reason
    let never_ok: Vec<&String> =
        tables.root.keys().chain(tables.db.keys()).filter(|n| !ok_methods.contains(*n) && !without_params.contains(*n)).collect();
    run.set("methods_answered_200_to_an_authorized_caller", json!(ok_methods.len()));
    // samples: prefer the state where both databases have a key
    let mut picked = 0;
    for (canon, list) in samples.iter().filter(|(c, _)| c.contains("A:open-warm:k1") && c.contains("B:open-warm:k1")).chain(samples.iter()) {
        for s in list {
            if picked < 6 {
                run.sample(s.clone());
                picked += 1;
            }
        }
        let _ = canon;
    }
    run.rule(
        "BFS over control-plane event histories {create A/B with/without key, set_api_key, remove_api_key, close, open, connect, restart} \
         from four roots (admin key; no admin key; admin key + A and B with keys; admin key + A with the only key), states merged by canonical control state \
         (per database: absent/open-warm/open-cold/closed, bound token, tokens issued). At every state the full matrix \
         GET / + POST / + POST /{11 target spellings} x every method of both scraped tables and 3 unknown names x {minimal, malformed params} \
         + 6 body probes x {CBOR, JSON} x every principal (none, 3 garbage, 3 malformed headers, admin, every issued token and one unissued per database, \
         hash of the bound token; plus, with a 6-body subset, constructed near misses of every existing key (admin, bound, revoked): garbage tokens whose SHA3-256 digest agrees with the key's digest in the last byte / first byte / first 2 / last 2 bytes, the key minus its last character, the key plus one character, the hex of its digest; quick tier: 1 garbage and 1 malformed header, and minimal-params bodies + probes only on the two path-level targets) is sent through build_router(..).oneshot on fresh replays of the history. distinct = (access class, principal kind, \
         target class incl. database status/binding, encoding, body, variant)",
    );
    run.assume("the object store is CtlStore over InMemory; one request at a time (no concurrent requests); response headers, status and body are the whole observable (no timing)");
    run.assume("histories that reach the same canonical control state are merged: the first-reached history is the one executed on the server (its event outcomes, db.list and the persisted key hashes are compared with the model)");
    run.assume("effect labels are read from the source text of RootMethod::parse / DbMethod::parse (checked against the server's method_not_found answers)");
    run.assume("on a loopback instance (every caller is admin) the admin phase uses four principals (none, garbage, non-UTF-8 header, the admin token) and mutating methods are sent by the first of them only");
    if !machinery_msgs.is_empty() && run.violation_count() == 0 {
        for m in machinery_msgs.iter().take(10) {
            eprintln!("MACHINERY: {m}");
        }
        machinery(&format!("{} model/harness inconsistencies, first: {}", machinery_msgs.len(), machinery_msgs[0]));
    }
    if !never_ok.is_empty() && run.violation_count() == 0 && completed_depth.is_some() {
        machinery(&format!("positive control failed: methods never answered 200 to an authorized minimal request: {never_ok:?}"));
    }
    let _ = history_json;
    run.finish();
}

//! C14 part `hist` — HIST + SCOPE: breadth-first search over control-plane
//! event histories; at every reached state the complete request matrix
//! (route × method of both tables + unknown names × principal × encoding ×
//! target × params variant + body probes) on the real router, against the
//! reference model of the documented authorization rules.

use serde_json::{Value, json};
use std::collections::{BTreeMap, BTreeSet};
use std::sync::atomic::{AtomicBool, Ordering};
use vcore::{Run, report::machinery, util};
use vserver::matrix::{Report, Select, history_json, run_state};
use vserver::model::{Event, Model, Root};
use vserver::names::{self, Names};
use vserver::table::{self, Tables};
use vserver::world::runtime;

fn run_one(tables: &Tables, names: Names, root: Root, history: &[Event], select: &Select) -> Report {
    anda_db_utils::verif::set_clock(Some((1_700_000_000_000, 1)));
    names::install(names);
    let rt = runtime();
    let rep = rt.block_on(run_state(tables, root, history, select));
    drop(rt);
    rep
}

/// Every control state reachable from `roots` in at most `depth` enabled
/// events (merged by canonical control state), with the first history found.
fn states_to_depth(roots: &[Root], depth: usize) -> Vec<(Root, Vec<Event>)> {
    let mut visited: BTreeSet<String> = BTreeSet::new();
    let mut frontier: Vec<(Root, Vec<Event>, Model)> = Vec::new();
    for root in roots {
        let m = Model::of_root(*root);
        if visited.insert(m.canon()) {
            frontier.push((*root, vec![], m));
        }
    }
    let mut out: Vec<(Root, Vec<Event>)> = Vec::new();
    for d in 0..=depth {
        out.extend(frontier.iter().map(|(r, h, _)| (*r, h.clone())));
        if d == depth {
            break;
        }
        let mut next = Vec::new();
        for (root, history, m) in &frontier {
            for e in Event::all() {
                if !m.enabled(e) {
                    continue;
                }
                let mut m2 = m.clone();
                m2.apply(e);
                if visited.insert(m2.canon()) {
                    let mut h = history.clone();
                    h.push(e);
                    next.push((*root, h, m2));
                }
            }
        }
        frontier = next;
    }
    out
}

fn main() {
    let mut run = Run::from_args("C14", "hist", "model_checking");
    let tables = match table::scrape() {
        Ok(t) => t,
        Err(e) => machinery(&format!("cannot scrape the method tables from {}: {e}", table::API_MOD_PATH)),
    };

    if let Some(file) = run.replay_file.clone() {
        let doc: Value = serde_json::from_slice(&std::fs::read(&file).unwrap_or_else(|e| machinery(&format!("read {file:?}: {e}"))))
            .unwrap_or_else(|e| machinery(&format!("parse {file:?}: {e}")));
        let r = &doc["replay"];
        let root = Root::parse(r["root"].as_str().unwrap_or("")).unwrap_or_else(|| machinery("replay: bad root"));
        // (a replay file written before the name universe was parameterised has no `names`)
        let universe = match r["names"].as_str() {
            Some(label) => names::shape(label).unwrap_or_else(|| machinery("replay: unknown name universe")),
            None => names::shapes()[0],
        };
        names::install(universe);
        let history: Vec<Event> = r["history"]
            .as_array()
            .unwrap_or_else(|| machinery("replay: no history"))
            .iter()
            .map(|e| Event::from_json(e).unwrap_or_else(|| machinery("replay: bad event")))
            .collect();
        let select = Select { only_phase: r["phase"].as_str().map(|s| s.to_string()), lite: false, focus_reject: false };
        let want = doc["signature"].as_str().unwrap_or("").to_string();
        let rep = run_one(&tables, universe, root, &history, &select);
        for m in &rep.machinery {
            eprintln!("machinery: {m}");
        }
        println!("replayed state {} phase {:?}: {} violation(s)", rep.canon, select.only_phase, rep.violation_total);
        let mut hit = false;
        for v in &rep.violations {
            if v.signature == want {
                hit = true;
                println!("{}", serde_json::to_string_pretty(&v.replay).unwrap());
            }
        }
        if !hit {
            println!("signature {want} did not reproduce");
        }
        for (k, v) in &rep.counters {
            run.add(k, *v);
        }
        for v in rep.violations {
            if v.signature == want {
                run.violation(v);
            }
        }
        run.finish();
    }

    let max_depth: usize = std::env::var("C14_DEPTH").ok().and_then(|s| s.parse().ok()).unwrap_or(run.tier.pick(2, 8));
    let roots = [Root::Admin, Root::Loopback, Root::AdminAB, Root::AdminA];
    let select = Select { only_phase: None, lite: run.tier == vcore::Tier::Quick, focus_reject: false };
    let default_names = names::shapes()[0];
    let threads = util::n_threads();

    let mut visited: BTreeSet<String> = BTreeSet::new();
    let mut frontier: Vec<(Root, Vec<Event>, Model)> = Vec::new();
    for root in roots {
        let m = Model::of_root(root);
        if visited.insert(m.canon()) {
            frontier.push((root, vec![], m));
        }
    }
    let mut ok_methods: BTreeSet<String> = BTreeSet::new();
    let mut without_params: BTreeSet<String> = BTreeSet::new();
    let mut reject_shapes: BTreeSet<String> = BTreeSet::new();
    let mut path_level_shapes: BTreeSet<String> = BTreeSet::new();
    let mut machinery_msgs: Vec<String> = Vec::new();
    let mut per_depth: Vec<Value> = Vec::new();
    let mut completed_depth: Option<usize> = None;
    let mut samples: BTreeMap<String, Vec<Value>> = BTreeMap::new();
    let deadline_hit = AtomicBool::new(false);

    // ---- namespace pass: the other name universes. The event BFS below runs
    // in the default universe (`prefix`); here every other universe is taken
    // through every control state reachable in <= ns_depth events from the two
    // roots that hold a tenant binding, with the complete tenant / twin /
    // admin worlds and the reject world on the focused body subset.
    let ns_depth: usize = std::env::var("C14_NS_DEPTH").ok().and_then(|s| s.parse().ok()).unwrap_or(run.tier.pick(1, 2));
    let ns_states = states_to_depth(&[Root::AdminAB, Root::AdminA], ns_depth);
    let ns_select = Select { only_phase: None, lite: run.tier == vcore::Tier::Quick, focus_reject: true };
    let ns_jobs: Vec<(Names, Root, Vec<Event>)> = names::shapes()[1..]
        .iter()
        .flat_map(|n| ns_states.iter().map(move |(r, h)| (*n, *r, h.clone())))
        .collect();
    let ns_total = ns_jobs.len();
    let mut ns_per_shape: BTreeMap<&'static str, (u64, u64)> = BTreeMap::new();
    {
        let t0 = run.elapsed();
        let budget_left = run.remaining_s();
        let start = std::time::Instant::now();
        let reports = util::par_map(ns_jobs, threads, |(n, root, history)| {
            if start.elapsed().as_secs_f64() > budget_left {
                return None;
            }
            Some((n.label, run_one(&tables, n, root, &history, &ns_select)))
        });
        let mut skipped = 0;
        let mut evals = 0;
        for rep in reports {
            let Some((label, rep)) = rep else {
                skipped += 1;
                continue;
            };
            run.add("states", 1);
            run.add("namespace_states", 1);
            run.add("traces_validated_against_impl", rep.counters.get(&"worlds_built").copied().unwrap_or(0));
            let e = rep.counters.get(&"evaluations").copied().unwrap_or(0);
            evals += e;
            let slot = ns_per_shape.entry(label).or_insert((0, 0));
            slot.0 += 1;
            slot.1 += e;
            ok_methods.extend(rep.ok_methods.iter().cloned());
            without_params.extend(rep.methods_without_params.iter().cloned());
            reject_shapes.extend(rep.reject_shapes.iter().cloned());
            machinery_msgs.extend(rep.machinery.iter().map(|m| format!("[names {label}] {m}")));
            rep.merge_into(&mut run);
        }
        if skipped > 0 {
            run.cap_hit(&format!("time budget: {skipped} of {ns_total} (name universe, control state) pairs of the namespace pass not examined"));
        }
        eprintln!("namespace pass: {} universes x {} states, {evals} requests, {:.1}s", names::shapes().len() - 1, ns_states.len(), run.elapsed() - t0);
        run.set(
            "namespace_pass",
            json!({
                "depth": ns_depth,
                "control_states": ns_states.len(),
                "wall_s": run.elapsed() - t0,
                "universes": names::shapes().iter().map(|n| json!({
                    "label": n.label, "relation": n.relation, "primary": n.primary, "A": n.dbs[0], "B": n.dbs[1], "missing": n.missing,
                    "states": ns_per_shape.get(n.label).map(|x| x.0), "requests": ns_per_shape.get(n.label).map(|x| x.1),
                    "used_by": if n.label == default_names.label { "the whole event BFS (and the parts reads, faults, race)" } else { "namespace pass" },
                })).collect::<Vec<_>>(),
            }),
        );
    }

    for depth in 0..=max_depth {
        if !run.in_budget() {
            run.cap_hit(&format!("time budget: stopped before depth {depth} (completed depth {completed_depth:?})"));
            break;
        }
        let t0 = run.elapsed();
        let jobs: Vec<(Root, Vec<Event>)> = frontier.iter().map(|(r, h, _)| (*r, h.clone())).collect();
        let budget_left = run.remaining_s();
        let start = std::time::Instant::now();
        let reports = util::par_map(jobs, threads, |(root, history)| {
            if start.elapsed().as_secs_f64() > budget_left {
                deadline_hit.store(true, Ordering::Relaxed);
                return None;
            }
            Some(run_one(&tables, default_names, root, &history, &select))
        });
        let mut evals = 0;
        let mut skipped = 0;
        for rep in reports {
            let Some(rep) = rep else {
                skipped += 1;
                continue;
            };
            run.add("states", 1);
            run.add("traces_validated_against_impl", rep.counters.get(&"worlds_built").copied().unwrap_or(0));
            evals += rep.counters.get(&"evaluations").copied().unwrap_or(0);
            ok_methods.extend(rep.ok_methods.iter().cloned());
            without_params.extend(rep.methods_without_params.iter().cloned());
            reject_shapes.extend(rep.reject_shapes.iter().cloned());
            path_level_shapes.extend(rep.path_level_shapes.iter().cloned());
            machinery_msgs.extend(rep.machinery.iter().cloned());
            if !rep.samples.is_empty() {
                samples.entry(rep.canon.clone()).or_default().extend(rep.samples.iter().cloned());
            }
            rep.merge_into(&mut run);
        }
        if skipped > 0 {
            run.cap_hit(&format!("time budget: {skipped} of {} states at depth {depth} not examined", frontier.len()));
        } else {
            completed_depth = Some(depth);
        }
        // expand (model only; every new state's history is executed on the
        // real server when its matrix runs, and each event's outcome and the
        // resulting control state are compared with the model there)
        let mut next = Vec::new();
        let mut transitions = 0u64;
        if depth < max_depth {
            for (root, history, m) in &frontier {
                for e in Event::all() {
                    if !m.enabled(e) {
                        continue;
                    }
                    transitions += 1;
                    let mut m2 = m.clone();
                    m2.apply(e);
                    if visited.insert(m2.canon()) {
                        let mut h = history.clone();
                        h.push(e);
                        next.push((*root, h, m2));
                    }
                }
            }
        }
        run.add("transitions", transitions);
        per_depth.push(json!({"depth": depth, "states": frontier.len(), "requests": evals, "enabled_events_expanded": transitions, "wall_s": run.elapsed() - t0}));
        eprintln!("depth {depth}: {} states, {evals} requests, {:.1}s", frontier.len(), run.elapsed() - t0);
        frontier = next;
        if frontier.is_empty() || skipped > 0 {
            break;
        }
    }

    run.set("per_depth", json!(per_depth));
    run.set("completed_depth", json!(completed_depth));
    run.set("max_depth", json!(max_depth));
    run.set("methods_root", json!(tables.root.iter().map(|(k, v)| format!("{k}:{}", v.as_str())).collect::<Vec<_>>()));
    run.set("methods_db", json!(tables.db.iter().map(|(k, v)| format!("{k}:{}", v.as_str())).collect::<Vec<_>>()));
    run.set("distinct_rejection_responses", json!(reject_shapes));
    run.set("path_level_answers", json!(path_level_shapes));
    if !without_params.is_empty() {
        run.cap_hit(&format!("methods without hand-written params (sent with generic params): {without_params:?}"));
    }
    // positive control: every method of both tables answered 200 at least once
    // to an authorized caller with the minimal params, i.e. the cells are
    // well-formed requests and not rejected for a trivial reason
    let never_ok: Vec<&String> =
        tables.root.keys().chain(tables.db.keys()).filter(|n| !ok_methods.contains(*n) && !without_params.contains(*n)).collect();
    run.set("methods_answered_200_to_an_authorized_caller", json!(ok_methods.len()));
    // samples: prefer the state where both databases have a key
    let mut picked = 0;
    for (canon, list) in samples.iter().filter(|(c, _)| c.contains("A:open-warm:k1") && c.contains("B:open-warm:k1")).chain(samples.iter()) {
        for s in list {
            if picked < 6 {
                run.sample(s.clone());
                picked += 1;
            }
        }
        let _ = canon;
    }
    run.rule(
        "BFS over control-plane event histories {create A/B with/without key, set_api_key, remove_api_key, close, open, connect, restart} \
         from four roots (admin key; no admin key; admin key + A and B with keys; admin key + A with the only key), states merged by canonical control state \
         (per database: absent/open-warm/open-cold/closed, bound token, tokens issued). At every state the full matrix \
         GET / + POST / + POST /{11 target spellings} x every method of both scraped tables and 3 unknown names x {minimal, malformed params} \
         + 6 body probes x {CBOR, JSON} x every principal (none, 3 garbage, 3 malformed headers, admin, every issued token and one unissued per database, \
         hash of the bound token; plus, with a 6-body subset, constructed near misses of every existing key (admin, bound, revoked): garbage tokens whose SHA3-256 digest agrees with the key's digest in the last byte / first byte / first 2 / last 2 bytes, the key minus its last character, the key plus one character, the hex of its digest; quick tier: 1 garbage and 1 malformed header, and minimal-params bodies + probes only on the two path-level targets) is sent through build_router(..).oneshot on fresh replays of the history. distinct = (access class, principal kind, \
         target class incl. database status/binding, encoding, body, variant). \
         NAMES: every world lives in a name universe (primary, A, B, missing) that is adversarial for string handling: the event BFS runs in `prefix` \
         (A `acme` is a proper prefix of B `acme_eu`, the missing name `acme_e` lies between them); the namespace pass takes the six other universes \
         (proper suffix; inner substring; names differing only in a separator `ac_me`/`acme`; the primary's name as prefix of A and suffix of B; A's / B's name as \
         prefix / suffix of the primary's; 63/64-byte names with a 65-byte missing name) through every control state within 1 (thorough 2) events of the two roots \
         that hold a binding, with complete tenant / twin / admin worlds and the reject world on a 6-body subset. Every universe adds 8 near spellings of each \
         tenant name as targets (upper case, capitalised, truncated, extended by `_`, separator removed/inserted, double percent-encoded, trailing %20, trailing %00; 6-body subset). \
         CONTENT: a tenant's answers are scanned leftmost-longest for every name, marker, token and hash it must not see (its own name is skipped as a whole, so `acme` \
         inside `acme_eu` is told apart from `acme`), and compared byte for byte with two twin worlds: one where only the other database's content differs, one where \
         the other database was never created and the primary database has another name. VERBS: GET (except `GET /`), PUT, DELETE, PATCH, HEAD, OPTIONS on every \
         target x every credential: not served on a database route, no store call, same bytes for every credential and as for a database that never existed. \
         ENCODING: besides CBOR/JSON bodies, Accept naming the other encoding, an unusable Accept, and a case/parameter variant of the content type",
    );
    run.assume("logical clock: every control event starts at its own fixed logical time and the clock stands still during a restart event, every tenant cell starts at its own fixed time: timestamps inside a database depend on that database's requests only (needed to compare twin worlds byte for byte; real-time skew between tenants is not observed)");
    run.assume("the object store is CtlStore over InMemory; one request at a time (no concurrent requests); response headers, status and body are the whole observable (no timing)");
    run.assume("histories that reach the same canonical control state are merged: the first-reached history is the one executed on the server (its event outcomes, db.list and the persisted key hashes are compared with the model)");
    run.assume("effect labels are read from the source text of RootMethod::parse / DbMethod::parse (checked against the server's method_not_found answers)");
    run.assume("on a loopback instance (every caller is admin) the admin phase uses four principals (none, garbage, non-UTF-8 header, the admin token) and mutating methods are sent by the first of them only");
    if !machinery_msgs.is_empty() && run.violation_count() == 0 {
        for m in machinery_msgs.iter().take(10) {
            eprintln!("MACHINERY: {m}");
        }
        machinery(&format!("{} model/harness inconsistencies, first: {}", machinery_msgs.len(), machinery_msgs[0]));
    }
    if !never_ok.is_empty() && run.violation_count() == 0 && completed_depth.is_some() {
        machinery(&format!("positive control failed: methods never answered 200 to an authorized minimal request: {never_ok:?}"));
    }
    let _ = history_json;
    run.finish();
}

//! C14 part `faults` — control-plane events under storage faults are
//! all-or-nothing for every credential.
//!
//! For every control state reached by the event BFS to a small depth, for
//! every enabled control-plane event that writes (create with/without key,
//! set_api_key, remove_api_key, close, open, connect), for every backend
//! mutation the event performs and for both fault answers (`ErrBefore`:
//! nothing lands; `ErrAfter`: the write lands, an error is returned): a fresh
//! server replays the history, the event is sent with that one mutation
//! faulted, then every credential (none, garbage, every token ever issued for
//! A and B, the token the event mentions, one unissued) is tried on `POST /`,
//! `/A`, `/B` and a missing database — live, and again after a restart.
//!
//! Oracle: the vector of answers equals the vector the reference model gives
//! for the control state BEFORE the event or for the state AFTER it (after
//! only, when the event answered 200) — never a third state such as "binding
//! exists, database does not". Further: (a) an event that answered an error
//! while none of its backend mutations landed changed nothing for any
//! credential; (b) the live instance and the gracefully restarted one are the
//! same model state; (c) on a second fresh replay the faulted event is
//! repeated fault-free, the store is powered off (no graceful close) and a new
//! instance started: a retry that was acknowledged (2xx) holds, live and after
//! the power failure.

use serde_json::{Value, json};
use std::collections::BTreeSet;
use vcore::ctlstore::Answer;
use vcore::{Run, Violation, report::machinery, util};
use vserver::cells::{Principal, Target, TargetKind, access, nowhere, principals, targets};
use vserver::matrix::build_world;
use vserver::model::{Access, Event, Model, Root, Status, token};
use vserver::names::dbn;
use vserver::world::{Enc, Resp, World, admin_auth, rpc, runtime};

fn event_request(m: &Model, e: Event) -> Option<(&'static str, Value)> {
    Some(match e {
        Event::Create { db, key } => {
            let mut p = json!({"name": dbn(db)});
            if key {
                p["api_key"] = json!(token(db, m.dbs[db].issued + 1));
            }
            ("db.create", p)
        }
        Event::SetKey { db } => ("db.set_api_key", json!({"name": dbn(db), "api_key": token(db, m.dbs[db].issued + 1)})),
        Event::RemoveKey { db } => ("db.remove_api_key", json!({"name": dbn(db)})),
        Event::Close { db } => ("db.close", json!({"name": dbn(db)})),
        Event::Open { db } => ("db.open", json!({"name": dbn(db)})),
        Event::Connect { db } => ("db.connect", json!({"name": dbn(db)})),
        Event::SetKeyGen { .. } | Event::Restart => return None,
    })
}

fn event_kind(e: Event) -> &'static str {
    match e {
        Event::Create { key: true, .. } => "create-with-key",
        Event::Create { key: false, .. } => "create",
        Event::SetKey { .. } => "set_api_key",
        Event::SetKeyGen { .. } => "set_api_key_generated",
        Event::RemoveKey { .. } => "remove_api_key",
        Event::Close { .. } => "close",
        Event::Open { .. } => "open",
        Event::Connect { .. } => "connect",
        Event::Restart => "restart",
    }
}

#[derive(Clone, Debug)]
struct Base {
    root: Root,
    history: Vec<Event>,
    model: Model,
}

#[derive(Clone, Debug)]
struct Job {
    base: Base,
    event: Event,
    /// None: dry run that counts the event's mutations
    fault: Option<(u64, bool)>,
}

/// What one credential got on one target: `reject` (byte-identical to its
/// answer for a nonexistent database, 401/403) or the status code.
type Vector = Vec<(String, String, String)>;

fn probe_principals(after: &Model) -> Vec<Principal> {
    principals(after)
        .into_iter()
        .filter(|p| matches!(p.kind, "none" | "bound-key" | "revoked-key" | "unissued-key") || p.label == "garbage")
        .collect()
}

fn probe_targets() -> Vec<Target> {
    targets().into_iter().filter(|t| matches!(t.kind, TargetKind::Root | TargetKind::Db(_) | TargetKind::Missing)).collect()
}

async fn observe(w: &mut World, ps: &[Principal], ts: &[Target], evals: &mut u64) -> Vector {
    let mut out = Vec::new();
    let nowhere = nowhere();
    for p in ps {
        let (rref, _) = w.send(&rpc(&nowhere.path, p.auth.clone(), Enc::Cbor, "info", Value::Null)).await;
        *evals += 1;
        for t in ts {
            let (resp, _): (Resp, _) = w.send(&rpc(&t.path, p.auth.clone(), Enc::Cbor, "info", Value::Null)).await;
            *evals += 1;
            let class = if resp == rref && (resp.status == 401 || resp.status == 403) {
                "reject".to_string()
            } else {
                resp.status.to_string()
            };
            out.push((p.label.clone(), t.path.clone(), class));
        }
    }
    out
}

/// The vector the model gives for control state `m` (admin cells excluded by
/// the principal choice).
fn expect(m: &Model, ps: &[Principal], ts: &[Target]) -> Vector {
    let mut out = Vec::new();
    for p in ps {
        for t in ts {
            let class = match access(m, p, t) {
                Access::Scoped(d) => match m.dbs[d].status {
                    Status::OpenWarm | Status::OpenCold => "200",
                    Status::Closed => "404",
                    Status::Absent => "impossible",
                },
                Access::Reject => "reject",
                _ => "n/a",
            };
            out.push((p.label.clone(), t.path.clone(), class.to_string()));
        }
    }
    out
}

fn diff(observed: &Vector, expected: &Vector) -> Vec<String> {
    observed
        .iter()
        .zip(expected.iter())
        .filter(|(o, e)| e.2 != "n/a" && o.2 != e.2)
        .map(|(o, e)| format!("{} on POST {}: got {}, state says {}", o.0, o.1, o.2, e.2))
        .collect()
}

struct Outcome {
    job: Job,
    mutations: u64,
    worlds: u64,
    evals: u64,
    event_status: u16,
    /// (stage, differences to BEFORE, differences to AFTER)
    third_states: Vec<(&'static str, Vec<String>, Vec<String>)>,
    error: Option<String>,
    restart_failed: bool,
    /// Backend mutations of the faulted event that landed in the store.
    landed: u64,
    /// Further findings: (signature tail, description, detail)
    issues: Vec<(String, String, Value)>,
}

/// Which of the two model states an observed answer vector equals.
fn which(v: &Vector, before: &Model, after: &Model, ps: &[Principal], ts: &[Target]) -> &'static str {
    let b = diff(v, &expect(before, ps, ts)).is_empty();
    let a = diff(v, &expect(after, ps, ts)).is_empty();
    match (b, a) {
        (true, true) => "both",
        (true, false) => "before",
        (false, true) => "after",
        (false, false) => "neither",
    }
}

/// The retry stage: faulted event, the same event again without a fault,
/// then a power failure (no graceful close) and a new instance. An
/// acknowledged (2xx) retry must hold, live and after the power failure.
fn run_retry(job: &Job, o: &mut Outcome) {
    let Some((k, land)) = job.fault else { return };
    let rt = runtime();
    let stage1 = rt.block_on(async {
        let (mut w, before, _) = build_world(job.base.root, &job.base.history).await?;
        let mut after = before.clone();
        after.apply(job.event);
        let (method, params) = event_request(&before, job.event).ok_or("event without request")?;
        let m0 = w.ctl.mutation_attempts();
        w.ctl.script(m0 + k, if land { Answer::ErrAfter } else { Answer::ErrBefore });
        let (first, _) = w.send(&rpc("/", admin_auth(&w.admin), Enc::Cbor, method, params.clone())).await;
        w.ctl.reset_faults();
        let (retry, _) = w.send(&rpc("/", admin_auth(&w.admin), Enc::Cbor, method, params)).await;
        let ps = probe_principals(&after);
        let ts = probe_targets();
        let mut evals = 0;
        let live = observe(&mut w, &ps, &ts, &mut evals).await;
        w.ctl.power_off();
        Ok::<_, String>((w.store.clone(), w.ctl.clone(), w.admin.clone(), before, after, ps, ts, first.status, retry, live, evals))
    });
    drop(rt); // the process dies: nothing it spawned runs any more
    let (store, ctl, admin, before, after, ps, ts, first_status, retry, live, evals) = match stage1 {
        Ok(x) => x,
        Err(e) => {
            o.error = Some(format!("retry stage: {e}"));
            return;
        }
    };
    o.worlds += 1;
    o.evals += evals;
    ctl.reset_faults();
    if !(200..300).contains(&retry.status) {
        return; // nothing was acknowledged
    }
    let ev = event_kind(job.event);
    let ans = if land { "ErrAfter" } else { "ErrBefore" };
    let live_is = which(&live, &before, &after, &ps, &ts);
    if !matches!(live_is, "after" | "both") {
        o.issues.push((
            format!("acknowledged-retry-not-applied|{ev}|{ans}|live"),
            format!(
                "the event answered {first_status} under the fault, its fault-free retry answered {} ({}), yet the credentials are answered as in the state `{live_is}` (vs after: {:?})",
                retry.status,
                retry.body_value().map(|v| v.to_string()).unwrap_or_default(),
                diff(&live, &expect(&after, &ps, &ts))
            ),
            json!({"first_status": first_status, "retry": retry.to_json(), "live_equals": live_is}),
        ));
    }
    let rt = runtime();
    let crashed = rt.block_on(async {
        let mut w = World::boot_over(store, ctl, admin.as_deref()).await?;
        let mut evals = 0;
        let v = observe(&mut w, &ps, &ts, &mut evals).await;
        w.shutdown().await;
        Ok::<_, String>((v, evals))
    });
    drop(rt);
    match crashed {
        Ok((v, evals)) => {
            o.evals += evals;
            let is = which(&v, &before, &after, &ps, &ts);
            if !matches!(is, "after" | "both") {
                o.issues.push((
                    format!("acknowledged-retry-not-durable|{ev}|{ans}|after-power-failure"),
                    format!(
                        "the event answered {first_status} under the fault, its fault-free retry was acknowledged with {} ({}), but after a power failure and restart the credentials are answered as in the state `{is}` (vs after: {:?})",
                        retry.status,
                        retry.body_value().map(|v| v.to_string()).unwrap_or_default(),
                        diff(&v, &expect(&after, &ps, &ts))
                    ),
                    json!({"first_status": first_status, "retry": retry.to_json(), "after_power_failure_equals": is}),
                ));
            }
        }
        Err(_) => o.restart_failed = true,
    }
}

fn run_job(job: Job) -> Outcome {
    let rt = runtime();
    let out = rt.block_on(async {
        let mut o = Outcome {
            job: job.clone(),
            mutations: 0,
            worlds: 1,
            evals: 0,
            event_status: 0,
            third_states: vec![],
            error: None,
            restart_failed: false,
            landed: 0,
            issues: vec![],
        };
        let (mut w, before, _) = match build_world(job.base.root, &job.base.history).await {
            Ok(x) => x,
            Err(e) => {
                o.error = Some(e);
                return o;
            }
        };
        let mut after = before.clone();
        after.apply(job.event);
        let Some((method, params)) = event_request(&before, job.event) else {
            o.error = Some("event without request".into());
            return o;
        };
        let m0 = w.ctl.mutation_attempts();
        if let Some((k, land)) = job.fault {
            w.ctl.script(m0 + k, if land { Answer::ErrAfter } else { Answer::ErrBefore });
        }
        let (resp, trace) = w.send(&rpc("/", admin_auth(&w.admin), Enc::Cbor, method, params)).await;
        o.event_status = resp.status;
        o.mutations = w.ctl.mutation_attempts() - m0;
        o.landed = trace.mutations.len() as u64;
        w.ctl.reset_faults();
        if job.fault.is_none() {
            w.shutdown().await;
            return o;
        }
        let ps = probe_principals(&after);
        let ts = probe_targets();
        let live = observe(&mut w, &ps, &ts, &mut o.evals).await;
        let (db, da) = (diff(&live, &expect(&before, &ps, &ts)), diff(&live, &expect(&after, &ps, &ts)));
        let ok = if resp.status == 200 { da.is_empty() } else { db.is_empty() || da.is_empty() };
        if !ok {
            o.third_states.push(("live", db, da));
        }
        let ev = event_kind(job.event);
        let ans = if job.fault.map(|f| f.1).unwrap_or(false) { "ErrAfter" } else { "ErrBefore" };
        let live_is = which(&live, &before, &after, &ps, &ts);
        // (a) the event answered an error and not one of its backend
        // mutations landed: nothing may have changed for any credential
        if resp.status != 200 && o.landed == 0 && !matches!(live_is, "before" | "both" | "neither") {
            o.issues.push((
                format!("failed-event-took-effect|{ev}|{ans}"),
                format!(
                    "the event answered {} and none of its backend mutations landed, yet the credentials are answered as in the state AFTER it (vs before: {:?})",
                    resp.status,
                    diff(&live, &expect(&before, &ps, &ts))
                ),
                json!({"event_status": resp.status, "landed_mutations": 0, "live_equals": live_is}),
            ));
        }
        match w.restart().await {
            Ok(mut w2) => {
                let again = observe(&mut w2, &ps, &ts, &mut o.evals).await;
                let (db, da) = (diff(&again, &expect(&before, &ps, &ts)), diff(&again, &expect(&after, &ps, &ts)));
                if !db.is_empty() && !da.is_empty() {
                    o.third_states.push(("after-restart", db.clone(), da.clone()));
                }
                // (b) nothing ran between the probes and the graceful
                // restart: both must be the same model state
                let again_is = which(&again, &before, &after, &ps, &ts);
                let agree = matches!(
                    (live_is, again_is),
                    ("both", _) | (_, "both") | ("before", "before") | ("after", "after") | ("neither", _) | (_, "neither")
                );
                // (db.close is exempt by its documented contract: when the
                // registry write fails the database still closes, the error
                // is returned and a restart reopens it — state.rs close_db)
                let binding_event = matches!(
                    job.event,
                    Event::Create { key: true, .. } | Event::SetKey { .. } | Event::RemoveKey { .. }
                );
                if !agree && binding_event {
                    o.issues.push((
                        format!("live-and-restart-disagree|{ev}|{ans}"),
                        format!(
                            "after the faulted event (status {}, {} of its mutations landed) the live instance answers the credentials as in the state `{live_is}`, the gracefully restarted instance as in the state `{again_is}`",
                            resp.status, o.landed
                        ),
                        json!({"event_status": resp.status, "landed_mutations": o.landed, "live_equals": live_is, "after_restart_equals": again_is,
                               "live_vs_before": diff(&live, &expect(&before, &ps, &ts)), "restart_vs_before": db, "restart_vs_after": da}),
                    ));
                }
                w2.shutdown().await;
            }
            Err(_) => o.restart_failed = true,
        }
        o
    });
    drop(rt);
    let mut out = out;
    if out.error.is_none() && job.fault.is_some() {
        run_retry(&job, &mut out);
    }
    out
}

fn job_json(j: &Job) -> Value {
    json!({
        "root": j.base.root.as_str(),
        "history": j.base.history.iter().map(|e| e.to_json()).collect::<Vec<_>>(),
        "state": j.base.model.canon(),
        "event": j.event.to_json(),
        "faulted_mutation_of_the_event": j.fault.map(|f| f.0),
        "answer": j.fault.map(|f| if f.1 { "ErrAfter (the write lands, an error is returned)" } else { "ErrBefore (nothing lands)" }),
    })
}

fn main() {
    let mut run = Run::from_args("C14", "faults", "model_checking");
    let threads = util::n_threads();

    if let Some(file) = run.replay_file.clone() {
        let doc: Value = serde_json::from_slice(&std::fs::read(&file).unwrap_or_else(|e| machinery(&format!("read {file:?}: {e}"))))
            .unwrap_or_else(|e| machinery(&format!("parse {file:?}: {e}")));
        let r = &doc["replay"]["job"];
        let root = Root::parse(r["root"].as_str().unwrap_or("")).unwrap_or_else(|| machinery("replay: bad root"));
        let history: Vec<Event> =
            r["history"].as_array().map(|a| a.iter().filter_map(Event::from_json).collect()).unwrap_or_default();
        let event = Event::from_json(&r["event"]).unwrap_or_else(|| machinery("replay: bad event"));
        let mut model = Model::of_root(root);
        history.iter().for_each(|e| model.apply(*e));
        let k = r["faulted_mutation_of_the_event"].as_u64().unwrap_or(0);
        let land = r["answer"].as_str().unwrap_or("").starts_with("ErrAfter");
        let o = run_job(Job { base: Base { root, history, model }, event, fault: Some((k, land)) });
        report(&mut run, o, true);
        run.finish();
    }

    // base states: BFS over the model to a small depth (same merging as `hist`)
    let depth = std::env::var("C14_FAULT_DEPTH").ok().and_then(|s| s.parse().ok()).unwrap_or(run.tier.pick(1usize, 3));
    let mut visited: BTreeSet<String> = BTreeSet::new();
    let mut frontier: Vec<Base> = Vec::new();
    for root in [Root::Admin, Root::Loopback, Root::AdminAB, Root::AdminA] {
        let m = Model::of_root(root);
        if visited.insert(m.canon()) {
            frontier.push(Base { root, history: vec![], model: m });
        }
    }
    let mut bases: Vec<Base> = Vec::new();
    for d in 0..=depth {
        bases.extend(frontier.iter().cloned());
        if d == depth {
            break;
        }
        let mut next = Vec::new();
        for b in &frontier {
            for e in Event::all() {
                if !b.model.enabled(e) {
                    continue;
                }
                let mut m2 = b.model.clone();
                m2.apply(e);
                if visited.insert(m2.canon()) {
                    let mut h = b.history.clone();
                    h.push(e);
                    next.push(Base { root: b.root, history: h, model: m2 });
                }
            }
        }
        frontier = next;
    }
    run.add("states", bases.len() as u64);

    // dry runs: how many backend mutations does each (state, event) perform
    let mut dry: Vec<Job> = Vec::new();
    for b in &bases {
        for e in Event::all() {
            if b.model.enabled(e) && event_request(&b.model, e).is_some() {
                dry.push(Job { base: b.clone(), event: e, fault: None });
            }
        }
    }
    let dry_out = util::par_map(dry, threads, run_job);
    let mut jobs: Vec<Job> = Vec::new();
    let mut per_event: std::collections::BTreeMap<&'static str, (u64, u64)> = Default::default();
    for o in dry_out {
        run.add("traces_validated_against_impl", o.worlds);
        if let Some(e) = &o.error {
            machinery(&format!("dry run of {:?} in {}: {e}", o.job.event, o.job.base.model.canon()));
        }
        if o.event_status != 200 {
            machinery(&format!(
                "model/real mismatch: event {:?} enabled in {} answered {}",
                o.job.event,
                o.job.base.model.canon(),
                o.event_status
            ));
        }
        let e = per_event.entry(event_kind(o.job.event)).or_insert((0, 0));
        e.0 += 1;
        e.1 += o.mutations;
        for k in 0..o.mutations {
            for land in [false, true] {
                jobs.push(Job { base: o.job.base.clone(), event: o.job.event, fault: Some((k, land)) });
            }
        }
    }
    run.set(
        "events_and_their_mutations",
        json!(per_event.iter().map(|(k, (n, m))| format!("{k}: {n} (state, event) pairs, {m} backend mutations")).collect::<Vec<_>>()),
    );
    let total = jobs.len();
    let budget = run.remaining_s();
    let start = std::time::Instant::now();
    let outs = util::par_map(jobs, threads, |j| {
        if start.elapsed().as_secs_f64() > budget {
            return None;
        }
        Some(run_job(j))
    });
    let mut skipped = 0;
    for o in outs {
        match o {
            Some(o) => report(&mut run, o, false),
            None => skipped += 1,
        }
    }
    if skipped > 0 {
        run.cap_hit(&format!("time budget: {skipped} of {total} fault runs not executed"));
    }
    run.set("base_state_depth", json!(depth));
    {
        let mut t = THIRD.lock().unwrap();
        t.sort();
        run.set("third_states_total", json!(t.len()));
        run.set("third_states", json!(t.iter().take(80).collect::<Vec<_>>()));
    }
    run.rule(
        "base states = control states of the event BFS to depth 1 (quick) / 3 (thorough) from the four roots; for each, every enabled writing \
         control-plane event x every backend mutation index of that event (counted by a dry run) x {ErrBefore, ErrAfter}: fresh replay, the event \
         with that one mutation faulted, then {none, garbage, every issued / revoked / the mentioned / one unissued token of A and B} x POST {/, /A, /B, /missing} \
         (info, compared with the same caller's answer for a nonexistent database), live and after a restart; the answer vector must be the model's \
         vector for the state before or after the event; an error answer with zero landed mutations means the state before; live and restarted agree; \
         and on a second replay: faulted event, fault-free retry of the same event, power failure, new instance: an acknowledged retry holds. distinct = (event kind, fault answer, mutation index, state)",
    );
    run.assume("live/restart agreement is demanded for the events that change a binding (create with key, set_api_key, remove_api_key); a failed db.close is documented to close live and reopen on restart");
    run.assume("one faulted backend mutation per event; each backend mutation is atomic; faults are cleared before the credentials are tried");
    run.finish();
}

static THIRD: std::sync::Mutex<Vec<String>> = std::sync::Mutex::new(Vec::new());

fn report(run: &mut Run, o: Outcome, verbose: bool) {
    if let Some(e) = &o.error {
        machinery(&format!("fault run {:?}: {e}", job_json(&o.job)));
    }
    run.add("transitions", 1);
    run.add("traces_validated_against_impl", o.worlds);
    run.add("evaluations", o.evals);
    if o.restart_failed {
        run.add("restart_failed_after_fault", 1);
    }
    let Some((k, land)) = o.job.fault else { return };
    let ans = if land { "ErrAfter" } else { "ErrBefore" };
    run.distinct(util::fnv64(format!("{}|{ans}|{k}|{}", event_kind(o.job.event), o.job.base.model.canon()).as_bytes()));
    if verbose {
        println!("event answered {}; third states: {}", o.event_status, o.third_states.len());
    }
    if o.third_states.is_empty() && o.issues.is_empty() && run.get("transitions") % 97 == 1 {
        run.sample(json!({"job": job_json(&o.job), "event_status": o.event_status, "verdict": "answers equal the model's vector for the state before or after the event, live and after a restart"}));
    }
    for (sig, what, detail) in &o.issues {
        THIRD.lock().unwrap().push(format!(
            "{sig} | {} | mutation #{k} | event status {}",
            o.job.base.model.canon(),
            o.event_status
        ));
        let summary = format!(
            "`{}` in state {} with its backend mutation #{k} answered {ans}: {what}",
            event_kind(o.job.event),
            o.job.base.model.canon()
        );
        if verbose {
            println!("{summary}");
        }
        run.violation(Violation {
            signature: format!("C14|{sig}"),
            summary,
            replay: json!({"job": job_json(&o.job), "event_status": o.event_status, "detail": detail}),
        });
    }
    for (stage, _, _) in &o.third_states {
        THIRD.lock().unwrap().push(format!(
            "{} | {} | mutation #{k} {ans} | event status {} | {stage}",
            event_kind(o.job.event),
            o.job.base.model.canon(),
            o.event_status
        ));
    }
    for (stage, db, da) in o.third_states {
        let summary = format!(
            "after `{}` in state {} with its backend mutation #{k} answered {ans} (event status {}), the credentials are answered {stage} as in neither the state before nor the state after the event: vs before: {:?}; vs after: {:?}",
            event_kind(o.job.event),
            o.job.base.model.canon(),
            o.event_status,
            db,
            da
        );
        if verbose {
            println!("{summary}");
        }
        run.violation(Violation {
            signature: format!("C14|partial-control-event|{}|{ans}|{stage}", event_kind(o.job.event)),
            summary,
            replay: json!({"job": job_json(&o.job), "event_status": o.event_status, "stage": stage, "differs_from_before": db, "differs_from_after": da}),
        });
    }
}

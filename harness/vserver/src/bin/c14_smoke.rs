use serde_json::{json, Value};
use vserver::world::*;
use vserver::table;

fn main() {
    let t = table::scrape().expect("scrape");
    println!("root {:?}", t.root);
    println!("db {} methods", t.db.len());
    anda_db_utils::verif::set_clock(Some((1_700_000_000_000, 1)));
    let rt = runtime();
    rt.block_on(async {
        let t0 = std::time::Instant::now();
        let mut w = World::boot(Some(ADMIN_KEY)).await.unwrap();
        println!("boot {:?}", t0.elapsed());
        let r = w.admin_rpc("/", "db.create", json!({"name": DB_A, "api_key": "key-alpha-1"})).await;
        println!("create A: {r:?}");
        w.seed(DB_A).await.unwrap();
        let r = w.admin_rpc("/", "db.create", json!({"name": DB_B, "api_key": "key-bravo-1"})).await;
        println!("create B: {:?}", r.is_ok());
        w.seed(DB_B).await.unwrap();
        println!("built {:?} requests={}", t0.elapsed(), w.requests);
        for e in w.ctl.journal() { println!("  J {}", e.mutation.label()); }
        for (path, auth, method, params) in [
            ("/", Auth::None, "info", Value::Null),
            ("/alpha_db", Auth::None, "info", Value::Null),
            ("/alpha_db", Auth::Bearer("key-alpha-1".into()), "info", Value::Null),
            ("/bravo_db", Auth::Bearer("key-alpha-1".into()), "info", Value::Null),
            ("/%61lpha_db", Auth::Bearer("key-alpha-1".into()), "info", Value::Null),
            ("/%FF", Auth::Bearer("key-alpha-1".into()), "info", Value::Null),
            ("/%FF", Auth::None, "info", Value::Null),
            ("/alpha_db/x", Auth::None, "info", Value::Null),
            ("/Alpha-DB", Auth::Bearer(ADMIN_KEY.into()), "info", Value::Null),
            ("/alpha_db", Auth::Bearer("key-alpha-1".into()), "doc.get", json!({"collection":"items","_id":1})),
            ("/alpha_db", Auth::Bearer("key-alpha-1".into()), "db.metadata", Value::Null),
            ("/alpha_db", Auth::Bearer("key-alpha-1".into()), "db.stats", Value::Null),
            ("/alpha_db", Auth::Bearer("key-alpha-1".into()), "collection.metadata", json!({"collection":"items"})),
            ("/alpha_db", Auth::Bearer("key-alpha-1".into()), "doc.search", json!({"collection":"items","query":{"search":{"text":"first"}}})),
            ("/alpha_db", Auth::Bearer("key-alpha-1".into()), "doc.query_ids", json!({"collection":"items","filter":{"Field":["score",{"Ge":10}]}})),
            ("/prime_store", Auth::Bearer(ADMIN_KEY.into()), "db.metadata", Value::Null),
        ] {
            for enc in [Enc::Json] {
                let req = rpc(path, auth.clone(), enc, method, params.clone());
                let t1 = std::time::Instant::now();
                let (resp, trace) = w.send(&req).await;
                println!("{path} {auth:?} {method} -> {} {:?} calls={:?} muts={:?} [{:?}]", resp.status, resp.to_json(), trace.calls, trace.mutations, t1.elapsed());
            }
        }
        // time many rejects
        let t1 = std::time::Instant::now();
        for _ in 0..10000 {
            let req = rpc("/bravo_db", Auth::Bearer("key-alpha-1".into()), Enc::Cbor, "doc.get", json!({"collection":"items","_id":1}));
            let _ = w.send(&req).await;
        }
        println!("10000 rejects {:?}", t1.elapsed());
        let t1 = std::time::Instant::now();
        for _ in 0..10000 {
            let req = rpc("/alpha_db", Auth::Bearer("key-alpha-1".into()), Enc::Cbor, "doc.get", json!({"collection":"items","_id":1}));
            let _ = w.send(&req).await;
        }
        println!("10000 gets {:?}", t1.elapsed());
        // close + reopen: cold read
        w.admin_rpc("/", "db.close", json!({"name": DB_A})).await.unwrap();
        w.admin_rpc("/", "db.open", json!({"name": DB_A})).await.unwrap();
        let req = rpc("/alpha_db", Auth::Bearer("key-alpha-1".into()), Enc::Json, "doc.get", json!({"collection":"items","_id":1}));
        let (resp, trace) = w.send(&req).await;
        println!("cold get -> {} calls={:?} muts={:?}", resp.status, trace.calls, trace.mutations);
        let t1 = std::time::Instant::now();
        let w = w.restart().await.unwrap();
        println!("restart {:?}", t1.elapsed());
        w.shutdown().await;
    });
}

//! C14 part `reads` — every method the service classifies Read ("cancellable
//! read-only") performs zero journalled store mutations, for a database in
//! every lifecycle state. One fresh server per (lifecycle state, method,
//! principal, encoding): the request under test is the FIRST request that
//! touches the database in that state (so it is the one that performs a cold
//! open), then it is repeated once.
//!
//! The lifecycle states with crash residue (process killed with unflushed
//! writes; store powered off at every mutation of a small workload) are
//! enumerated too and reported under their own state label
//! `cold-crash-residue` (and `cold-crash-residue+read-only`).

use serde_json::{Value, json};
use std::collections::{BTreeMap, BTreeSet};
use std::sync::Arc;
use vcore::ctlstore::{Ctl, CtlStore};
use vcore::{Run, Violation, report::machinery, util};
use vserver::cells::minimal_params;
use vserver::model::token;
use vserver::table::{self, Effect, Tables};
use vserver::names::dbn;
use vserver::world::{ADMIN_KEY, Auth, COLLECTION, Enc, Resp, StoreTrace, World, rpc, runtime};

#[derive(Clone, Debug, PartialEq, Eq)]
enum Life {
    WarmClean,
    WarmUnflushed,
    Reopened,
    Reconnected,
    Restarted,
    /// restart, then an unflushed write to ANOTHER collection of the database
    RestartedOtherDirty,
    DbReadOnlyWarm,
    DbReadOnlyCold,
    CollectionReadOnly,
    Closed,
    /// process killed (no flush, no close) after the workload; `k` = the store
    /// powers off at the k-th mutation of the workload (None: never)
    Crashed { workload: usize, k: Option<u64>, read_only: bool },
}

impl Life {
    /// State label used in signatures.
    fn sig(&self) -> &'static str {
        match self {
            Life::WarmClean => "warm",
            Life::WarmUnflushed => "warm-unflushed",
            Life::Reopened => "cold-reopened",
            Life::Reconnected => "cold-reconnected",
            Life::Restarted => "cold-restarted",
            Life::RestartedOtherDirty => "cold-restarted-other-collection-unflushed",
            Life::DbReadOnlyWarm => "db-read-only-warm",
            Life::DbReadOnlyCold => "db-read-only-cold",
            Life::CollectionReadOnly => "collection-read-only",
            Life::Closed => "closed",
            Life::Crashed { read_only: false, .. } => "cold-crash-residue",
            Life::Crashed { read_only: true, .. } => "cold-crash-residue+read-only",
        }
    }
    fn to_json(&self) -> Value {
        match self {
            Life::Crashed { workload, k, read_only } => {
                json!({"life": "crashed", "workload": workload, "power_off_at_mutation": k, "read_only": read_only})
            }
            other => json!({"life": other.sig()}),
        }
    }
    fn from_json(v: &Value) -> Option<Life> {
        let all = [
            Life::WarmClean,
            Life::WarmUnflushed,
            Life::Reopened,
            Life::Reconnected,
            Life::Restarted,
            Life::RestartedOtherDirty,
            Life::DbReadOnlyWarm,
            Life::DbReadOnlyCold,
            Life::CollectionReadOnly,
            Life::Closed,
        ];
        match v.get("life")?.as_str()? {
            "crashed" => Some(Life::Crashed {
                workload: v.get("workload")?.as_u64()? as usize,
                k: v.get("power_off_at_mutation")?.as_u64(),
                read_only: v.get("read_only")?.as_bool()?,
            }),
            s => all.into_iter().find(|l| l.sig() == s),
        }
    }
}

fn key_a() -> String {
    token(0, 1)
}

/// admin + A(key) + B(key), both seeded and flushed.
async fn base() -> Result<World, String> {
    let mut w = World::boot(Some(ADMIN_KEY)).await?;
    w.admin_rpc("/", "db.create", json!({"name": dbn(0), "api_key": key_a()})).await?;
    w.seed(dbn(0)).await?;
    w.admin_rpc("/", "db.create", json!({"name": dbn(1), "api_key": token(1, 1)})).await?;
    w.seed(dbn(1)).await?;
    Ok(w)
}

/// Mutating requests on A that are left unflushed.
fn workload(i: usize) -> Vec<(&'static str, Value)> {
    let c = COLLECTION;
    let mut ops = vec![
        ("doc.add", json!({"collection": c, "doc": {"title": "third", "body": "common text three", "score": 12}})),
        ("doc.add", json!({"collection": c, "doc": {"title": "fourth", "body": "common text four", "score": 13}})),
        ("doc.update", json!({"collection": c, "_id": 2, "fields": {"score": 55}})),
        ("doc.remove", json!({"collection": c, "_id": 3})),
        ("collection.save_extension", json!({"collection": c, "key": "note3", "value": "unflushed"})),
    ];
    if i >= 1 {
        // the same, then checkpoints (so that the store can die inside a flush)
        ops.push(("collection.flush", json!({"collection": c})));
        ops.push(("doc.add", json!({"collection": c, "doc": {"title": "fifth", "body": "common text five", "score": 14}})));
        ops.push(("db.flush", Value::Null));
    }
    ops
}

async fn run_workload(w: &mut World, i: usize, tolerate_errors: bool) -> Result<(), String> {
    for (method, params) in workload(i) {
        match w.admin_rpc(&format!("/{}", dbn(0)), method, params).await {
            Ok(_) => {}
            Err(_) if tolerate_errors => {}
            Err(e) => return Err(e),
        }
    }
    Ok(())
}

/// Number of store mutations workload `i` performs on a healthy store.
fn workload_mutations(i: usize) -> u64 {
    let rt = runtime();
    rt.block_on(async {
        let mut w = base().await.unwrap_or_else(|e| machinery(&format!("base world: {e}")));
        let m0 = w.ctl.mutation_attempts();
        run_workload(&mut w, i, false).await.unwrap_or_else(|e| machinery(&format!("workload: {e}")));
        let n = w.ctl.mutation_attempts() - m0;
        w.shutdown().await;
        n
    })
}

/// Builds the world in lifecycle state `life`. Crash states use a first
/// runtime that is dropped (the "process" dies with everything it spawned),
/// then the returned world is booted by the caller's runtime.
fn build_crashed(workload: usize, k: Option<u64>) -> Result<(Arc<CtlStore>, Arc<Ctl>), String> {
    let rt = runtime();
    let out = rt.block_on(async {
        let mut w = base().await?;
        if let Some(k) = k {
            w.ctl.crash_after_mutations(k);
        }
        run_workload(&mut w, workload, true).await?;
        w.ctl.power_off();
        Ok::<_, String>((w.store.clone(), w.ctl.clone()))
    });
    drop(rt);
    let (store, ctl) = out?;
    ctl.reset_faults();
    Ok((store, ctl))
}

async fn build(life: &Life, pre: Option<(Arc<CtlStore>, Arc<Ctl>)>) -> Result<World, String> {
    let a = format!("/{}", dbn(0));
    let c = COLLECTION;
    if let Life::Crashed { read_only, .. } = life {
        let (store, ctl) = pre.expect("crashed store");
        let mut w = World::boot_over(store, ctl, Some(ADMIN_KEY)).await?;
        if *read_only {
            // may fail when A could not be reopened; the reads then answer 404
            let _ = w.admin_rpc(&a, "db.set_read_only", json!({"read_only": true})).await;
        }
        return Ok(w);
    }
    let mut w = base().await?;
    match life {
        Life::WarmClean => {}
        Life::WarmUnflushed => run_workload(&mut w, 0, false).await?,
        Life::Reopened => {
            w.admin_rpc("/", "db.close", json!({"name": dbn(0)})).await?;
            w.admin_rpc("/", "db.open", json!({"name": dbn(0)})).await?;
        }
        Life::Reconnected => {
            run_workload(&mut w, 0, false).await?;
            w.admin_rpc("/", "db.close", json!({"name": dbn(0)})).await?;
            w.admin_rpc("/", "db.connect", json!({"name": dbn(0)})).await?;
        }
        Life::Restarted => {
            run_workload(&mut w, 0, false).await?;
            w = w.restart().await?;
        }
        Life::RestartedOtherDirty => {
            w = w.restart().await?;
            let mut p = vserver::world::collection_params("other");
            p["config"]["name"] = json!("other");
            w.admin_rpc(&a, "collection.create", p).await?;
            w.admin_rpc(&a, "doc.add", json!({"collection": "other", "doc": {"title": "o", "body": "o", "score": 1}})).await?;
        }
        Life::DbReadOnlyWarm => {
            run_workload(&mut w, 0, false).await?;
            w.admin_rpc(&a, "db.set_read_only", json!({"read_only": true})).await?;
        }
        Life::DbReadOnlyCold => {
            run_workload(&mut w, 0, false).await?;
            w = w.restart().await?;
            w.admin_rpc(&a, "db.set_read_only", json!({"read_only": true})).await?;
        }
        Life::CollectionReadOnly => {
            run_workload(&mut w, 0, false).await?;
            w.admin_rpc(&a, "collection.set_read_only", json!({"collection": c, "read_only": true})).await?;
        }
        Life::Closed => {
            w.admin_rpc("/", "db.close", json!({"name": dbn(0)})).await?;
        }
        Life::Crashed { .. } => unreachable!(),
    }
    Ok(w)
}

#[derive(Clone, Debug)]
struct Job {
    life: Life,
    /// `root:<name>` or `db:<name>`
    root_table: bool,
    method: String,
    admin: bool,
    enc: Enc,
}

impl Job {
    fn to_json(&self) -> Value {
        json!({"life": self.life.to_json(), "root_table": self.root_table, "method": self.method, "admin": self.admin, "encoding": self.enc.as_str()})
    }
    fn from_json(v: &Value) -> Option<Job> {
        Some(Job {
            life: Life::from_json(v.get("life")?)?,
            root_table: v.get("root_table")?.as_bool()?,
            method: v.get("method")?.as_str()?.to_string(),
            admin: v.get("admin")?.as_bool()?,
            enc: if v.get("encoding")?.as_str()? == "json" { Enc::Json } else { Enc::Cbor },
        })
    }
}

struct Outcome {
    job: Job,
    /// (which: first|repeat, response, trace)
    sends: Vec<(&'static str, Resp, StoreTrace)>,
    error: Option<String>,
}

fn run_job(job: Job) -> Outcome {
    anda_db_utils::verif::set_clock(Some((1_700_000_000_000, 1)));
    let pre = match &job.life {
        Life::Crashed { workload, k, .. } => match build_crashed(*workload, *k) {
            Ok(p) => Some(p),
            Err(e) => return Outcome { job, sends: vec![], error: Some(e) },
        },
        _ => None,
    };
    let rt = runtime();
    let (sends, error) = rt.block_on(async {
        let mut w = match build(&job.life, pre).await {
            Ok(w) => w,
            Err(e) => return (vec![], Some(e)),
        };
        let auth = if job.admin { Auth::Bearer(ADMIN_KEY.into()) } else { Auth::Bearer(key_a()) };
        let path = if job.root_table { "/".to_string() } else { format!("/{}", dbn(0)) };
        let req = rpc(&path, auth, job.enc, &job.method, Value::Null);
        // same body as the matrix uses (minimal params, with the decoy fields)
        let params = minimal_params(&job.method, dbn(1));
        let req = if params.is_string() { req } else { rpc(&path, req.auth.clone(), job.enc, &job.method, params) };
        let mut sends = Vec::new();
        for which in ["first", "repeat"] {
            let (resp, trace) = w.send(&req).await;
            sends.push((which, resp, trace));
        }
        w.shutdown().await;
        (sends, None)
    });
    drop(rt);
    Outcome { job, sends, error }
}

fn lives(thorough: bool, n_mut: &[u64]) -> Vec<(Life, bool)> {
    // (life, full): full = both principals and both encodings
    let mut out: Vec<(Life, bool)> = [
        Life::WarmClean,
        Life::WarmUnflushed,
        Life::Reopened,
        Life::Reconnected,
        Life::Restarted,
        Life::RestartedOtherDirty,
        Life::DbReadOnlyWarm,
        Life::DbReadOnlyCold,
        Life::CollectionReadOnly,
        Life::Closed,
    ]
    .into_iter()
    .map(|l| (l, true))
    .collect();
    for read_only in [false, true] {
        out.push((Life::Crashed { workload: 0, k: None, read_only }, true));
    }
    let workloads = if thorough { vec![0, 1] } else { vec![0] };
    for wl in workloads {
        for k in 0..n_mut[wl] {
            for read_only in [false, true] {
                out.push((Life::Crashed { workload: wl, k: Some(k), read_only }, thorough));
            }
        }
    }
    out
}

fn jobs(tables: &Tables, thorough: bool, n_mut: &[u64]) -> Vec<Job> {
    let mut out = Vec::new();
    for (life, full) in lives(thorough, n_mut) {
        for (root_table, table) in [(true, &tables.root), (false, &tables.db)] {
            for (method, effect) in table {
                if *effect != Effect::Read {
                    continue;
                }
                // the holder of A's key cannot reach the root table
                let principals: &[bool] = if root_table {
                    &[true]
                } else if full {
                    &[false, true]
                } else {
                    &[false]
                };
                let encs: &[Enc] = if full { &[Enc::Cbor, Enc::Json] } else { &[Enc::Cbor] };
                for admin in principals {
                    for enc in encs {
                        out.push(Job { life: life.clone(), root_table, method: method.clone(), admin: *admin, enc: *enc });
                    }
                }
            }
        }
    }
    out
}

fn main() {
    let mut run = Run::from_args("C14", "reads", "model_checking");
    let tables = match table::scrape() {
        Ok(t) => t,
        Err(e) => machinery(&format!("cannot scrape the method tables from {}: {e}", table::API_MOD_PATH)),
    };
    let thorough = run.tier == vcore::Tier::Thorough;

    let job_list: Vec<Job> = if let Some(file) = run.replay_file.clone() {
        let doc: Value = serde_json::from_slice(&std::fs::read(&file).unwrap_or_else(|e| machinery(&format!("read {file:?}: {e}"))))
            .unwrap_or_else(|e| machinery(&format!("parse {file:?}: {e}")));
        vec![Job::from_json(&doc["replay"]["job"]).unwrap_or_else(|| machinery("replay: bad job"))]
    } else {
        let n_mut = [workload_mutations(0), workload_mutations(1)];
        run.set("workload_mutations", json!(n_mut));
        jobs(&tables, thorough, &n_mut)
    };
    let replaying = run.replay_file.is_some();

    let total = job_list.len();
    let budget = run.remaining_s();
    let start = std::time::Instant::now();
    let outcomes = util::par_map(job_list, util::n_threads(), |job| {
        if start.elapsed().as_secs_f64() > budget {
            return None;
        }
        Some(run_job(job))
    });

    let mut skipped = 0;
    let mut life_seen: BTreeSet<String> = BTreeSet::new();
    let mut residue_writes: BTreeMap<String, BTreeSet<String>> = BTreeMap::new();
    let mut status_hist: BTreeMap<String, u64> = BTreeMap::new();
    for o in outcomes {
        let Some(o) = o else {
            skipped += 1;
            continue;
        };
        if let Some(e) = &o.error {
            machinery(&format!("cannot build lifecycle state {:?}: {e}", o.job.life));
        }
        run.add("states", 1);
        run.add("traces_validated_against_impl", 1);
        life_seen.insert(format!("{:?}", o.job.life));
        let sig_state = o.job.life.sig();
        run.distinct(util::fnv64(
            format!("{}|{}|{}|{}|{}", sig_state, o.job.root_table, o.job.method, o.job.admin, o.job.enc.as_str()).as_bytes(),
        ));
        for (which, resp, trace) in &o.sends {
            run.add("evaluations", 1);
            run.add("transitions", 1);
            *status_hist.entry(format!("{sig_state}:{}", resp.status)).or_insert(0) += 1;
            if replaying {
                println!(
                    "{which}: {} {} -> {} mutations={:?} calls={}",
                    o.job.method,
                    sig_state,
                    resp.status,
                    trace.mutations,
                    trace.calls.len()
                );
            }
            if trace.mutations.is_empty() {
                continue;
            }
            if sig_state.starts_with("cold-crash-residue") {
                let e = residue_writes.entry(format!("{}|{sig_state}", o.job.method)).or_default();
                for m in &trace.mutations {
                    // path class: strip sizes and document numbers
                    let p = m.split(' ').nth(1).unwrap_or("");
                    let class: String = p.chars().map(|c| if c.is_ascii_digit() { '#' } else { c }).collect();
                    e.insert(format!("{} {class}", m.split(' ').next().unwrap_or("")));
                }
            }
            let table = if o.job.root_table { "POST /" } else { "POST /{db}" };
            run.violation(Violation {
                signature: format!("C14|read-writes|{}|{sig_state}", o.job.method),
                summary: format!(
                    "{table} `{}` is classified Read but its {which} execution on a database in state `{sig_state}` wrote to storage: {:?} (status {}, principal {})",
                    o.job.method,
                    trace.mutations,
                    resp.status,
                    if o.job.admin { "admin" } else { "holder of the database key" }
                ),
                replay: json!({
                    "job": o.job.to_json(),
                    "execution": which,
                    "response": resp.to_json(),
                    "mutations": trace.mutations,
                    "store_calls": trace.calls.iter().map(|(op, p)| format!("{op} {p}")).collect::<Vec<_>>(),
                }),
            });
        }
        if run.tier == vcore::Tier::Quick || true {
            if matches!(o.job.life, Life::Reopened | Life::Crashed { k: None, read_only: false, .. })
                && o.job.method == "doc.get"
                && !o.job.admin
                && o.job.enc == Enc::Json
                && let Some((_, resp, trace)) = o.sends.first()
            {
                run.sample(json!({
                    "life": o.job.life.to_json(), "method": o.job.method, "status": resp.status,
                    "store_reads": trace.calls.len(), "store_mutations": trace.mutations,
                }));
            }
        }
    }
    if skipped > 0 {
        run.cap_hit(&format!("time budget: {skipped} of {total} (lifecycle, method, principal, encoding) cells not run"));
    }
    run.set("lifecycle_states_built", json!(life_seen.len()));
    run.set("status_by_state", json!(status_hist));
    run.set(
        "crash_residue_writes_by_method",
        json!(residue_writes.iter().map(|(k, v)| (k.clone(), v.iter().cloned().collect::<Vec<_>>())).collect::<BTreeMap<_, _>>()),
    );
    run.rule(
        "for every method labelled Read in RootMethod::parse / DbMethod::parse x lifecycle state of the database {warm, warm with unflushed writes, \
         closed+db.open, closed+db.connect, restarted, restarted with another collection dirty, db read-only warm/cold, collection read-only, closed, \
         killed with unflushed writes, store powered off at EVERY mutation index of a small write workload; the crash states also with db read-only} \
         x principal {admin, holder of the database key} x {CBOR, JSON} (crash points at every index: holder + CBOR only in the quick tier): a fresh server \
         is brought into the state, the method is sent as the first request touching the database and once more; the store journal must stay empty. \
         distinct = (state label, table, method, principal, encoding)",
    );
    run.assume("a killed process is modelled by dropping the tokio runtime with the store powered off; each backend mutation is atomic");
    run.assume("writes caused by the server start itself (AppState::connect) are not attributed to the read request");
    run.finish();
}

//! C14 part `race` — one request against one control-plane event, all three
//! orders of the 2-task schedule:
//!
//!   `event-first`   the event completes, then the request is sent;
//!   `in-flight`     the request's headers reach the server (its body is a
//!                   hand-fed stream; the request task is driven until the
//!                   server is pending on the body — or has already answered
//!                   from the headers), the event runs to completion, then
//!                   the body is fed;
//!   `request-first` the request completes, then the event runs.
//!
//! Enumerated for every control state of the event BFS to a small depth, every
//! enabled event (restart excluded: it ends the instance), every credential
//! (none, garbage, admin, every issued / revoked / to-be-bound / unissued
//! token of A and B), target `POST /`, `/A`, `/B`, `/missing`, and method
//! class (Read `doc.get` / `db.list`, Mutating `doc.add`), CBOR.
//!
//! Oracle (reference model of the documented rules, before/after the event):
//! event-first = the model's decision AFTER the event; request-first = the
//! decision BEFORE; in-flight = rejected when the credential is rejected
//! BEFORE (the header check) or AFTER (the check inside the handler runs
//! after the event returned), served only when both allow it. "Rejected" =
//! byte-identical to the same caller's answer for a nonexistent database,
//! 401/403, and no store mutation after the event returned.

use axum::body::Body;
use bytes::Bytes;
use http_body_util::BodyExt;
use serde_json::{Value, json};
use std::collections::BTreeSet;
use std::convert::Infallible;
use std::sync::Arc;
use std::sync::atomic::{AtomicBool, Ordering};
use std::task::Poll;
use tokio::sync::mpsc;
use tower::ServiceExt;
use vcore::{Run, Violation, report::machinery, util};
use vserver::cells::{Principal, Target, TargetKind, access, nowhere, principals, targets};
use vserver::matrix::{apply_event, build_world};
use vserver::model::{Access, Event, Model, Root};
use vserver::world::{Auth, COLLECTION, Enc, Req, Resp, World, rpc, runtime, settle};

#[derive(Clone, Copy, Debug, PartialEq, Eq)]
enum Order {
    EventFirst,
    InFlight,
    RequestFirst,
}

impl Order {
    fn as_str(&self) -> &'static str {
        match self {
            Order::EventFirst => "event-first",
            Order::InFlight => "in-flight",
            Order::RequestFirst => "request-first",
        }
    }
    fn parse(s: &str) -> Option<Order> {
        [Order::EventFirst, Order::InFlight, Order::RequestFirst].into_iter().find(|o| o.as_str() == s)
    }
}

fn event_kind(e: Event) -> &'static str {
    match e {
        Event::Create { key: true, .. } => "create-with-key",
        Event::Create { key: false, .. } => "create",
        Event::SetKey { .. } => "set_api_key",
        Event::SetKeyGen { .. } => "set_api_key_generated",
        Event::RemoveKey { .. } => "remove_api_key",
        Event::Close { .. } => "close",
        Event::Open { .. } => "open",
        Event::Connect { .. } => "connect",
        Event::Restart => "restart",
    }
}

#[derive(Clone, Debug)]
struct Job {
    root: Root,
    history: Vec<Event>,
    event: Event,
    order: Order,
}

#[derive(Clone)]
struct Cell {
    p: Principal,
    t: Target,
    method: &'static str,
    class: &'static str,
}

fn cells(after: &Model) -> Vec<Cell> {
    let ps: Vec<Principal> = principals(after)
        .into_iter()
        .filter(|p| matches!(p.kind, "none" | "admin" | "bound-key" | "revoked-key" | "unissued-key") || p.label == "garbage")
        .collect();
    let ts: Vec<Target> =
        targets().into_iter().filter(|t| matches!(t.kind, TargetKind::Root | TargetKind::Db(_) | TargetKind::Missing)).collect();
    let mut out = Vec::new();
    for p in &ps {
        for t in &ts {
            let methods: &[(&'static str, &'static str)] =
                if t.kind == TargetKind::Root { &[("db.list", "read")] } else { &[("doc.get", "read"), ("doc.add", "mutating")] };
            for (method, class) in methods {
                out.push(Cell { p: p.clone(), t: t.clone(), method, class });
            }
        }
    }
    out
}

fn request_for(c: &Cell, path: &str) -> Req {
    let params = match c.method {
        "doc.get" => json!({"collection": COLLECTION, "_id": 1}),
        "doc.add" => json!({"collection": COLLECTION, "doc": {"title": "raced", "body": "common text raced", "score": 40}}),
        _ => Value::Null,
    };
    rpc(path, c.p.auth.clone(), Enc::Cbor, c.method, params)
}

/// A request whose body the harness feeds by hand.
struct InFlight {
    handle: tokio::task::JoinHandle<Resp>,
    feed: mpsc::UnboundedSender<Bytes>,
    body: Bytes,
    body_polled: Arc<AtomicBool>,
}

fn start_in_flight(w: &World, req: &Req) -> InFlight {
    let (tx, mut rx) = mpsc::unbounded_channel::<Bytes>();
    let polled = Arc::new(AtomicBool::new(false));
    let signal = polled.clone();
    let stream = futures::stream::poll_fn(move |cx| {
        signal.store(true, Ordering::Release);
        match rx.poll_recv(cx) {
            Poll::Ready(Some(chunk)) => Poll::Ready(Some(Ok::<Bytes, Infallible>(chunk))),
            Poll::Ready(None) => Poll::Ready(None),
            Poll::Pending => Poll::Pending,
        }
    });
    let mut b = http::Request::builder().method(http::Method::POST).uri(req.path.as_str());
    match &req.auth {
        Auth::None => {}
        Auth::Bearer(t) => b = b.header(http::header::AUTHORIZATION, format!("Bearer {t}")),
        Auth::Raw(bytes) => b = b.header(http::header::AUTHORIZATION, http::HeaderValue::from_bytes(bytes).expect("header")),
    }
    if let Some(ct) = req.content_type {
        b = b.header(http::header::CONTENT_TYPE, ct);
    }
    let request = b.body(Body::from_stream(stream)).expect("request");
    let router = w.router.clone();
    let handle = tokio::spawn(async move {
        let resp = router.oneshot(request).await.expect("router is infallible");
        let status = resp.status().as_u16();
        let mut headers: Vec<(String, Vec<u8>)> =
            resp.headers().iter().map(|(k, v)| (k.as_str().to_string(), v.as_bytes().to_vec())).collect();
        headers.sort();
        let body = resp.into_body().collect().await.expect("response body").to_bytes().to_vec();
        Resp { status, headers, body }
    });
    InFlight { handle, feed: tx, body: req.body.clone(), body_polled: polled }
}

/// Drives the runtime until the request is pending on its body or has
/// answered from the headers alone. Single-threaded runtime, no timers: the
/// number of yields needed is a property of the code, not of timing.
async fn until_parked(f: &InFlight) -> Result<&'static str, String> {
    for _ in 0..200 {
        if f.body_polled.load(Ordering::Acquire) {
            return Ok("pending-on-body");
        }
        if f.handle.is_finished() {
            return Ok("answered-from-headers");
        }
        tokio::task::yield_now().await;
    }
    Err("request neither answered nor polled its body after 200 scheduler turns".into())
}

struct Finding {
    signature: String,
    summary: String,
    detail: Value,
}

struct Outcome {
    job: Job,
    canon: String,
    evals: u64,
    parked_on_body: u64,
    findings: Vec<Finding>,
    samples: Vec<Value>,
    error: Option<String>,
}

fn class_of(m: &Model, c: &Cell) -> &'static str {
    match access(m, &c.p, &c.t) {
        Access::Reject => "reject",
        _ => "serve",
    }
}

fn run_job(job: Job) -> Outcome {
    let rt = runtime();
    let out = rt.block_on(async {
        let mut o = Outcome { job: job.clone(), canon: String::new(), evals: 0, parked_on_body: 0, findings: vec![], samples: vec![], error: None };
        let (mut w, before, _) = match build_world(job.root, &job.history).await {
            Ok(x) => x,
            Err(e) => {
                o.error = Some(e);
                return o;
            }
        };
        o.canon = before.canon();
        let mut after = before.clone();
        after.apply(job.event);
        // the token the event will bind exists only afterwards when the
        // server generates it: then it cannot be a request credential before
        let cs: Vec<Cell> = cells(if matches!(job.event, Event::SetKeyGen { .. }) { &before } else { &after });
        let nowhere = nowhere();
        // reference answers (the same caller, a database that never existed)
        let mut refs: Vec<Resp> = Vec::new();
        for c in &cs {
            let (r, _) = w.send(&request_for(c, &nowhere.path)).await;
            o.evals += 1;
            refs.push(r);
        }
        let mut answers: Vec<(Resp, usize, &'static str)> = Vec::new(); // (response, mutations after the event returned, parked)
        match job.order {
            Order::EventFirst => {
                w = match apply_event(w, &before, job.event).await {
                    Ok(w) => w,
                    Err(e) => {
                        o.error = Some(format!("event: {e}"));
                        return o;
                    }
                };
                for c in &cs {
                    let (r, trace) = w.send(&request_for(c, &c.t.path)).await;
                    o.evals += 1;
                    answers.push((r, trace.mutations.len(), "-"));
                }
            }
            Order::RequestFirst => {
                for c in &cs {
                    let (r, trace) = w.send(&request_for(c, &c.t.path)).await;
                    o.evals += 1;
                    answers.push((r, trace.mutations.len(), "-"));
                }
                w = match apply_event(w, &before, job.event).await {
                    Ok(w) => w,
                    Err(e) => {
                        o.error = Some(format!("event: {e}"));
                        return o;
                    }
                };
            }
            Order::InFlight => {
                let mut flights = Vec::new();
                for c in &cs {
                    let f = start_in_flight(&w, &request_for(c, &c.t.path));
                    match until_parked(&f).await {
                        Ok(p) => flights.push((f, p)),
                        Err(e) => {
                            o.error = Some(e);
                            return o;
                        }
                    }
                }
                w = match apply_event(w, &before, job.event).await {
                    Ok(w) => w,
                    Err(e) => {
                        o.error = Some(format!("event: {e}"));
                        return o;
                    }
                };
                // the event has returned: feed the bodies, one request at a time
                for (f, parked) in flights {
                    let j0 = w.ctl.journal_len();
                    let _ = f.feed.send(f.body.clone());
                    drop(f.feed);
                    let r = match f.handle.await {
                        Ok(r) => r,
                        Err(e) => {
                            o.error = Some(format!("request task: {e}"));
                            return o;
                        }
                    };
                    settle().await;
                    o.evals += 1;
                    if parked == "pending-on-body" {
                        o.parked_on_body += 1;
                    }
                    answers.push((r, w.ctl.journal_len() - j0, parked));
                }
            }
        }
        for ((c, rref), (resp, muts, parked)) in cs.iter().zip(refs.iter()).zip(answers.iter()) {
            let (cb, ca) = (class_of(&before, c), class_of(&after, c));
            let expected = match job.order {
                Order::EventFirst => ca,
                Order::RequestFirst => cb,
                Order::InFlight => {
                    if cb == "reject" || ca == "reject" {
                        "reject"
                    } else {
                        "serve"
                    }
                }
            };
            let rejected = resp == rref && (resp.status == 401 || resp.status == 403);
            let served = resp.status != 401 && resp.status != 403;
            let got = if rejected {
                "reject"
            } else if served {
                "serve"
            } else {
                "non-uniform-rejection"
            };
            let wrote = rejected && *muts > 0;
            if o.samples.len() < 2 && job.order == Order::InFlight && cb == "serve" && ca == "reject" && *parked == "pending-on-body" {
                o.samples.push(json!({
                    "state": before.canon(), "event": job.event.to_json(), "order": job.order.as_str(), "principal": c.p.label,
                    "request": format!("POST {} {}", c.t.path, c.method), "request_was": parked,
                    "model_before": cb, "model_after": ca, "status": resp.status, "store_mutations_after_the_event": muts,
                }));
            }
            if got == expected && !wrote {
                continue;
            }
            let what = if wrote {
                format!("a rejected request wrote to storage ({muts} mutations) after the event had returned")
            } else if expected == "reject" {
                format!(
                    "a request the rules reject (before the event: {cb}, after it: {ca}) was answered {} instead of the uniform rejection",
                    resp.status
                )
            } else {
                format!("a request the rules serve (before: {cb}, after: {ca}) was answered {}", resp.status)
            };
            o.findings.push(Finding {
                signature: format!(
                    "C14|interleaving|{}|{}|{}|{}|expected-{expected}-got-{}",
                    job.order.as_str(),
                    event_kind(job.event),
                    c.p.kind,
                    c.class,
                    if wrote { "write" } else { got }
                ),
                summary: format!(
                    "{what} [order {}; state {}; event {}; principal {}; POST {} {}; request was {parked}]",
                    job.order.as_str(),
                    before.canon(),
                    event_kind(job.event),
                    c.p.label,
                    c.t.path,
                    c.method
                ),
                detail: json!({
                    "principal": c.p.label, "target": c.t.path, "method": c.method, "request_was": parked,
                    "model_before": cb, "model_after": ca, "expected": expected,
                    "response": resp.to_json(), "reference_response_for_a_nonexistent_database": rref.to_json(),
                    "store_mutations_after_the_event_returned": muts,
                }),
            });
        }
        w.shutdown().await;
        o
    });
    drop(rt);
    out
}

fn job_json(j: &Job) -> Value {
    json!({
        "root": j.root.as_str(),
        "history": j.history.iter().map(|e| e.to_json()).collect::<Vec<_>>(),
        "event": j.event.to_json(),
        "order": j.order.as_str(),
    })
}

fn main() {
    let mut run = Run::from_args("C14", "race", "model_checking");
    let threads = util::n_threads();

    let jobs: Vec<Job> = if let Some(file) = run.replay_file.clone() {
        let doc: Value = serde_json::from_slice(&std::fs::read(&file).unwrap_or_else(|e| machinery(&format!("read {file:?}: {e}"))))
            .unwrap_or_else(|e| machinery(&format!("parse {file:?}: {e}")));
        let r = &doc["replay"]["job"];
        vec![Job {
            root: Root::parse(r["root"].as_str().unwrap_or("")).unwrap_or_else(|| machinery("replay: bad root")),
            history: r["history"].as_array().map(|a| a.iter().filter_map(Event::from_json).collect()).unwrap_or_default(),
            event: Event::from_json(&r["event"]).unwrap_or_else(|| machinery("replay: bad event")),
            order: Order::parse(r["order"].as_str().unwrap_or("")).unwrap_or_else(|| machinery("replay: bad order")),
        }]
    } else {
        let depth = std::env::var("C14_RACE_DEPTH").ok().and_then(|s| s.parse().ok()).unwrap_or(run.tier.pick(1usize, 3));
        run.set("base_state_depth", json!(depth));
        let mut visited: BTreeSet<String> = BTreeSet::new();
        let mut frontier: Vec<(Root, Vec<Event>, Model)> = Vec::new();
        for root in [Root::Admin, Root::Loopback, Root::AdminAB, Root::AdminA] {
            let m = Model::of_root(root);
            if visited.insert(m.canon()) {
                frontier.push((root, vec![], m));
            }
        }
        let mut bases = Vec::new();
        for d in 0..=depth {
            bases.extend(frontier.iter().cloned());
            if d == depth {
                break;
            }
            let mut next = Vec::new();
            for (root, h, m) in &frontier {
                for e in Event::all() {
                    if !m.enabled(e) {
                        continue;
                    }
                    let mut m2 = m.clone();
                    m2.apply(e);
                    if visited.insert(m2.canon()) {
                        let mut h2 = h.clone();
                        h2.push(e);
                        next.push((*root, h2, m2));
                    }
                }
            }
            frontier = next;
        }
        run.add("states", bases.len() as u64);
        let mut jobs = Vec::new();
        for (root, h, m) in &bases {
            for e in Event::all() {
                if e == Event::Restart || !m.enabled(e) {
                    continue;
                }
                for order in [Order::EventFirst, Order::InFlight, Order::RequestFirst] {
                    jobs.push(Job { root: *root, history: h.clone(), event: e, order });
                }
            }
        }
        jobs
    };
    let replaying = run.replay_file.is_some();
    let want_sig = if replaying {
        std::fs::read(run.replay_file.clone().unwrap())
            .ok()
            .and_then(|d| serde_json::from_slice::<Value>(&d).ok())
            .and_then(|d| d["signature"].as_str().map(|s| s.to_string()))
    } else {
        None
    };

    let total = jobs.len();
    let budget = run.remaining_s();
    let start = std::time::Instant::now();
    let outs = util::par_map(jobs, threads, |j| {
        if start.elapsed().as_secs_f64() > budget {
            return None;
        }
        Some(run_job(j))
    });
    let mut skipped = 0;
    let mut parked = 0u64;
    for o in outs {
        let Some(o) = o else {
            skipped += 1;
            continue;
        };
        if let Some(e) = &o.error {
            machinery(&format!("schedule {}: {e}", job_json(&o.job)));
        }
        run.add("transitions", 1);
        run.add("traces_validated_against_impl", 1);
        run.add("evaluations", o.evals);
        parked += o.parked_on_body;
        run.distinct(util::fnv64(format!("{}|{}|{}", o.canon, event_kind(o.job.event), o.job.order.as_str()).as_bytes()));
        for s in o.samples {
            run.sample(s);
        }
        for f in o.findings {
            if let Some(w) = &want_sig
                && *w != f.signature
            {
                continue;
            }
            if replaying {
                println!("{}\n{}", f.summary, serde_json::to_string_pretty(&f.detail).unwrap());
            }
            let mut replay = json!({"job": job_json(&o.job), "state": o.canon});
            replay["detail"] = f.detail;
            run.violation(Violation { signature: f.signature, summary: f.summary, replay });
        }
    }
    run.set("requests_parked_on_their_body_while_the_event_ran", json!(parked));
    if skipped > 0 {
        run.cap_hit(&format!("time budget: {skipped} of {total} schedules not run"));
    }
    run.rule(
        "control states of the event BFS to depth 1 (quick) / 3 (thorough) from the four roots x every enabled event except restart x the three orders of \
         {request, event} (event first / request headers accepted, event runs to completion, then the body is fed / request first) x {none, garbage, admin, every issued, \
         revoked, to-be-bound and one unissued token of A and B} x POST {/, /A, /B, /missing} x {Read doc.get or db.list, Mutating doc.add}, CBOR. In the in-flight order \
         all requests are parked first (streamed body, driven until the server polls the body or answers from the headers), the event runs once, the bodies are fed one \
         request at a time. distinct = (state, event, order)",
    );
    run.assume("single-threaded runtime; the in-flight point is `the handler's body extractor is waiting` (after the header-only middleware); one event per schedule; answers are classified rejected (byte-identical to the same caller's answer for a nonexistent database) or served (any status but 401/403)");
    run.finish();
}

//! Reference model of the server's control plane, written from the documented
//! rules (auth.rs module docs, state.rs doc comments), never calling them:
//! which databases exist / are open, which token is bound to which database,
//! and from that the access class of every (token, route, target) tuple.

use serde_json::{Value, json};

use crate::world::{ADMIN_KEY, DB_A, DB_B};

pub const DBS: [&str; 2] = [DB_A, DB_B];

#[derive(Clone, Copy, Debug, PartialEq, Eq, PartialOrd, Ord, Hash)]
pub enum Status {
    /// Never created.
    Absent,
    /// Open since creation (collection handle loaded, "warm").
    OpenWarm,
    /// Reopened (db.open / db.connect / server restart) — collections not
    /// loaded yet ("cold").
    OpenCold,
    /// Closed with db.close: not served, not in the registry; binding kept.
    Closed,
}

impl Status {
    pub fn is_open(&self) -> bool {
        matches!(self, Status::OpenWarm | Status::OpenCold)
    }
    pub fn label(&self) -> &'static str {
        match self {
            Status::Absent => "absent",
            Status::OpenWarm => "open-warm",
            Status::OpenCold => "open-cold",
            Status::Closed => "closed",
        }
    }
}

#[derive(Clone, Debug, PartialEq, Eq, PartialOrd, Ord, Hash)]
pub struct DbModel {
    pub status: Status,
    /// Index (1-based) of the currently bound token of this database.
    pub bound: Option<u8>,
    /// How many tokens were issued for this database so far (tokens
    /// 1..=issued exist; the ones that are not `bound` are revoked).
    pub issued: u8,
}

#[derive(Clone, Debug, PartialEq, Eq, PartialOrd, Ord, Hash)]
pub struct Model {
    pub admin: bool,
    pub dbs: [DbModel; 2],
}

#[derive(Clone, Copy, Debug, PartialEq, Eq, PartialOrd, Ord, Hash)]
pub enum Root {
    /// Admin key configured, no tenant database.
    Admin,
    /// No admin key: the unauthenticated loopback mode.
    Loopback,
    /// Admin key, A and B created with their own keys.
    AdminAB,
    /// Admin key, A created with its own key (the only binding).
    AdminA,
}

impl Root {
    pub fn as_str(&self) -> &'static str {
        match self {
            Root::Admin => "admin",
            Root::Loopback => "loopback",
            Root::AdminAB => "admin+A(key)+B(key)",
            Root::AdminA => "admin+A(key)",
        }
    }
    pub fn parse(s: &str) -> Option<Root> {
        [Root::Admin, Root::Loopback, Root::AdminAB, Root::AdminA].into_iter().find(|r| r.as_str() == s)
    }
    pub fn has_admin(&self) -> bool {
        !matches!(self, Root::Loopback)
    }
    /// The events that build the root state from an empty server.
    pub fn prelude(&self) -> Vec<Event> {
        match self {
            Root::Admin | Root::Loopback => vec![],
            Root::AdminAB => vec![Event::Create { db: 0, key: true }, Event::Create { db: 1, key: true }],
            Root::AdminA => vec![Event::Create { db: 0, key: true }],
        }
    }
}

#[derive(Clone, Copy, Debug, PartialEq, Eq, PartialOrd, Ord, Hash)]
pub enum Event {
    /// db.create, with or without `api_key`; followed by seeding as admin.
    Create { db: usize, key: bool },
    /// db.set_api_key with the next unused token (binds or rotates).
    SetKey { db: usize },
    /// db.remove_api_key.
    RemoveKey { db: usize },
    /// db.close.
    Close { db: usize },
    /// db.open of a closed database.
    Open { db: usize },
    /// db.connect: reopens a closed database or creates a missing one.
    Connect { db: usize },
    /// Graceful shutdown and a new server instance over the same store.
    Restart,
}

impl Event {
    pub fn to_json(&self) -> Value {
        match self {
            Event::Create { db, key } => json!({"ev": "create", "db": DBS[*db], "key": key}),
            Event::SetKey { db } => json!({"ev": "set_api_key", "db": DBS[*db]}),
            Event::RemoveKey { db } => json!({"ev": "remove_api_key", "db": DBS[*db]}),
            Event::Close { db } => json!({"ev": "close", "db": DBS[*db]}),
            Event::Open { db } => json!({"ev": "open", "db": DBS[*db]}),
            Event::Connect { db } => json!({"ev": "connect", "db": DBS[*db]}),
            Event::Restart => json!({"ev": "restart"}),
        }
    }
    pub fn from_json(v: &Value) -> Option<Event> {
        let db = || DBS.iter().position(|d| Some(*d) == v.get("db").and_then(|d| d.as_str()));
        Some(match v.get("ev")?.as_str()? {
            "create" => Event::Create { db: db()?, key: v.get("key")?.as_bool()? },
            "set_api_key" => Event::SetKey { db: db()? },
            "remove_api_key" => Event::RemoveKey { db: db()? },
            "close" => Event::Close { db: db()? },
            "open" => Event::Open { db: db()? },
            "connect" => Event::Connect { db: db()? },
            "restart" => Event::Restart,
            _ => return None,
        })
    }
    pub fn all() -> Vec<Event> {
        let mut out = Vec::new();
        for db in 0..2 {
            out.push(Event::Create { db, key: false });
            out.push(Event::Create { db, key: true });
            out.push(Event::SetKey { db });
            out.push(Event::RemoveKey { db });
            out.push(Event::Close { db });
            out.push(Event::Open { db });
            out.push(Event::Connect { db });
        }
        out.push(Event::Restart);
        out
    }
}

/// The i-th (1-based) token of database `db`.
pub fn token(db: usize, i: u8) -> String {
    format!("key-{}-{i}-{}", DBS[db].trim_end_matches("_db"), vcore::util::fnv_hex(format!("{db}/{i}").as_bytes()))
}

impl Model {
    pub fn new(admin: bool) -> Model {
        let d = DbModel { status: Status::Absent, bound: None, issued: 0 };
        Model { admin, dbs: [d.clone(), d] }
    }

    pub fn of_root(root: Root) -> Model {
        let mut m = Model::new(root.has_admin());
        for e in root.prelude() {
            assert!(m.enabled(e));
            m.apply(e);
        }
        m
    }

    /// An event is enabled when the documented behaviour is "succeeds and may
    /// change the control state". Refused requests (creating an existing
    /// database, rotating the key of a closed one, binding a key without an
    /// admin key ...) are part of the request matrix, not of the histories.
    pub fn enabled(&self, e: Event) -> bool {
        match e {
            Event::Create { db, key } => self.dbs[db].status == Status::Absent && (!key || self.admin),
            Event::SetKey { db } => self.admin && self.dbs[db].status.is_open(),
            Event::RemoveKey { db } => self.dbs[db].status.is_open() && self.dbs[db].bound.is_some(),
            Event::Close { db } => self.dbs[db].status.is_open(),
            Event::Open { db } => self.dbs[db].status == Status::Closed,
            Event::Connect { db } => matches!(self.dbs[db].status, Status::Closed | Status::Absent),
            Event::Restart => true,
        }
    }

    pub fn apply(&mut self, e: Event) {
        match e {
            Event::Create { db, key } => {
                let d = &mut self.dbs[db];
                d.status = Status::OpenWarm;
                if key {
                    d.issued += 1;
                    d.bound = Some(d.issued);
                }
            }
            Event::SetKey { db } => {
                let d = &mut self.dbs[db];
                d.issued += 1;
                d.bound = Some(d.issued);
            }
            Event::RemoveKey { db } => self.dbs[db].bound = None,
            Event::Close { db } => self.dbs[db].status = Status::Closed,
            Event::Open { db } => self.dbs[db].status = Status::OpenCold,
            Event::Connect { db } => {
                let d = &mut self.dbs[db];
                d.status = if d.status == Status::Absent { Status::OpenWarm } else { Status::OpenCold };
            }
            Event::Restart => {
                for d in &mut self.dbs {
                    if d.status.is_open() {
                        d.status = Status::OpenCold;
                    }
                }
            }
        }
    }

    /// Token currently bound to database `db`.
    pub fn bound_token(&self, db: usize) -> Option<String> {
        self.dbs[db].bound.map(|i| token(db, i))
    }

    pub fn canon(&self) -> String {
        let d = |i: usize| {
            let d = &self.dbs[i];
            format!(
                "{}:{}:{}/{}",
                ["A", "B"][i],
                d.status.label(),
                d.bound.map(|b| format!("k{b}")).unwrap_or_else(|| "nokey".into()),
                d.issued
            )
        };
        format!("{} {} {}", if self.admin { "admin" } else { "loopback" }, d(0), d(1))
    }

    pub fn is_admin_token(&self, token: Option<&str>) -> bool {
        !self.admin || token == Some(ADMIN_KEY)
    }

    /// Index of the database whose *currently bound* token is `token`.
    pub fn holder_of(&self, token: Option<&str>) -> Option<usize> {
        let t = token?;
        (0..2).find(|db| self.bound_token(*db).as_deref() == Some(t))
    }
}

/// Access class the documented rules give a request.
#[derive(Clone, Copy, Debug, PartialEq, Eq)]
pub enum Access {
    /// `GET /`: public, principal-independent.
    Public,
    /// Answered from the path alone (no route / undecodable segment).
    PathLevel,
    /// Admin principal (admin key, or any caller on a loopback instance).
    Admin,
    /// Holder of the key bound to the addressed database `db`.
    Scoped(usize),
    /// Uniform rejection.
    Reject,
}

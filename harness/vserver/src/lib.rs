//! Shared helpers for the vserver check parts.

//! Shared helpers for the vserver check parts (C14).
pub mod table;
pub mod world;

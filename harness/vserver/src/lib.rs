//! Shared helpers for the vserver check parts (C14).
pub mod cells;
pub mod matrix;
pub mod model;
pub mod names;
pub mod table;
pub mod world;

//! Shared helpers for the vserver check parts (C14).
pub mod cells;
pub mod matrix;
pub mod model;
pub mod table;
pub mod world;

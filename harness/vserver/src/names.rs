//! The name universe of a world: the primary database, the two tenant
//! databases A and B, a name that is never created (`missing`) and the name
//! of the oracle's reference request (`nowhere`).
//!
//! The names are deliberately adversarial in the relations string-handling
//! code can confuse: proper prefix, proper suffix, substring, names that
//! differ only in a separator character, the primary's name as prefix/suffix
//! of a tenant's and the other way round, names at the length limit. Every
//! shape is a complete universe; the current one is installed per thread
//! (every world is built and driven on one thread).
//!
//! Database names are restricted to `[a-z0-9_]{1,64}` by the server, so a
//! *case variant* of a name can never be a database: case variants (and other
//! near spellings) are request targets, see `cells::targets`.

use std::cell::Cell;
use std::sync::OnceLock;

#[derive(Clone, Copy, Debug, PartialEq, Eq)]
pub struct Names {
    /// Stable label (replay files, evidence).
    pub label: &'static str,
    /// The relation this shape is about, written out.
    pub relation: &'static str,
    pub primary: &'static str,
    pub dbs: [&'static str; 2],
    /// A well-formed (unless the shape says otherwise) name that is never created.
    pub missing: &'static str,
    /// Never created either; only used for the reference request of the oracle.
    pub nowhere: &'static str,
}

const NOWHERE: &str = "nowhere_db";

/// Every namespace shape. Shape 0 is the default: every part that does not
/// choose a shape (and the whole event BFS of `hist`) runs in it.
pub fn shapes() -> &'static [Names] {
    static SHAPES: OnceLock<Vec<Names>> = OnceLock::new();
    SHAPES.get_or_init(|| {
        let leak = |s: String| -> &'static str { Box::leak(s.into_boxed_str()) };
        // 63 / 64 / 65 bytes: A is a proper prefix of B, B has the maximum
        // length, `missing` is one byte too long (not a well-formed name)
        let long63 = format!("long_{}", "x".repeat(58));
        let long64 = format!("{long63}y");
        let long65 = format!("{long64}z");
        assert_eq!((long63.len(), long64.len(), long65.len()), (63, 64, 65));
        vec![
            Names {
                label: "prefix",
                relation: "A is a proper prefix of B; the missing name lies between them (A < missing < B as prefixes)",
                primary: "prime_store",
                dbs: ["acme", "acme_eu"],
                missing: "acme_e",
                nowhere: NOWHERE,
            },
            Names {
                label: "suffix",
                relation: "A is a proper suffix of B; the missing name is a suffix of B that has A as suffix",
                primary: "prime_store",
                dbs: ["acme", "eu_acme"],
                missing: "u_acme",
                nowhere: NOWHERE,
            },
            Names {
                label: "substring",
                relation: "A is an inner substring of B; the missing name is an inner substring of A",
                primary: "prime_store",
                dbs: ["acme", "x_acme_x"],
                missing: "cm",
                nowhere: NOWHERE,
            },
            Names {
                label: "separator",
                relation: "A and B differ only in a separator character (`ac_me` / `acme`); the missing name differs from both in one more",
                primary: "prime_store",
                dbs: ["ac_me", "acme"],
                missing: "a_c_me",
                nowhere: NOWHERE,
            },
            Names {
                label: "primary-in-tenant",
                relation: "the primary's name is a proper prefix of A's and a proper suffix of B's; the missing name is a proper prefix of the primary's",
                primary: "prime",
                dbs: ["prime_a", "b_prime"],
                missing: "prim",
                nowhere: NOWHERE,
            },
            Names {
                label: "tenant-in-primary",
                relation: "A's name is a proper prefix of the primary's, B's a proper suffix; the missing name lies between A and the primary",
                primary: "acme_vault",
                dbs: ["acme", "vault"],
                missing: "acme_vaul",
                nowhere: NOWHERE,
            },
            Names {
                label: "max-length",
                relation: "A has 63 bytes and is a proper prefix of B, which has the maximum 64; the missing name extends B to 65 bytes (too long to be a name)",
                primary: "prime_store",
                dbs: [leak(long63), leak(long64)],
                missing: leak(long65),
                nowhere: NOWHERE,
            },
        ]
    })
}

pub fn shape(label: &str) -> Option<Names> {
    shapes().iter().find(|s| s.label == label).copied()
}

thread_local! {
    static CURRENT: Cell<Option<Names>> = const { Cell::new(None) };
}

/// Installs `n` as the name universe of every world built on this thread
/// from now on.
pub fn install(n: Names) {
    CURRENT.with(|c| c.set(Some(n)));
}

pub fn current() -> Names {
    CURRENT.with(|c| c.get()).unwrap_or_else(|| shapes()[0])
}

/// Name of tenant database `i` (0 = A, 1 = B).
pub fn dbn(i: usize) -> &'static str {
    current().dbs[i]
}

pub fn primary() -> &'static str {
    current().primary
}

pub fn missing() -> &'static str {
    current().missing
}

pub fn nowhere_name() -> &'static str {
    current().nowhere
}

/// Index of the tenant database called `name`, in the current universe or —
/// for replay files written before the universe was parameterised — by its
/// old fixed name.
pub fn position(name: &str) -> Option<usize> {
    let n = current();
    n.dbs.iter().position(|d| *d == name).or_else(|| ["alpha_db", "bravo_db"].iter().position(|d| *d == name))
}

/// `[a-z0-9_]{1,64}`: what the server accepts as a database name.
pub fn well_formed(name: &str) -> bool {
    !name.is_empty() && name.len() <= 64 && name.bytes().all(|b| matches!(b, b'a'..=b'z' | b'0'..=b'9' | b'_'))
}

//! The request matrix: principals × targets × encodings × bodies, each with
//! the access class the model assigns to it.

use serde_json::{Value, json};
use sha3::Digest;

use crate::model::{Access, Model, token};
use crate::names::{dbn, missing, nowhere_name, primary, well_formed};
use crate::table::{Effect, Tables, UNKNOWN_METHODS};
use crate::world::{ADMIN_KEY, Auth, COLLECTION, Enc, MAX_BODY, Req, collection_params};

pub fn sha3_hex(s: &str) -> String {
    let mut h = sha3::Sha3_256::new();
    h.update(s.as_bytes());
    hex::encode(h.finalize())
}

/// The token `anda-db-server` verifies when no binding exists (timing
/// equalisation); presenting it must authorize nothing.
const TIMING_DUMMY_KEY: &str = "anda-db-server-timing-equalization-dummy";

#[derive(Clone, Debug)]
pub struct Principal {
    /// Stable label: `none`, `garbage`, `admin`, `key:alpha_db:1` ...
    pub label: String,
    /// Kind used in signatures / distinct keys: none | garbage | malformed |
    /// admin | bound-key | revoked-key | unissued-key | key-hash
    pub kind: &'static str,
    pub auth: Auth,
    /// The bearer token the documented extraction yields (None: absent or
    /// malformed header).
    pub token: Option<String>,
    /// Constructed near-miss credentials are sent with a small body subset
    /// (the decision they probe is taken before the body is looked at).
    pub focused: bool,
}

fn sha3_digest(s: &str) -> [u8; 32] {
    let mut h = sha3::Sha3_256::new();
    h.update(s.as_bytes());
    h.finalize().into()
}

/// Garbage tokens whose SHA3-256 digest (the hash the server stores and
/// compares) agrees with the digest of `key` in exactly the places a
/// short-cut comparison could look at: last byte, first byte, first two
/// bytes, last two bytes. Found by a deterministic counter search, once per
/// key per process.
pub fn near_misses(key: &str) -> Vec<(&'static str, String)> {
    use std::collections::HashMap;
    use std::sync::{Mutex, OnceLock};
    static CACHE: OnceLock<Mutex<HashMap<String, Vec<(&'static str, String)>>>> = OnceLock::new();
    let cache = CACHE.get_or_init(|| Mutex::new(HashMap::new()));
    if let Some(v) = cache.lock().unwrap().get(key) {
        return v.clone();
    }
    let want = sha3_digest(key);
    let classes: [(&'static str, fn(&[u8; 32], &[u8; 32]) -> bool); 4] = [
        ("last-byte", |a, b| a[31] == b[31]),
        ("first-byte", |a, b| a[0] == b[0]),
        ("first-2-bytes", |a, b| a[..2] == b[..2]),
        ("last-2-bytes", |a, b| a[30..] == b[30..]),
    ];
    let mut found: Vec<Option<String>> = vec![None; classes.len()];
    let tag = vcore::util::fnv_hex(key.as_bytes());
    let mut counter: u64 = 0;
    while found.iter().any(|f| f.is_none()) && counter < 5_000_000 {
        let candidate = format!("garbage-{tag}-{counter}");
        counter += 1;
        let d = sha3_digest(&candidate);
        if d == want {
            continue;
        }
        for (i, (_, agrees)) in classes.iter().enumerate() {
            if found[i].is_none() && agrees(&d, &want) {
                found[i] = Some(candidate.clone());
            }
        }
    }
    let out: Vec<(&'static str, String)> =
        classes.iter().zip(found).filter_map(|((name, _), f)| f.map(|t| (*name, t))).collect();
    cache.lock().unwrap().insert(key.to_string(), out.clone());
    out
}

pub fn principals(m: &Model) -> Vec<Principal> {
    let mut out = Vec::new();
    let mut push = |label: String, kind: &'static str, auth: Auth| {
        let token = match &auth {
            Auth::Bearer(t) => Some(t.clone()),
            _ => None,
        };
        let focused = kind == "near-miss";
        out.push(Principal { label, kind, auth, token, focused });
    };
    push("none".into(), "none", Auth::None);
    push("garbage".into(), "garbage", Auth::Bearer("definitely-not-a-key".into()));
    push("timing-dummy".into(), "garbage", Auth::Bearer(TIMING_DUMMY_KEY.into()));
    push("empty-bearer".into(), "garbage", Auth::Bearer(String::new()));
    push("malformed:basic".into(), "malformed", Auth::Raw(b"Basic YWRtaW46YWRtaW4=".to_vec()));
    push("malformed:no-token".into(), "malformed", Auth::Raw(b"Bearer".to_vec()));
    push("malformed:non-utf8".into(), "malformed", Auth::Raw(b"Bearer \xff\xfe\xfd".to_vec()));
    push("admin".into(), "admin", Auth::Bearer(ADMIN_KEY.into()));
    for db in 0..2 {
        let d = &m.dbs[db];
        for i in 1..=d.issued + 1 {
            let kind = if d.bound == Some(i) {
                "bound-key"
            } else if i <= d.issued {
                "revoked-key"
            } else {
                "unissued-key"
            };
            push(format!("key:{}:{i}", dbn(db)), kind, Auth::Bearer(token(db, i)));
        }
        if let Some(t) = m.bound_token(db) {
            push(format!("key-hash:{}", dbn(db)), "key-hash", Auth::Bearer(sha3_hex(&t)));
        }
    }
    // constructed near misses of every key that exists (or existed) in this
    // state: the admin key, every bound and every revoked database token
    let mut keys: Vec<(String, String)> = vec![("admin".to_string(), ADMIN_KEY.to_string())];
    for db in 0..2 {
        for i in 1..=m.dbs[db].issued {
            keys.push((format!("key:{}:{i}", dbn(db)), token(db, i)));
        }
    }
    for (name, key) in keys {
        // (a server-generated key differs in every world: the digest search
        // is not repeated for it; prefix / extension / hash-hex still are)
        let searched = if key.starts_with("key-") || key == ADMIN_KEY { near_misses(&key) } else { Vec::new() };
        for (class, t) in searched {
            push(format!("near-miss:{class}:{name}"), "near-miss", Auth::Bearer(t));
        }
        push(format!("near-miss:prefix:{name}"), "near-miss", Auth::Bearer(key[..key.len() - 1].to_string()));
        push(format!("near-miss:extension:{name}"), "near-miss", Auth::Bearer(format!("{key}0")));
        push(format!("near-miss:hash-hex:{name}"), "near-miss", Auth::Bearer(sha3_hex(&key)));
    }
    out
}

/// Bodies sent by the `focused` principals.
pub fn in_focus(b: &Body) -> bool {
    match &b.kind {
        BodyKind::Method { name, variant: Variant::Minimal } => {
            matches!(name.as_str(), "info" | "doc.get" | "doc.add" | "db.set_api_key" | "db.list")
        }
        BodyKind::Probe(p) => *p == "oversized",
        _ => false,
    }
}

/// Near spellings of a tenant database's name. None of them is the name
/// (unless it happens to be the *other* database's name in some name
/// universe, which is resolved by decoding the segment): a server that
/// normalises, truncates, trims or pattern-matches names somewhere between
/// the router and the key map answers them differently from a name that
/// never existed.
#[derive(Clone, Copy, Debug, PartialEq, Eq, PartialOrd, Ord, Hash)]
pub enum Near {
    /// `/ACME_EU`: the name in upper case (not a well-formed name).
    Upper,
    /// `/Acme_eu`: first byte in upper case only.
    Capital,
    /// The name without its last byte.
    Trunc,
    /// The name followed by `_`.
    Ext,
    /// The name with its separators removed or, if it has none, with one
    /// inserted after the first byte.
    Sep,
    /// `/%2561cme`: decodes to a string that still holds a percent escape.
    DoublePct,
    /// The name followed by an encoded space.
    Space,
    /// The name followed by an encoded NUL.
    Nul,
}

pub const NEARS: [Near; 8] = [Near::Upper, Near::Capital, Near::Trunc, Near::Ext, Near::Sep, Near::DoublePct, Near::Space, Near::Nul];

impl Near {
    pub fn as_str(&self) -> &'static str {
        match self {
            Near::Upper => "upper-case",
            Near::Capital => "capitalised",
            Near::Trunc => "truncated",
            Near::Ext => "extended",
            Near::Sep => "separator-variant",
            Near::DoublePct => "double-percent-encoded",
            Near::Space => "trailing-space",
            Near::Nul => "trailing-nul",
        }
    }
    /// (raw path, the segment as the router decodes it)
    fn spell(&self, name: &str) -> (String, String) {
        let plain = |s: String| (format!("/{s}"), s);
        match self {
            Near::Upper => plain(name.to_ascii_uppercase()),
            Near::Capital => plain(format!("{}{}", name[..1].to_ascii_uppercase(), &name[1..])),
            Near::Trunc => plain(name[..name.len() - 1].to_string()),
            Near::Ext => plain(format!("{name}_")),
            Near::Sep => plain(if name.contains('_') { name.replace('_', "") } else { format!("{}_{}", &name[..1], &name[1..]) }),
            Near::DoublePct => {
                let inner = format!("%{:02X}{}", name.as_bytes()[0], &name[1..]);
                (format!("/%25{}", &inner[1..]), inner)
            }
            Near::Space => (format!("/{name}%20"), format!("{name} ")),
            Near::Nul => (format!("/{name}%00"), format!("{name}\0")),
        }
    }
}

#[derive(Clone, Copy, Debug, PartialEq, Eq, PartialOrd, Ord, Hash)]
pub enum TargetKind {
    /// `POST /`
    Root,
    /// `POST /<db>`
    Db(usize),
    /// `POST /<db with its first letter percent-encoded>`
    Pct(usize),
    /// `POST /<db>?db_name=<other>&name=<other>`
    Query(usize),
    /// `POST /<missing>` (never created)
    Missing,
    /// `POST /<primary>` (holds the server state)
    Primary,
    /// `POST /<A capitalised>-DB%21` (decodes to a name no database can have)
    BadName,
    /// `POST /<A>%2Fitems` (an encoded slash inside the segment)
    EncSlash,
    /// `POST /%FF%FE` (undecodable segment)
    BadUtf8,
    /// `POST /<A>/items` (no such route)
    TwoSeg,
    /// A near spelling of the name of database `.1`.
    Near(Near, usize),
    /// `POST /nowhere_db`: the reference request of the oracle
    Nowhere,
}

#[derive(Clone, Debug)]
pub struct Target {
    pub kind: TargetKind,
    pub path: String,
    /// Index of the database the decoded segment names, if A or B.
    pub db: Option<usize>,
    pub path_level: bool,
    /// Sent with the small body subset only (`in_focus`): the decision these
    /// spellings probe is taken from the path before the body is looked at.
    pub focused: bool,
    /// The decoded segment is a well-formed database name.
    pub well_formed: bool,
    /// The path segment as the router decodes it (empty: `/`, undecodable,
    /// or more than one segment). It is the caller's own input: an answer
    /// that echoes it tells the caller nothing.
    pub decoded: String,
}

pub fn targets() -> Vec<Target> {
    let pct = |name: &str| format!("/%{:02X}{}", name.as_bytes()[0], &name[1..]);
    let resolve = |decoded: &str| (0..2).find(|d| dbn(*d) == decoded);
    let t = |kind, path: String, decoded: &str, path_level| Target {
        kind,
        path,
        db: resolve(decoded),
        path_level,
        focused: false,
        well_formed: well_formed(decoded),
        decoded: decoded.to_string(),
    };
    let mut out = vec![t(TargetKind::Root, "/".into(), "", false)];
    for db in 0..2 {
        out.push(t(TargetKind::Db(db), format!("/{}", dbn(db)), dbn(db), false));
    }
    for db in 0..2 {
        out.push(t(TargetKind::Pct(db), pct(dbn(db)), dbn(db), false));
        let o = dbn(1 - db);
        out.push(t(TargetKind::Query(db), format!("/{}?db_name={o}&name={o}&db={o}", dbn(db)), dbn(db), false));
    }
    out.push(t(TargetKind::Missing, format!("/{}", missing()), missing(), false));
    out.push(t(TargetKind::Primary, format!("/{}", primary()), primary(), false));
    let a = dbn(0);
    let cap = format!("{}{}", a[..1].to_ascii_uppercase(), &a[1..]);
    out.push(t(TargetKind::BadName, format!("/{cap}-DB%21"), &format!("{cap}-DB!"), false));
    out.push(t(TargetKind::EncSlash, format!("/{a}%2F{COLLECTION}"), &format!("{a}/{COLLECTION}"), false));
    out.push(t(TargetKind::BadUtf8, "/%FF%FE".into(), "", true));
    out.push(t(TargetKind::TwoSeg, format!("/{a}/{COLLECTION}"), "", true));
    for db in 0..2 {
        for near in NEARS {
            let (path, decoded) = near.spell(dbn(db));
            if decoded.is_empty() || decoded == primary() || out.iter().any(|t: &Target| t.path == path) {
                // (the primary is a target of its own; an empty segment is `POST /`)
                continue;
            }
            let mut n = t(TargetKind::Near(near, db), path, &decoded, false);
            n.focused = true;
            out.push(n);
        }
    }
    out
}

pub fn nowhere() -> Target {
    Target {
        kind: TargetKind::Nowhere,
        path: format!("/{}", nowhere_name()),
        db: None,
        path_level: false,
        focused: false,
        well_formed: true,
        decoded: nowhere_name().to_string(),
    }
}

impl Target {
    /// Coarse class for violation signatures (no database status).
    pub fn sig_class(&self, m: &Model, principal_db: Option<usize>) -> String {
        let dbclass = |db: usize| {
            let own = if principal_db == Some(db) { "own" } else { "other" };
            format!("{own}-db:{}", if m.dbs[db].bound.is_some() { "bound" } else { "unbound" })
        };
        match self.kind {
            TargetKind::Db(db) => dbclass(db),
            TargetKind::Pct(db) => format!("pct-encoded:{}", dbclass(db)),
            TargetKind::Query(db) => format!("with-query:{}", dbclass(db)),
            TargetKind::Near(near, of) => {
                let of = if principal_db == Some(of) { "own" } else { "other" };
                format!("near-name:{}-of-{of}-db", near.as_str())
            }
            _ => self.class(m, principal_db),
        }
    }

    /// Class of the target for distinct-case keys: independent of which of A/B.
    pub fn class(&self, m: &Model, principal_db: Option<usize>) -> String {
        let dbclass = |db: usize| {
            let d = &m.dbs[db];
            let own = if principal_db == Some(db) { "own" } else { "other" };
            format!(
                "{own}-db:{}:{}",
                d.status.label(),
                if d.bound.is_some() { "bound" } else { "unbound" }
            )
        };
        match self.kind {
            TargetKind::Root => "root".into(),
            TargetKind::Db(db) => dbclass(db),
            TargetKind::Pct(db) => format!("pct-encoded:{}", dbclass(db)),
            TargetKind::Query(db) => format!("with-query:{}", dbclass(db)),
            TargetKind::Missing => match self.db {
                Some(db) => format!("missing-is:{}", dbclass(db)),
                None if self.well_formed => "missing".into(),
                None => "missing:malformed".into(),
            },
            TargetKind::Primary => "primary".into(),
            TargetKind::BadName => "bad-name".into(),
            TargetKind::EncSlash => "encoded-slash".into(),
            TargetKind::BadUtf8 => "bad-utf8".into(),
            TargetKind::TwoSeg => "two-segments".into(),
            TargetKind::Near(near, of) => format!(
                "near-name:{}:of-{}:{}",
                near.as_str(),
                dbclass(of),
                match self.db {
                    Some(db) => format!("is-{}", dbclass(db)),
                    None if self.well_formed => "names-no-database".into(),
                    None => "malformed".into(),
                }
            ),
            TargetKind::Nowhere => "nonexistent(reference)".into(),
        }
    }
}

/// The access class the documented rules give (principal, target).
pub fn access(m: &Model, p: &Principal, t: &Target) -> Access {
    if t.path_level {
        return Access::PathLevel;
    }
    if m.is_admin_token(p.token.as_deref()) {
        return Access::Admin;
    }
    match t.db {
        Some(db) if p.token.is_some() && m.bound_token(db) == p.token => Access::Scoped(db),
        _ => Access::Reject,
    }
}

#[derive(Clone, Copy, Debug, PartialEq, Eq, PartialOrd, Ord, Hash)]
pub enum Variant {
    /// Minimal well-formed params.
    Minimal,
    /// `params` is a string instead of a map.
    BadParams,
    /// `db.set_api_key` only: `{name: NAMED[i]}` without `api_key` (the
    /// server generates the key).
    GenKeyFor(usize),
    /// `db.set_api_key` only: `{name: NAMED[i], api_key: ..}`.
    ExplicitKeyFor(usize),
}

/// Databases named in the extra `db.set_api_key` bodies.
pub fn named(i: usize) -> &'static str {
    [dbn(0), dbn(1), primary(), missing()][i]
}
pub const NAMED_COUNT: usize = 4;
pub const NAMED_CLASS: [&str; 4] = ["tenant", "tenant", "primary", "missing"];

#[derive(Clone, Debug, PartialEq, Eq)]
pub enum BodyKind {
    Method { name: String, variant: Variant },
    Probe(&'static str),
}

#[derive(Clone, Debug)]
pub struct Body {
    pub kind: BodyKind,
    /// Label used in signatures: the method name, or `probe:<kind>`.
    pub label: String,
}

impl Body {
    pub fn method(&self) -> Option<&str> {
        match &self.kind {
            BodyKind::Method { name, .. } => Some(name),
            _ => None,
        }
    }
    /// Coarse body class for signatures of cells that are decided before the
    /// method is looked at.
    pub fn sig_class(&self) -> String {
        match &self.kind {
            BodyKind::Method { variant: Variant::Minimal, .. } => "method".into(),
            BodyKind::Method { variant: Variant::BadParams, .. } => "method-bad-params".into(),
            BodyKind::Method { .. } => "method".into(),
            BodyKind::Probe(p) => format!("probe:{p}"),
        }
    }
    pub fn variant(&self) -> Option<Variant> {
        match &self.kind {
            BodyKind::Method { variant, .. } => Some(*variant),
            _ => None,
        }
    }
}

/// Method-less probes. The last three vary the encoding negotiation: the
/// response encoding follows `Accept` when present (here: the OTHER encoding
/// than the body's), an unusable `Accept` falls back to the content type, and
/// the content type is matched case-insensitively / with parameters.
pub const PROBES: [&str; 9] = [
    "garbage",
    "empty",
    "oversized",
    "no-content-type",
    "text-plain",
    "missing-method",
    "accept-other-encoding",
    "accept-unusable",
    "content-type-variant",
];

/// Order in which method bodies are sent inside one phase: read-only first,
/// then mutating ones, the destructive ones last, so that earlier cells see
/// the seeded data.
fn method_rank(name: &str, effect: Option<Effect>) -> (u8, String) {
    let destructive = [
        "doc.remove",
        "collection.remove_extension",
        "db.remove_extension",
        "collection.delete",
        "db.remove_api_key",
        "db.close",
    ];
    let rank = match effect {
        None => 0,
        Some(Effect::Read) => 1,
        Some(Effect::Mutating) if !destructive.contains(&name) => 2,
        Some(Effect::Mutating) => 3 + destructive.iter().position(|d| *d == name).unwrap() as u8,
    };
    (rank, name.to_string())
}

/// All bodies: every method name of both tables + the unknown names, in both
/// variants, then the method-less probes.
pub fn bodies(tables: &Tables) -> Vec<Body> {
    let mut names: Vec<(String, Option<Effect>)> = Vec::new();
    for n in UNKNOWN_METHODS {
        names.push((n.to_string(), None));
    }
    for (n, e) in tables.root.iter().chain(tables.db.iter()) {
        if !names.iter().any(|(x, _)| x == n) {
            // a name in both tables (`info`) has the same label in both
            names.push((n.clone(), Some(*e)));
        }
    }
    names.sort_by_key(|(n, e)| method_rank(n, *e));
    let mut out = Vec::new();
    for (n, _) in &names {
        let mut variants = vec![Variant::Minimal, Variant::BadParams];
        if n == "db.set_api_key" {
            variants.extend((0..NAMED_COUNT).map(Variant::GenKeyFor));
            variants.extend([2, 3].map(Variant::ExplicitKeyFor));
        }
        for variant in variants {
            out.push(Body {
                kind: BodyKind::Method { name: n.clone(), variant },
                label: n.clone(),
            });
        }
    }
    for p in PROBES {
        out.push(Body { kind: BodyKind::Probe(p), label: format!("probe:{p}") });
    }
    out
}

/// Field names a handler could be tempted to read a database name from; they
/// are added to every params map and name the *victim* database.
fn with_victim(mut v: Value, victim: &str) -> Value {
    if v.is_null() {
        v = json!({});
    }
    if let Some(map) = v.as_object_mut() {
        for k in ["db", "db_name", "database"] {
            map.insert(k.to_string(), json!(victim));
        }
    }
    v
}

/// Methods this harness has hand-written minimal params for. A method that
/// is added to the tables later is still sent (with generic params) and
/// reported as `methods_without_params`.
pub fn has_params(name: &str) -> bool {
    !matches!(minimal_params(name, "x"), Value::String(_))
}

/// Minimal well-formed params per method name; `victim` is the database a
/// caller confined to another database would try to reach.
pub fn minimal_params(name: &str, victim: &str) -> Value {
    let c = COLLECTION;
    let search = json!({"search": {"text": "common"}, "limit": 10});
    let filter = json!({"Field": ["score", {"Ge": 10}]});
    let v = match name {
        // root table
        "info" | "db.list" => Value::Null,
        "db.create" => return json!({"name": "scratch_db", "description": "made by the matrix"}),
        "db.open" | "db.connect" | "db.close" | "db.remove_api_key" => return json!({"name": victim}),
        "db.set_api_key" => return json!({"name": victim, "api_key": "hijacked-key-5150"}),
        // db table
        "db.metadata" | "db.stats" | "db.flush" | "collection.list" => Value::Null,
        "db.set_read_only" => json!({"read_only": false}),
        "db.get_extension" | "db.remove_extension" => json!({"key": "note"}),
        "db.save_extension" => json!({"key": "note2", "value": "written by the matrix"}),
        "collection.create" => {
            let mut p = collection_params("matrix");
            p["config"]["name"] = json!("extra");
            p
        }
        "collection.ensure" => {
            let mut p = collection_params("matrix");
            p["config"]["name"] = json!("extra2");
            p
        }
        "collection.metadata" | "collection.stats" | "collection.delete" | "collection.flush" | "doc.count" => {
            json!({"collection": c})
        }
        "collection.set_read_only" => json!({"collection": c, "read_only": false}),
        "collection.get_extension" | "collection.remove_extension" => json!({"collection": c, "key": "note"}),
        "collection.save_extension" => json!({"collection": c, "key": "note2", "value": "written by the matrix"}),
        "doc.add" => json!({"collection": c, "doc": {"title": "added", "body": "common text added", "score": 30}}),
        "doc.add_many" => json!({"collection": c, "docs": [
            {"title": "many1", "body": "common text many", "score": 31},
            {"title": "many2", "body": "common text many", "score": 32}]}),
        "doc.get" | "doc.exists" | "doc.remove" => json!({"collection": c, "_id": 1}),
        "doc.get_many" => json!({"collection": c, "_ids": [1, 2, 99]}),
        "doc.update" => json!({"collection": c, "_id": 2, "fields": {"score": 77}}),
        "doc.search" | "doc.search_ids" => json!({"collection": c, "query": search}),
        "doc.query_ids" | "doc.query_last_ids" => json!({"collection": c, "filter": filter, "limit": 10}),
        // unknown to this harness (unknown-method probes and methods added later)
        _ if UNKNOWN_METHODS.contains(&name) => Value::Null,
        _ => return Value::String(format!("no-params-for:{name}")),
    };
    with_victim(v, victim)
}

fn generic_params(victim: &str) -> Value {
    with_victim(
        json!({"collection": COLLECTION, "name": victim, "key": "note", "_id": 1, "_ids": [1], "read_only": false,
               "value": "v", "doc": {}, "docs": [], "fields": {}, "query": {}, "filter": {"Field": ["score", {"Ge": 10}]}}),
        victim,
    )
}

impl Body {
    /// The request for this body at `path` in encoding `enc`.
    pub fn request(&self, path: &str, auth: Auth, enc: Enc, victim: &str) -> Req {
        let mut req = Req {
            verb: "POST",
            path: path.to_string(),
            auth,
            content_type: Some(enc.content_type()),
            accept: None,
            body: Default::default(),
        };
        match &self.kind {
            BodyKind::Method { name, variant } => {
                let params = match variant {
                    Variant::BadParams => json!("these-params-are-a-string"),
                    Variant::GenKeyFor(i) => json!({"name": named(*i)}),
                    Variant::ExplicitKeyFor(i) => json!({"name": named(*i), "api_key": "explicit-key-2718"}),
                    Variant::Minimal => match minimal_params(name, victim) {
                        Value::String(_) => generic_params(victim),
                        p => p,
                    },
                };
                let doc = if params.is_null() {
                    json!({"method": name})
                } else {
                    json!({"method": name, "params": params})
                };
                req.body = enc.encode(&doc).into();
            }
            BodyKind::Probe(kind) => {
                let info: bytes::Bytes = enc.encode(&json!({"method": "info"})).into();
                match *kind {
                    "garbage" => req.body = bytes::Bytes::from_static(b"\xff\xfe\x00 not a document {{["),
                    "empty" => {}
                    "oversized" => {
                        let pad = "x".repeat(MAX_BODY + 1024);
                        req.body = enc.encode(&json!({"method": "info", "params": {"pad": pad}})).into();
                    }
                    "no-content-type" => {
                        req.content_type = None;
                        req.body = info;
                    }
                    "text-plain" => {
                        req.content_type = Some("text/plain");
                        req.body = info;
                    }
                    "missing-method" => req.body = enc.encode(&json!({"params": {"collection": COLLECTION}})).into(),
                    "accept-other-encoding" => {
                        req.accept = Some(match enc {
                            Enc::Cbor => "application/json",
                            Enc::Json => "application/cbor",
                        });
                        req.body = info;
                    }
                    "accept-unusable" => {
                        req.accept = Some("text/html, application/json;q=0");
                        req.body = info;
                    }
                    "content-type-variant" => {
                        req.content_type = Some(match enc {
                            Enc::Cbor => "APPLICATION/CBOR",
                            Enc::Json => "application/json; charset=utf-8",
                        });
                        req.body = info;
                    }
                    other => unreachable!("probe {other}"),
                }
            }
        }
        req
    }
}

/// Effect label of `name` on the route of `target` (root table for `POST /`,
/// database table otherwise); `None` = not in that table.
pub fn effect_at(tables: &Tables, target: &Target, name: &str) -> Option<Effect> {
    if target.kind == TargetKind::Root {
        tables.root.get(name).copied()
    } else {
        tables.db.get(name).copied()
    }
}

/// Every body encoded once per (victim, encoding): the matrix sends each of
/// them to every (principal, target).
pub struct Prepared {
    /// `[victim][body][enc]` -> (content type, accept, bytes)
    table: Vec<Vec<[(Option<&'static str>, Option<&'static str>, bytes::Bytes); 2]>>,
}

impl Prepared {
    pub fn new(bs: &[Body]) -> Prepared {
        let table = (0..2)
            .map(|victim| {
                bs.iter()
                    .map(|b| {
                        [Enc::Cbor, Enc::Json].map(|enc| {
                            let r = b.request("/", Auth::None, enc, dbn(victim));
                            (r.content_type, r.accept, r.body)
                        })
                    })
                    .collect()
            })
            .collect();
        Prepared { table }
    }

    pub fn request(&self, bi: usize, path: &str, auth: Auth, enc: Enc, victim: usize) -> Req {
        let (content_type, accept, body) = &self.table[victim][bi][if enc == Enc::Cbor { 0 } else { 1 }];
        Req { verb: "POST", path: path.to_string(), auth, content_type: *content_type, accept: *accept, body: body.clone() }
    }
}

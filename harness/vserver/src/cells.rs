//! The request matrix: principals × targets × encodings × bodies, each with
//! the access class the model assigns to it.

use serde_json::{Value, json};
use sha3::Digest;

use crate::model::{Access, DBS, Model, token};
use crate::table::{Effect, Tables, UNKNOWN_METHODS};
use crate::world::{ADMIN_KEY, Auth, COLLECTION, DB_MISSING, DB_NOWHERE, Enc, MAX_BODY, PRIMARY, Req, collection_params};

pub fn sha3_hex(s: &str) -> String {
    let mut h = sha3::Sha3_256::new();
    h.update(s.as_bytes());
    hex::encode(h.finalize())
}

/// The token `anda-db-server` verifies when no binding exists (timing
/// equalisation); presenting it must authorize nothing.
const TIMING_DUMMY_KEY: &str = "anda-db-server-timing-equalization-dummy";

#[derive(Clone, Debug)]
pub struct Principal {
    /// Stable label: `none`, `garbage`, `admin`, `key:alpha_db:1` ...
    pub label: String,
    /// Kind used in signatures / distinct keys: none | garbage | malformed |
    /// admin | bound-key | revoked-key | unissued-key | key-hash
    pub kind: &'static str,
    pub auth: Auth,
    /// The bearer token the documented extraction yields (None: absent or
    /// malformed header).
    pub token: Option<String>,
    /// Constructed near-miss credentials are sent with a small body subset
    /// (the decision they probe is taken before the body is looked at).
    pub focused: bool,
}

fn sha3_digest(s: &str) -> [u8; 32] {
    let mut h = sha3::Sha3_256::new();
    h.update(s.as_bytes());
    h.finalize().into()
}

/// Garbage tokens whose SHA3-256 digest (the hash the server stores and
/// compares) agrees with the digest of `key` in exactly the places a
/// short-cut comparison could look at: last byte, first byte, first two
/// bytes, last two bytes. Found by a deterministic counter search, once per
/// key per process.
pub fn near_misses(key: &str) -> Vec<(&'static str, String)> {
    use std::collections::HashMap;
    use std::sync::{Mutex, OnceLock};
    static CACHE: OnceLock<Mutex<HashMap<String, Vec<(&'static str, String)>>>> = OnceLock::new();
    let cache = CACHE.get_or_init(|| Mutex::new(HashMap::new()));
    if let Some(v) = cache.lock().unwrap().get(key) {
        return v.clone();
    }
    let want = sha3_digest(key);
    let classes: [(&'static str, fn(&[u8; 32], &[u8; 32]) -> bool); 4] = [
        ("last-byte", |a, b| a[31] == b[31]),
        ("first-byte", |a, b| a[0] == b[0]),
        ("first-2-bytes", |a, b| a[..2] == b[..2]),
        ("last-2-bytes", |a, b| a[30..] == b[30..]),
    ];
    let mut found: Vec<Option<String>> = vec![None; classes.len()];
    let tag = vcore::util::fnv_hex(key.as_bytes());
    let mut counter: u64 = 0;
    while found.iter().any(|f| f.is_none()) && counter < 5_000_000 {
        let candidate = format!("garbage-{tag}-{counter}");
        counter += 1;
        let d = sha3_digest(&candidate);
        if d == want {
            continue;
        }
        for (i, (_, agrees)) in classes.iter().enumerate() {
            if found[i].is_none() && agrees(&d, &want) {
                found[i] = Some(candidate.clone());
            }
        }
    }
    let out: Vec<(&'static str, String)> =
        classes.iter().zip(found).filter_map(|((name, _), f)| f.map(|t| (*name, t))).collect();
    cache.lock().unwrap().insert(key.to_string(), out.clone());
    out
}

pub fn principals(m: &Model) -> Vec<Principal> {
    let mut out = Vec::new();
    let mut push = |label: String, kind: &'static str, auth: Auth| {
        let token = match &auth {
            Auth::Bearer(t) => Some(t.clone()),
            _ => None,
        };
        let focused = kind == "near-miss";
        out.push(Principal { label, kind, auth, token, focused });
    };
    push("none".into(), "none", Auth::None);
    push("garbage".into(), "garbage", Auth::Bearer("definitely-not-a-key".into()));
    push("timing-dummy".into(), "garbage", Auth::Bearer(TIMING_DUMMY_KEY.into()));
    push("empty-bearer".into(), "garbage", Auth::Bearer(String::new()));
    push("malformed:basic".into(), "malformed", Auth::Raw(b"Basic YWRtaW46YWRtaW4=".to_vec()));
    push("malformed:no-token".into(), "malformed", Auth::Raw(b"Bearer".to_vec()));
    push("malformed:non-utf8".into(), "malformed", Auth::Raw(b"Bearer \xff\xfe\xfd".to_vec()));
    push("admin".into(), "admin", Auth::Bearer(ADMIN_KEY.into()));
    for db in 0..2 {
        let d = &m.dbs[db];
        for i in 1..=d.issued + 1 {
            let kind = if d.bound == Some(i) {
                "bound-key"
            } else if i <= d.issued {
                "revoked-key"
            } else {
                "unissued-key"
            };
            push(format!("key:{}:{i}", DBS[db]), kind, Auth::Bearer(token(db, i)));
        }
        if let Some(t) = m.bound_token(db) {
            push(format!("key-hash:{}", DBS[db]), "key-hash", Auth::Bearer(sha3_hex(&t)));
        }
    }
    // constructed near misses of every key that exists (or existed) in this
    // state: the admin key, every bound and every revoked database token
    let mut keys: Vec<(String, String)> = vec![("admin".to_string(), ADMIN_KEY.to_string())];
    for db in 0..2 {
        for i in 1..=m.dbs[db].issued {
            keys.push((format!("key:{}:{i}", DBS[db]), token(db, i)));
        }
    }
    for (name, key) in keys {
        // (a server-generated key differs in every world: the digest search
        // is not repeated for it; prefix / extension / hash-hex still are)
        let searched = if key.starts_with("key-") || key == ADMIN_KEY { near_misses(&key) } else { Vec::new() };
        for (class, t) in searched {
            push(format!("near-miss:{class}:{name}"), "near-miss", Auth::Bearer(t));
        }
        push(format!("near-miss:prefix:{name}"), "near-miss", Auth::Bearer(key[..key.len() - 1].to_string()));
        push(format!("near-miss:extension:{name}"), "near-miss", Auth::Bearer(format!("{key}0")));
        push(format!("near-miss:hash-hex:{name}"), "near-miss", Auth::Bearer(sha3_hex(&key)));
    }
    out
}

/// Bodies sent by the `focused` principals.
pub fn in_focus(b: &Body) -> bool {
    match &b.kind {
        BodyKind::Method { name, variant: Variant::Minimal } => {
            matches!(name.as_str(), "info" | "doc.get" | "doc.add" | "db.set_api_key" | "db.list")
        }
        BodyKind::Probe(p) => *p == "oversized",
        _ => false,
    }
}

#[derive(Clone, Copy, Debug, PartialEq, Eq, PartialOrd, Ord, Hash)]
pub enum TargetKind {
    /// `POST /`
    Root,
    /// `POST /<db>`
    Db(usize),
    /// `POST /<db with its first letter percent-encoded>`
    Pct(usize),
    /// `POST /<db>?db_name=<other>&name=<other>`
    Query(usize),
    /// `POST /ghost_db` (never created)
    Missing,
    /// `POST /prime_store` (holds the server state)
    Primary,
    /// `POST /Alpha-DB%21` (decodes to a name no database can have)
    BadName,
    /// `POST /alpha_db%2Fitems` (an encoded slash inside the segment)
    EncSlash,
    /// `POST /%FF%FE` (undecodable segment)
    BadUtf8,
    /// `POST /alpha_db/items` (no such route)
    TwoSeg,
    /// `POST /nowhere_db`: the reference request of the oracle
    Nowhere,
}

#[derive(Clone, Debug)]
pub struct Target {
    pub kind: TargetKind,
    pub path: String,
    /// Index of the database the decoded segment names, if A or B.
    pub db: Option<usize>,
    pub path_level: bool,
}

pub fn targets() -> Vec<Target> {
    let pct = |name: &str| format!("/%{:02X}{}", name.as_bytes()[0], &name[1..]);
    let t = |kind, path: String, db, path_level| Target { kind, path, db, path_level };
    let mut out = vec![t(TargetKind::Root, "/".into(), None, false)];
    for db in 0..2 {
        out.push(t(TargetKind::Db(db), format!("/{}", DBS[db]), Some(db), false));
    }
    for db in 0..2 {
        out.push(t(TargetKind::Pct(db), pct(DBS[db]), Some(db), false));
        let o = DBS[1 - db];
        out.push(t(TargetKind::Query(db), format!("/{}?db_name={o}&name={o}&db={o}", DBS[db]), Some(db), false));
    }
    out.push(t(TargetKind::Missing, format!("/{DB_MISSING}"), None, false));
    out.push(t(TargetKind::Primary, format!("/{PRIMARY}"), None, false));
    out.push(t(TargetKind::BadName, "/Alpha-DB%21".into(), None, false));
    out.push(t(TargetKind::EncSlash, format!("/{}%2F{COLLECTION}", DBS[0]), None, false));
    out.push(t(TargetKind::BadUtf8, "/%FF%FE".into(), None, true));
    out.push(t(TargetKind::TwoSeg, format!("/{}/{COLLECTION}", DBS[0]), None, true));
    out
}

pub fn nowhere() -> Target {
    Target { kind: TargetKind::Nowhere, path: format!("/{DB_NOWHERE}"), db: None, path_level: false }
}

impl Target {
    /// Coarse class for violation signatures (no database status).
    pub fn sig_class(&self, m: &Model, principal_db: Option<usize>) -> String {
        let dbclass = |db: usize| {
            let own = if principal_db == Some(db) { "own" } else { "other" };
            format!("{own}-db:{}", if m.dbs[db].bound.is_some() { "bound" } else { "unbound" })
        };
        match self.kind {
            TargetKind::Db(db) => dbclass(db),
            TargetKind::Pct(db) => format!("pct-encoded:{}", dbclass(db)),
            TargetKind::Query(db) => format!("with-query:{}", dbclass(db)),
            _ => self.class(m, principal_db),
        }
    }

    /// Class of the target for distinct-case keys: independent of which of A/B.
    pub fn class(&self, m: &Model, principal_db: Option<usize>) -> String {
        let dbclass = |db: usize| {
            let d = &m.dbs[db];
            let own = if principal_db == Some(db) { "own" } else { "other" };
            format!(
                "{own}-db:{}:{}",
                d.status.label(),
                if d.bound.is_some() { "bound" } else { "unbound" }
            )
        };
        match self.kind {
            TargetKind::Root => "root".into(),
            TargetKind::Db(db) => dbclass(db),
            TargetKind::Pct(db) => format!("pct-encoded:{}", dbclass(db)),
            TargetKind::Query(db) => format!("with-query:{}", dbclass(db)),
            TargetKind::Missing => "missing".into(),
            TargetKind::Primary => "primary".into(),
            TargetKind::BadName => "bad-name".into(),
            TargetKind::EncSlash => "encoded-slash".into(),
            TargetKind::BadUtf8 => "bad-utf8".into(),
            TargetKind::TwoSeg => "two-segments".into(),
            TargetKind::Nowhere => "nonexistent(reference)".into(),
        }
    }
}

/// The access class the documented rules give (principal, target).
pub fn access(m: &Model, p: &Principal, t: &Target) -> Access {
    if t.path_level {
        return Access::PathLevel;
    }
    if m.is_admin_token(p.token.as_deref()) {
        return Access::Admin;
    }
    match t.db {
        Some(db) if p.token.is_some() && m.bound_token(db) == p.token => Access::Scoped(db),
        _ => Access::Reject,
    }
}

#[derive(Clone, Copy, Debug, PartialEq, Eq, PartialOrd, Ord, Hash)]
pub enum Variant {
    /// Minimal well-formed params.
    Minimal,
    /// `params` is a string instead of a map.
    BadParams,
    /// `db.set_api_key` only: `{name: NAMED[i]}` without `api_key` (the
    /// server generates the key).
    GenKeyFor(usize),
    /// `db.set_api_key` only: `{name: NAMED[i], api_key: ..}`.
    ExplicitKeyFor(usize),
}

/// Databases named in the extra `db.set_api_key` bodies.
pub const NAMED: [&str; 4] = [DBS[0], DBS[1], PRIMARY, DB_MISSING];
pub const NAMED_CLASS: [&str; 4] = ["tenant", "tenant", "primary", "missing"];

#[derive(Clone, Debug, PartialEq, Eq)]
pub enum BodyKind {
    Method { name: String, variant: Variant },
    Probe(&'static str),
}

#[derive(Clone, Debug)]
pub struct Body {
    pub kind: BodyKind,
    /// Label used in signatures: the method name, or `probe:<kind>`.
    pub label: String,
}

impl Body {
    pub fn method(&self) -> Option<&str> {
        match &self.kind {
            BodyKind::Method { name, .. } => Some(name),
            _ => None,
        }
    }
    /// Coarse body class for signatures of cells that are decided before the
    /// method is looked at.
    pub fn sig_class(&self) -> String {
        match &self.kind {
            BodyKind::Method { variant: Variant::Minimal, .. } => "method".into(),
            BodyKind::Method { variant: Variant::BadParams, .. } => "method-bad-params".into(),
            BodyKind::Method { .. } => "method".into(),
            BodyKind::Probe(p) => format!("probe:{p}"),
        }
    }
    pub fn variant(&self) -> Option<Variant> {
        match &self.kind {
            BodyKind::Method { variant, .. } => Some(*variant),
            _ => None,
        }
    }
}

pub const PROBES: [&str; 6] = ["garbage", "empty", "oversized", "no-content-type", "text-plain", "missing-method"];

/// Order in which method bodies are sent inside one phase: read-only first,
/// then mutating ones, the destructive ones last, so that earlier cells see
/// the seeded data.
fn method_rank(name: &str, effect: Option<Effect>) -> (u8, String) {
    let destructive = [
        "doc.remove",
        "collection.remove_extension",
        "db.remove_extension",
        "collection.delete",
        "db.remove_api_key",
        "db.close",
    ];
    let rank = match effect {
        None => 0,
        Some(Effect::Read) => 1,
        Some(Effect::Mutating) if !destructive.contains(&name) => 2,
        Some(Effect::Mutating) => 3 + destructive.iter().position(|d| *d == name).unwrap() as u8,
    };
    (rank, name.to_string())
}

/// All bodies: every method name of both tables + the unknown names, in both
/// variants, then the method-less probes.
pub fn bodies(tables: &Tables) -> Vec<Body> {
    let mut names: Vec<(String, Option<Effect>)> = Vec::new();
    for n in UNKNOWN_METHODS {
        names.push((n.to_string(), None));
    }
    for (n, e) in tables.root.iter().chain(tables.db.iter()) {
        if !names.iter().any(|(x, _)| x == n) {
            // a name in both tables (`info`) has the same label in both
            names.push((n.clone(), Some(*e)));
        }
    }
    names.sort_by_key(|(n, e)| method_rank(n, *e));
    let mut out = Vec::new();
    for (n, _) in &names {
        let mut variants = vec![Variant::Minimal, Variant::BadParams];
        if n == "db.set_api_key" {
            variants.extend((0..NAMED.len()).map(Variant::GenKeyFor));
            variants.extend([2, 3].map(Variant::ExplicitKeyFor));
        }
        for variant in variants {
            out.push(Body {
                kind: BodyKind::Method { name: n.clone(), variant },
                label: n.clone(),
            });
        }
    }
    for p in PROBES {
        out.push(Body { kind: BodyKind::Probe(p), label: format!("probe:{p}") });
    }
    out
}

/// Field names a handler could be tempted to read a database name from; they
/// are added to every params map and name the *victim* database.
fn with_victim(mut v: Value, victim: &str) -> Value {
    if v.is_null() {
        v = json!({});
    }
    if let Some(map) = v.as_object_mut() {
        for k in ["db", "db_name", "database"] {
            map.insert(k.to_string(), json!(victim));
        }
    }
    v
}

/// Methods this harness has hand-written minimal params for. A method that
/// is added to the tables later is still sent (with generic params) and
/// reported as `methods_without_params`.
pub fn has_params(name: &str) -> bool {
    !matches!(minimal_params(name, "x"), Value::String(_))
}

/// Minimal well-formed params per method name; `victim` is the database a
/// caller confined to another database would try to reach.
pub fn minimal_params(name: &str, victim: &str) -> Value {
    let c = COLLECTION;
    let search = json!({"search": {"text": "common"}, "limit": 10});
    let filter = json!({"Field": ["score", {"Ge": 10}]});
    let v = match name {
        // root table
        "info" | "db.list" => Value::Null,
        "db.create" => return json!({"name": "scratch_db", "description": "made by the matrix"}),
        "db.open" | "db.connect" | "db.close" | "db.remove_api_key" => return json!({"name": victim}),
        "db.set_api_key" => return json!({"name": victim, "api_key": "hijacked-key-5150"}),
        // db table
        "db.metadata" | "db.stats" | "db.flush" | "collection.list" => Value::Null,
        "db.set_read_only" => json!({"read_only": false}),
        "db.get_extension" | "db.remove_extension" => json!({"key": "note"}),
        "db.save_extension" => json!({"key": "note2", "value": "written by the matrix"}),
        "collection.create" => {
            let mut p = collection_params("matrix");
            p["config"]["name"] = json!("extra");
            p
        }
        "collection.ensure" => {
            let mut p = collection_params("matrix");
            p["config"]["name"] = json!("extra2");
            p
        }
        "collection.metadata" | "collection.stats" | "collection.delete" | "collection.flush" | "doc.count" => {
            json!({"collection": c})
        }
        "collection.set_read_only" => json!({"collection": c, "read_only": false}),
        "collection.get_extension" | "collection.remove_extension" => json!({"collection": c, "key": "note"}),
        "collection.save_extension" => json!({"collection": c, "key": "note2", "value": "written by the matrix"}),
        "doc.add" => json!({"collection": c, "doc": {"title": "added", "body": "common text added", "score": 30}}),
        "doc.add_many" => json!({"collection": c, "docs": [
            {"title": "many1", "body": "common text many", "score": 31},
            {"title": "many2", "body": "common text many", "score": 32}]}),
        "doc.get" | "doc.exists" | "doc.remove" => json!({"collection": c, "_id": 1}),
        "doc.get_many" => json!({"collection": c, "_ids": [1, 2, 99]}),
        "doc.update" => json!({"collection": c, "_id": 2, "fields": {"score": 77}}),
        "doc.search" | "doc.search_ids" => json!({"collection": c, "query": search}),
        "doc.query_ids" | "doc.query_last_ids" => json!({"collection": c, "filter": filter, "limit": 10}),
        // unknown to this harness (unknown-method probes and methods added later)
        _ if UNKNOWN_METHODS.contains(&name) => Value::Null,
        _ => return Value::String(format!("no-params-for:{name}")),
    };
    with_victim(v, victim)
}

fn generic_params(victim: &str) -> Value {
    with_victim(
        json!({"collection": COLLECTION, "name": victim, "key": "note", "_id": 1, "_ids": [1], "read_only": false,
               "value": "v", "doc": {}, "docs": [], "fields": {}, "query": {}, "filter": {"Field": ["score", {"Ge": 10}]}}),
        victim,
    )
}

impl Body {
    /// The request for this body at `path` in encoding `enc`.
    pub fn request(&self, path: &str, auth: Auth, enc: Enc, victim: &str) -> Req {
        let mut req = Req { get: false, path: path.to_string(), auth, content_type: Some(enc.content_type()), body: Default::default() };
        match &self.kind {
            BodyKind::Method { name, variant } => {
                let params = match variant {
                    Variant::BadParams => json!("these-params-are-a-string"),
                    Variant::GenKeyFor(i) => json!({"name": NAMED[*i]}),
                    Variant::ExplicitKeyFor(i) => json!({"name": NAMED[*i], "api_key": "explicit-key-2718"}),
                    Variant::Minimal => match minimal_params(name, victim) {
                        Value::String(_) => generic_params(victim),
                        p => p,
                    },
                };
                let doc = if params.is_null() {
                    json!({"method": name})
                } else {
                    json!({"method": name, "params": params})
                };
                req.body = enc.encode(&doc).into();
            }
            BodyKind::Probe(kind) => {
                let info: bytes::Bytes = enc.encode(&json!({"method": "info"})).into();
                match *kind {
                    "garbage" => req.body = bytes::Bytes::from_static(b"\xff\xfe\x00 not a document {{["),
                    "empty" => {}
                    "oversized" => {
                        let pad = "x".repeat(MAX_BODY + 1024);
                        req.body = enc.encode(&json!({"method": "info", "params": {"pad": pad}})).into();
                    }
                    "no-content-type" => {
                        req.content_type = None;
                        req.body = info;
                    }
                    "text-plain" => {
                        req.content_type = Some("text/plain");
                        req.body = info;
                    }
                    "missing-method" => req.body = enc.encode(&json!({"params": {"collection": COLLECTION}})).into(),
                    other => unreachable!("probe {other}"),
                }
            }
        }
        req
    }
}

/// Effect label of `name` on the route of `target` (root table for `POST /`,
/// database table otherwise); `None` = not in that table.
pub fn effect_at(tables: &Tables, target: &Target, name: &str) -> Option<Effect> {
    if target.kind == TargetKind::Root {
        tables.root.get(name).copied()
    } else {
        tables.db.get(name).copied()
    }
}

/// Every body encoded once per (victim, encoding): the matrix sends each of
/// them to every (principal, target).
pub struct Prepared {
    /// `[victim][body][enc]` -> (content type, bytes)
    table: Vec<Vec<[(Option<&'static str>, bytes::Bytes); 2]>>,
}

impl Prepared {
    pub fn new(bs: &[Body]) -> Prepared {
        let table = (0..2)
            .map(|victim| {
                bs.iter()
                    .map(|b| {
                        [Enc::Cbor, Enc::Json].map(|enc| {
                            let r = b.request("/", Auth::None, enc, DBS[victim]);
                            (r.content_type, r.body)
                        })
                    })
                    .collect()
            })
            .collect();
        Prepared { table }
    }

    pub fn request(&self, bi: usize, path: &str, auth: Auth, enc: Enc, victim: usize) -> Req {
        let (content_type, body) = &self.table[victim][bi][if enc == Enc::Cbor { 0 } else { 1 }];
        Req { get: false, path: path.to_string(), auth, content_type: *content_type, body: body.clone() }
    }
}

//! Fixture: one `anda_db_server` instance (`AppState` + `build_router`) over a
//! `CtlStore`, driven request by request through `tower::ServiceExt::oneshot`.
//! Every store call a request causes is attributed to it by draining the
//! store's label list and journal around the request (single-threaded tokio
//! runtime, the request and everything it spawned are awaited and settled).

use anda_db_server::{AppState, ServerOptions, build_router};
use axum::{Router, body::Body};
use http_body_util::BodyExt;
use serde_json::{Value, json};
use std::sync::Arc;
use std::time::Duration;
use tower::ServiceExt;
use vcore::ctlstore::{Ctl, CtlStore, Mutation};

pub use crate::names::{dbn, missing, nowhere_name, primary};
pub const COLLECTION: &str = "items";
pub const ADMIN_KEY: &str = "admin-key-7f3a9c";
pub const SERVER_NAME: &str = "c14-server";
pub const MAX_BODY: usize = 16 * 1024;

/// Body of a request as the harness describes it (replayable).
#[derive(Clone, Debug, PartialEq, Eq)]
pub enum Auth {
    None,
    /// `Authorization: Bearer <token>`
    Bearer(String),
    /// Raw header value bytes (malformed variants).
    Raw(Vec<u8>),
}

#[derive(Clone, Debug)]
pub struct Req {
    /// HTTP method: `GET`, `POST`, or any other verb the matrix probes.
    pub verb: &'static str,
    /// Raw request target, e.g. `/`, `/alpha_db`, `/%61lpha_db`.
    pub path: String,
    pub auth: Auth,
    pub content_type: Option<&'static str>,
    /// `Accept` header (the response encoding follows it when present).
    pub accept: Option<&'static str>,
    pub body: bytes::Bytes,
}

impl Req {
    pub fn to_json(&self) -> Value {
        json!({
            "http_method": self.verb,
            "path": self.path,
            "authorization": match &self.auth {
                Auth::None => Value::Null,
                Auth::Bearer(t) => json!(format!("Bearer {t}")),
                Auth::Raw(b) => json!({"raw_hex": hex::encode(b)}),
            },
            "content_type": self.content_type,
            "accept": self.accept,
            "body_hex": if self.body.len() <= 512 { hex::encode(&self.body) } else { format!("<{} bytes>", self.body.len()) },
            "body_text": String::from_utf8_lossy(&self.body[..self.body.len().min(300)]),
        })
    }
}

#[derive(Clone, Debug, PartialEq, Eq)]
pub struct Resp {
    pub status: u16,
    /// Response headers, sorted by name.
    pub headers: Vec<(String, Vec<u8>)>,
    pub body: Vec<u8>,
}

impl Resp {
    pub fn to_json(&self) -> Value {
        json!({
            "status": self.status,
            "headers": self.headers.iter().map(|(k, v)| format!("{k}: {}", String::from_utf8_lossy(v))).collect::<Vec<_>>(),
            "body": self.body_value().unwrap_or_else(|| json!({"raw": String::from_utf8_lossy(&self.body[..self.body.len().min(400)])})),
        })
    }
    /// The body decoded (CBOR or JSON according to the response content type).
    pub fn body_value(&self) -> Option<Value> {
        let ct = self
            .headers
            .iter()
            .find(|(k, _)| k == "content-type")
            .map(|(_, v)| String::from_utf8_lossy(v).to_string())
            .unwrap_or_default();
        if ct.starts_with("application/json") {
            serde_json::from_slice(&self.body).ok()
        } else if ct.starts_with("application/cbor") {
            cbor2::de::from_reader::<Value, _>(&self.body[..]).ok()
        } else {
            None
        }
    }
    pub fn error_code(&self) -> Option<String> {
        self.body_value()?.get("error")?.get("code")?.as_str().map(|s| s.to_string())
    }
    pub fn result(&self) -> Option<Value> {
        self.body_value()?.get("result").cloned()
    }
}

/// What the object store saw during one request.
#[derive(Clone, Debug, Default, PartialEq, Eq)]
pub struct StoreTrace {
    /// Mutations that landed: `put path (nB)` / `delete path` ...
    pub mutations: Vec<String>,
    /// Paths of the mutations (target path).
    pub mutated_paths: Vec<String>,
    /// Every call, reads included: `(op, path)`.
    pub calls: Vec<(String, String)>,
}

pub struct World {
    pub store: Arc<CtlStore>,
    pub ctl: Arc<Ctl>,
    pub state: AppState,
    pub router: Router,
    pub admin: Option<String>,
    /// Number of requests sent so far (also the store's task id).
    pub requests: usize,
}

pub fn options(admin: Option<&str>) -> ServerOptions {
    ServerOptions {
        name: SERVER_NAME.to_string(),
        version: "0.0.0".to_string(),
        primary_db: primary().to_string(),
        description: "c14 primary".to_string(),
        api_key: admin.map(|s| s.to_string()),
        // no timer-driven flush during a check: every store write is caused
        // by a request (or by a close/shutdown the harness asked for)
        flush_interval: Duration::from_secs(7 * 24 * 3600),
        request_timeout: Duration::from_secs(3600),
        max_body_size: MAX_BODY,
        ..Default::default()
    }
}

impl World {
    pub async fn boot(admin: Option<&str>) -> Result<World, String> {
        let (store, ctl) = CtlStore::new();
        Self::boot_over(store, ctl, admin).await
    }

    pub async fn boot_over(store: Arc<CtlStore>, ctl: Arc<Ctl>, admin: Option<&str>) -> Result<World, String> {
        ctl.keep_labels(true);
        let state = AppState::connect(store.clone(), options(admin))
            .await
            .map_err(|e| format!("AppState::connect failed: {e:?}"))?;
        let router = build_router(state.clone());
        settle().await;
        ctl.clear_labels();
        Ok(World {
            store,
            ctl,
            state,
            router,
            admin: admin.map(|s| s.to_string()),
            requests: 0,
        })
    }

    /// Graceful stop (flush + close every database), then a new instance over
    /// the same store: a server restart.
    pub async fn restart(self) -> Result<World, String> {
        let World { store, ctl, state, router, admin, requests } = self;
        drop(router);
        state.shutdown().await;
        drop(state);
        settle().await;
        let mut w = Self::boot_over(store, ctl, admin.as_deref()).await?;
        w.requests = requests;
        Ok(w)
    }

    pub async fn shutdown(self) {
        let World { state, router, .. } = self;
        drop(router);
        state.shutdown().await;
        settle().await;
    }

    /// Sends one request; returns the response and what the store saw.
    pub async fn send(&mut self, req: &Req) -> (Resp, StoreTrace) {
        self.requests += 1;
        self.ctl.set_task(self.requests);
        self.ctl.clear_labels();
        let j0 = self.ctl.journal_len();
        let mut b = http::Request::builder()
            .method(http::Method::from_bytes(req.verb.as_bytes()).expect("http method"))
            .uri(req.path.as_str());
        match &req.auth {
            Auth::None => {}
            Auth::Bearer(t) => {
                b = b.header(http::header::AUTHORIZATION, format!("Bearer {t}"));
            }
            Auth::Raw(bytes) => {
                b = b.header(
                    http::header::AUTHORIZATION,
                    http::HeaderValue::from_bytes(bytes).expect("header value bytes"),
                );
            }
        }
        if let Some(ct) = req.content_type {
            b = b.header(http::header::CONTENT_TYPE, ct);
        }
        if let Some(a) = req.accept {
            b = b.header(http::header::ACCEPT, a);
        }
        let request = b.body(Body::from(req.body.clone())).expect("request");
        let resp = self.router.clone().oneshot(request).await.expect("router is infallible");
        let status = resp.status().as_u16();
        let mut headers: Vec<(String, Vec<u8>)> = resp
            .headers()
            .iter()
            .map(|(k, v)| (k.as_str().to_string(), v.as_bytes().to_vec()))
            .collect();
        headers.sort();
        let body = resp.into_body().collect().await.expect("response body").to_bytes().to_vec();
        settle().await;
        let journal = self.ctl.journal_from(j0);
        let labels = self.ctl.labels();
        self.ctl.clear_labels();
        let trace = StoreTrace {
            mutations: journal.iter().map(|e| e.mutation.label()).collect(),
            mutated_paths: journal.iter().map(|e| mutation_path(&e.mutation)).collect(),
            calls: labels.into_iter().map(|l| (l.op.to_string(), l.path)).collect(),
        };
        (Resp { status, headers, body }, trace)
    }
}

fn mutation_path(m: &Mutation) -> String {
    m.path().to_string()
}

/// Lets everything a request spawned run to quiescence on the current-thread
/// runtime (the server awaits its own tasks; this is a safety margin).
pub async fn settle() {
    for _ in 0..6 {
        tokio::task::yield_now().await;
    }
}

pub fn runtime() -> tokio::runtime::Runtime {
    tokio::runtime::Builder::new_current_thread()
        .enable_time()
        .build()
        .expect("tokio runtime")
}

// ---------------------------------------------------------------------------
// request construction

#[derive(Clone, Copy, Debug, PartialEq, Eq, PartialOrd, Ord, Hash)]
pub enum Enc {
    Cbor,
    Json,
}

impl Enc {
    pub fn as_str(&self) -> &'static str {
        match self {
            Enc::Cbor => "cbor",
            Enc::Json => "json",
        }
    }
    pub fn content_type(&self) -> &'static str {
        match self {
            Enc::Cbor => "application/cbor",
            Enc::Json => "application/json",
        }
    }
    pub fn encode(&self, v: &Value) -> Vec<u8> {
        match self {
            Enc::Cbor => {
                let mut buf = Vec::new();
                cbor2::ser::to_writer(v, &mut buf).expect("cbor encode");
                buf
            }
            Enc::Json => serde_json::to_vec(v).expect("json encode"),
        }
    }
}

pub fn rpc(path: &str, auth: Auth, enc: Enc, method: &str, params: Value) -> Req {
    let body = if params.is_null() {
        json!({"method": method})
    } else {
        json!({"method": method, "params": params})
    };
    Req {
        verb: "POST",
        path: path.to_string(),
        auth,
        content_type: Some(enc.content_type()),
        accept: None,
        body: enc.encode(&body).into(),
    }
}

pub fn admin_auth(admin: &Option<String>) -> Auth {
    match admin {
        Some(k) => Auth::Bearer(k.clone()),
        None => Auth::None,
    }
}

impl World {
    /// Admin RPC (CBOR); `Err` carries status and error body.
    pub async fn admin_rpc(&mut self, path: &str, method: &str, params: Value) -> Result<Value, String> {
        let req = rpc(path, admin_auth(&self.admin), Enc::Cbor, method, params);
        let (resp, _) = self.send(&req).await;
        if resp.status == 200 {
            Ok(resp.result().unwrap_or(Value::Null))
        } else {
            Err(format!("{} {}: {}", method, resp.status, resp.to_json()))
        }
    }
}

pub fn collection_params(marker: &str) -> Value {
    json!({
        "config": {"name": COLLECTION, "description": format!("items of {marker}")},
        "schema": {"fields": [
            {"name": "_id", "description": "", "type": "U64", "unique": true, "index": 0},
            {"name": "title", "description": "", "type": "Text", "unique": false, "index": 1},
            {"name": "body", "description": "", "type": "Text", "unique": false, "index": 2},
            {"name": "score", "description": "", "type": {"Option": "U64"}, "unique": false, "index": 3}
        ]},
        "btree_indexes": [["score"]],
        "bm25_indexes": ["title", "body"]
    })
}

/// A marker string that only database `db` contains (in documents, in the
/// collection description and in a database extension).
///
/// The marker does not contain the database name: a tenant's own data must
/// not look like (part of) another database's name in any name universe.
pub fn marker(db: &str) -> String {
    format!("marker-{}", vcore::util::fnv_hex(db.as_bytes()))
}

impl World {
    /// Seeds a freshly created database: one collection with two indexes, two
    /// (A) or three (others) documents, one database extension, one collection extension; flushed.
    pub async fn seed(&mut self, db: &str) -> Result<(), String> {
        let path = format!("/{db}");
        let m = marker(db);
        self.admin_rpc(&path, "collection.create", collection_params(&m)).await?;
        // the databases differ in content AND in document count, so that an
        // answer computed from the wrong database is visible even in a count
        let words: &[&str] = if db == dbn(0) { &["first", "second"] } else { &["first", "second", "third"] };
        for (i, word) in words.iter().enumerate() {
            self.admin_rpc(
                &path,
                "doc.add",
                json!({"collection": COLLECTION, "doc": {"title": format!("{word} {m}"), "body": format!("common text {m}"), "score": 10 + i as u64}}),
            )
            .await?;
        }
        self.admin_rpc(&path, "db.save_extension", json!({"key": "note", "value": format!("ext {m}")})).await?;
        self.admin_rpc(
            &path,
            "collection.save_extension",
            json!({"collection": COLLECTION, "key": "note", "value": format!("cext {m}")}),
        )
        .await?;
        self.admin_rpc(&path, "db.flush", Value::Null).await?;
        Ok(())
    }
}

//! The two RPC method tables of `anda_db_server`, scraped at build time from
//! the source text of `api/mod.rs` (`RootMethod::parse` / `DbMethod::parse`):
//! method name -> effect label (Read | Mutating). `MethodEffect` and the two
//! enums are private, so the source text of the single table that declares
//! both the handler and the effect is the only place to read them from.
//!
//! The scrape is validated against behaviour at run time by the matrix: every
//! scraped name must be *known* to the admin (anything but `method_not_found`)
//! and every name outside the table must be unknown.

use std::collections::BTreeMap;

pub const API_MOD_SRC: &str = include_str!(env!("ANDA_DB_SERVER_API_MOD"));
pub const API_MOD_PATH: &str = env!("ANDA_DB_SERVER_API_MOD");

#[derive(Clone, Copy, Debug, PartialEq, Eq, PartialOrd, Ord)]
pub enum Effect {
    Read,
    Mutating,
}

impl Effect {
    pub fn as_str(&self) -> &'static str {
        match self {
            Effect::Read => "Read",
            Effect::Mutating => "Mutating",
        }
    }
}

#[derive(Clone, Debug)]
pub struct Tables {
    pub root: BTreeMap<String, Effect>,
    pub db: BTreeMap<String, Effect>,
}

/// Extracts the match arms `"name" => (Self::Variant, Effect),` of the `parse`
/// function inside `impl <enum_name> {`.
fn scrape_one(src: &str, enum_name: &str) -> Result<BTreeMap<String, Effect>, String> {
    let head = format!("impl {enum_name} {{");
    let start = src.find(&head).ok_or_else(|| format!("`{head}` not found"))?;
    let body = &src[start..];
    let fn_at = body
        .find("fn parse(method: &str)")
        .ok_or_else(|| format!("`fn parse` of {enum_name} not found"))?;
    let body = &body[fn_at..];
    let end = body
        .find("_ => return None")
        .ok_or_else(|| format!("catch-all arm of {enum_name}::parse not found"))?;
    let body = &body[..end];
    let mut out = BTreeMap::new();
    for line in body.lines() {
        let line = line.trim();
        if !line.starts_with('"') {
            // any other line that looks like an arm is something this scraper
            // does not understand: refuse rather than miss a method
            if line.contains("=>") && !line.starts_with("//") && !line.contains("match method") {
                return Err(format!("unrecognised arm in {enum_name}::parse: `{line}`"));
            }
            continue;
        }
        let rest = &line[1..];
        let q = rest.find('"').ok_or_else(|| format!("bad arm `{line}`"))?;
        let name = &rest[..q];
        let tail = &rest[q + 1..];
        if !tail.trim_start().starts_with("=>") {
            return Err(format!("bad arm `{line}` (alternatives `|` are not understood)"));
        }
        let effect = if tail.contains(", Read)") {
            Effect::Read
        } else if tail.contains(", Mutating)") {
            Effect::Mutating
        } else {
            return Err(format!("arm without effect label: `{line}`"));
        };
        if out.insert(name.to_string(), effect).is_some() {
            return Err(format!("duplicate arm for `{name}`"));
        }
    }
    if out.is_empty() {
        return Err(format!("no arms found in {enum_name}::parse"));
    }
    Ok(out)
}

/// Number of variants declared in `enum <enum_name> { .. }` (cross-check: the
/// dispatch match is exhaustive over the enum, so #variants == #arms).
fn count_variants(src: &str, enum_name: &str) -> Result<usize, String> {
    let head = format!("enum {enum_name} {{");
    let start = src.find(&head).ok_or_else(|| format!("`{head}` not found"))? + head.len();
    let end = start + src[start..].find('}').ok_or("enum end")?;
    Ok(src[start..end]
        .lines()
        .map(|l| l.trim())
        .filter(|l| !l.is_empty() && !l.starts_with("//"))
        .count())
}

pub fn scrape() -> Result<Tables, String> {
    let root = scrape_one(API_MOD_SRC, "RootMethod")?;
    let db = scrape_one(API_MOD_SRC, "DbMethod")?;
    let (nr, nd) = (count_variants(API_MOD_SRC, "RootMethod")?, count_variants(API_MOD_SRC, "DbMethod")?);
    if nr != root.len() || nd != db.len() {
        return Err(format!(
            "enum variants vs parse arms differ: RootMethod {nr} vs {}, DbMethod {nd} vs {}",
            root.len(),
            db.len()
        ));
    }
    Ok(Tables { root, db })
}

/// Names that are in neither table (checked by the matrix as `method_not_found`).
pub const UNKNOWN_METHODS: [&str; 3] = ["db.drop_everything", "doc.Get", ""];

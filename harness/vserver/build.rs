//! Locates the source of the `anda_db_server` crate the workspace builds
//! against (the path dependency in ../Cargo.toml — /repo or a scratch copy)
//! so that `vserver::table` can `include_str!` its method tables.
use std::path::PathBuf;

fn main() {
    let manifest_dir = PathBuf::from(std::env::var("CARGO_MANIFEST_DIR").unwrap());
    let ws = manifest_dir.parent().unwrap().join("Cargo.toml");
    println!("cargo:rerun-if-changed={}", ws.display());
    let text = std::fs::read_to_string(&ws).expect("read workspace Cargo.toml");
    let line = text
        .lines()
        .find(|l| l.trim_start().starts_with("anda_db_server"))
        .expect("workspace dependency anda_db_server");
    let start = line.find("path = \"").expect("path key") + "path = \"".len();
    let end = start + line[start..].find('"').expect("closing quote");
    let dir = PathBuf::from(&line[start..end]);
    let file = dir.join("src/api/mod.rs");
    assert!(file.exists(), "{} does not exist", file.display());
    println!("cargo:rerun-if-changed={}", file.display());
    println!("cargo:rustc-env=ANDA_DB_SERVER_API_MOD={}", file.display());
}

//! Shared helpers for the THREAD check parts (C10 / C11 / C04 thread parts):
//! the template driver (explore every schedule of one op-set template up to a
//! preemption bound, feed every execution to the oracle, count, record
//! violations with replayable artefacts, determinism self-check) and the
//! B-tree op language + plain reference model used by `c10_thread` and
//! `c04_thread`.

pub mod bm25_case;
pub mod btree_case;

use serde_json::{Value, json};
use std::collections::BTreeSet;
use std::time::{Duration, Instant};
use vcore::choice::{Chooser, explore};
use vcore::thread::{ExecEnd, ExecResult, render_trace};
use vcore::{Run, Violation, util};

/// Verdict of ONE execution of a template.
pub struct Case {
    pub end: ExecEnd,
    pub trace: Vec<(u8, &'static str)>,
    /// Canonical rendering of (return values, final contents): what the
    /// oracle compared. Distinct values = distinct final outcomes.
    pub outcome: String,
    /// `Some((kind, detail))` when the oracle rejects this execution. `kind`
    /// is the stable part used in the violation signature.
    pub fail: Option<(String, String)>,
}

impl Case {
    pub fn from_exec<T>(r: &ExecResult<T>) -> Case {
        let mut c = Case {
            end: r.end.clone(),
            trace: r.trace.clone(),
            outcome: String::new(),
            fail: None,
        };
        match &r.end {
            ExecEnd::AllDone => {}
            ExecEnd::Deadlock(who) => {
                c.fail = Some(("deadlock".into(), format!("deadlock: every unfinished thread is blocked: {who:?}")));
            }
            ExecEnd::Panic { thread, message } => {
                c.fail = Some(("panic".into(), format!("thread {thread} panicked: {message}")));
            }
            ExecEnd::StepLimit => {
                c.fail = Some(("livelock".into(), "step limit reached (livelock)".into()));
            }
        }
        c
    }
}

/// One op-set template: a fixed initial state plus the operations of every
/// thread. `exec` runs ONE execution on a fresh fixture under the schedule
/// the chooser dictates and applies the oracle.
pub struct Template<'a> {
    pub name: String,
    /// Written-out description (prefill, ops per thread) for samples/replays.
    pub describe: Value,
    pub exec: Box<dyn Fn(&mut Chooser) -> Case + Sync + 'a>,
}

#[derive(Default, Clone, Debug)]
pub struct Totals {
    pub templates: usize,
    pub executions: u64,
    pub steps: u64,
    pub outcomes: u64,
    pub deadlocks: u64,
    pub panics: u64,
    pub min_completed_bound: Option<u32>,
    pub capped: bool,
}

/// Explores every template up to `bound` preemptions; records counters,
/// samples and violations in `run`.
pub fn run_templates(run: &mut Run, templates: &[Template], bound: u32, pass: &str) -> Totals {
    let mut tot = Totals::default();
    let mut per_template: Vec<Value> = Vec::new();
    let mut min_completed: i64 = bound as i64;
    for t in templates {
        if !run.in_budget() {
            run.cap_hit(&format!("time budget: pass {pass} stopped before template {}", t.name));
            tot.capped = true;
            break;
        }
        tot.templates += 1;
        let deadline = Instant::now() + Duration::from_secs_f64(run.remaining_s());
        let mut outcomes: BTreeSet<String> = BTreeSet::new();
        let mut steps = 0u64;
        let mut deadlocks = 0u64;
        let mut panics = 0u64;
        let mut fails: Vec<(Vec<u32>, Case)> = Vec::new();
        let mut fail_kinds: BTreeSet<String> = BTreeSet::new();
        let mut diverged: Option<String> = None;
        let mut deepest: Option<Vec<u32>> = None;
        let stats = explore(
            bound,
            util::n_threads(),
            deadline,
            u64::MAX,
            |ch| {
                let case = (t.exec)(ch);
                (case, ch.diverged.clone())
            },
            |choices, (case, div)| {
                if let Some(d) = div {
                    diverged = Some(d);
                    return false;
                }
                steps += case.trace.len() as u64;
                match case.end {
                    ExecEnd::Deadlock(_) => deadlocks += 1,
                    ExecEnd::Panic { .. } => panics += 1,
                    _ => {}
                }
                if !case.outcome.is_empty() {
                    outcomes.insert(case.outcome.clone());
                }
                if deepest.as_ref().map(|d| d.len() < choices.len()).unwrap_or(true) && choices.iter().any(|c| *c != 0) {
                    deepest = Some(choices.clone());
                }
                if let Some((kind, _)) = &case.fail {
                    // keep the first (= fewest preemptions, earliest) case of every kind
                    if fail_kinds.insert(kind.clone()) {
                        fails.push((choices, case));
                    }
                }
                true
            },
        );
        if let Some(d) = diverged {
            vcore::report::machinery(&format!("THREAD template {}: {d}", t.name));
        }
        // Determinism self-check: the default schedule and the longest
        // deviating choice list seen must replay to the identical trace.
        let mut lists: Vec<Vec<u32>> = vec![Vec::new()];
        lists.extend(deepest);
        for list in lists {
            let a = (t.exec)(&mut Chooser::new(list.clone()));
            let b = (t.exec)(&mut Chooser::new(list.clone()));
            if a.trace != b.trace || a.end != b.end {
                vcore::report::machinery(&format!(
                    "THREAD template {}: replaying choices {list:?} gave different traces:\n  {}\n  {}",
                    t.name,
                    render_trace(&a.trace),
                    render_trace(&b.trace)
                ));
            }
        }
        for (choices, case) in fails {
            let (kind, detail) = case.fail.clone().unwrap();
            run.violation(Violation {
                signature: format!("{}.{}:{}:{}", run.property, run.part, t.name, kind),
                summary: format!(
                    "template {}: {} | schedule: {}",
                    t.name,
                    detail,
                    render_trace(&case.trace)
                ),
                replay: json!({
                    "template": t.name,
                    "describe": t.describe,
                    "choices": choices,
                    "schedule": render_trace(&case.trace),
                    "outcome": case.outcome,
                    "failure": detail,
                }),
            });
        }
        for o in &outcomes {
            run.distinct(util::fnv64(format!("{}|{}", t.name, o).as_bytes()));
        }
        run.sample(json!({
            "template": t.name,
            "describe": t.describe,
            "pass": pass,
            "executions": stats.executions,
            "distinct_outcomes": outcomes.iter().take(4).collect::<Vec<_>>(),
        }));
        per_template.push(json!({
            "template": t.name,
            "executions": stats.executions,
            "per_preemption_level": stats.per_level,
            "schedule_points": steps,
            "longest_schedule": stats.max_depth,
            "distinct_outcomes": outcomes.len(),
            "completed_bound": stats.completed_bound,
        }));
        tot.executions += stats.executions;
        tot.steps += steps;
        tot.outcomes += outcomes.len() as u64;
        tot.deadlocks += deadlocks;
        tot.panics += panics;
        let cb = stats.completed_bound;
        min_completed = min_completed.min(cb.map(|b| b as i64).unwrap_or(-1));
        if stats.capped || cb != Some(bound) {
            tot.capped = true;
            run.cap_hit(&format!(
                "time budget: pass {pass}, template {} stopped with preemption bound {:?} completed (target {bound})",
                t.name, cb
            ));
        }
    }
    tot.min_completed_bound = (min_completed >= 0 && tot.templates == templates.len()).then_some(min_completed as u32);
    run.add("evaluations", tot.executions);
    run.add("traces_validated_against_impl", tot.executions);
    run.add("transitions", tot.steps);
    run.add("deadlocks", tot.deadlocks);
    run.add("panics", tot.panics);
    run.set(&format!("pass_{pass}"), json!({
        "target_preemption_bound": bound,
        "completed_preemption_bound": tot.min_completed_bound,
        "templates": per_template,
    }));
    tot
}

/// Quick tier: one pass at `quick` preemptions. Thorough tier: passes at
/// `thorough_from`, `thorough_from + 1`, ... `thorough_max` while the next
/// pass is predicted (from the growth of the previous ones) to fit into the
/// remaining budget. Records `completed_preemption_bound`.
pub fn run_tiers(run: &mut Run, ts: &[Template], quick: u32, thorough_from: u32, thorough_max: u32) {
    let mut completed: Option<u32> = None;
    if run.tier == vcore::Tier::Quick {
        let tot = run_templates(run, ts, quick, &format!("bound{quick}"));
        completed = tot.min_completed_bound;
    } else {
        let mut prev_wall: Option<f64> = None;
        let mut growth = 8.0f64;
        for bound in thorough_from..=thorough_max {
            if let Some(w) = prev_wall
                && w * growth > run.remaining_s() * 0.8
            {
                run.set("stopped_before_bound", json!({"bound": bound, "predicted_s": w * growth, "remaining_s": run.remaining_s()}));
                break;
            }
            let t0 = run.elapsed();
            let tot = run_templates(run, ts, bound, &format!("bound{bound}"));
            let wall = run.elapsed() - t0;
            if let Some(w) = prev_wall
                && w > 0.05
            {
                growth = (wall / w).clamp(2.0, 12.0);
            }
            prev_wall = Some(wall);
            if tot.capped {
                break;
            }
            completed = tot.min_completed_bound;
        }
    }
    // states = distinct final outcomes (template, returns, contents) over all
    // passes; executions / transitions are summed over the passes actually run.
    let distinct = run.distinct_count() as u64;
    run.add("states", distinct);
    run.set("completed_preemption_bound", json!(completed));
    run.set("templates", json!(ts.len()));
}

/// `--replay <file>`: re-runs exactly the recorded template + choice list.
pub fn replay(mut run: Run, templates: &[Template]) -> ! {
    let file = run.replay_file.clone().unwrap();
    let doc: Value = match std::fs::read(&file).ok().and_then(|d| serde_json::from_slice(&d).ok()) {
        Some(v) => v,
        None => vcore::report::machinery(&format!("cannot read replay file {file:?}")),
    };
    let rep = doc.get("replay").cloned().unwrap_or(doc.clone());
    let name = rep.get("template").and_then(|v| v.as_str()).unwrap_or("");
    let choices: Vec<u32> = rep
        .get("choices")
        .and_then(|v| v.as_array())
        .map(|a| a.iter().filter_map(|x| x.as_u64()).map(|x| x as u32).collect())
        .unwrap_or_default();
    let Some(t) = templates.iter().find(|t| t.name == name) else {
        vcore::report::machinery(&format!("replay: unknown template {name:?}"));
    };
    let mut ch = Chooser::new(choices.clone());
    let case = (t.exec)(&mut ch);
    if let Some(d) = ch.diverged {
        vcore::report::machinery(&format!("replay: {d}"));
    }
    run.add("evaluations", 1);
    run.add("traces_validated_against_impl", 1);
    run.add("transitions", case.trace.len() as u64);
    println!("replayed template {name}: schedule {}", render_trace(&case.trace));
    println!("outcome: {}", case.outcome);
    if let Some((kind, detail)) = case.fail.clone() {
        run.violation(Violation {
            signature: format!("{}.{}:{}:{}", run.property, run.part, t.name, kind),
            summary: format!("template {}: {} | schedule: {}", t.name, detail, render_trace(&case.trace)),
            replay: rep,
        });
    } else {
        println!("replay: the recorded case holds on this tree");
    }
    run.finish()
}

/// Common start-up: silence worker panics, engine self-test.
pub fn engine_ready() {
    vcore::thread::quiet_worker_panics();
    if let Err(e) = vcore::thread::selftest() {
        vcore::report::machinery(&format!("THREAD engine self-test failed: {e}"));
    }
}

//! Shared helpers for the vthread check parts.

//! BM25 op language, naive inverted-index reference model and per-execution
//! oracle for the thread part of C11 (`BM25Index<TokenizerChain>` with the
//! default tokenizer and a tiny `bucket_overload_size`).
//!
//! Reference model: `docs: id -> token count` plus `postings: token ->
//! [(id, freq)]` kept exactly as the crate documents them (a remove sweeps the
//! postings of the tokens of the text it is given; a term query returns the
//! posting ids that are still in `docs`). Every operation is ONE atomic step
//! of the model; the allowed outcomes of a template are all (return values,
//! final observation) reachable by a sequential order of the operations that
//! respects each thread's program order. The observation is what the public
//! API shows: per vocabulary token the id set returned by `search`, the
//! document count, and the total token count behind `stats().avg_doc_tokens`.

use crate::{Case, Template};
use anda_db_tfs::{
    BM25Config, BM25Error, BM25Index, BM25Params, BucketObject, TokenizerChain, collect_tokens, default_tokenizer,
};
use serde_json::json;
use std::collections::{BTreeMap, BTreeSet, HashMap, HashSet};
use std::sync::Arc;
use vcore::choice::Chooser;
use vcore::thread::{Body, ExecConfig, ExecEnd};

pub type Index = BM25Index<TokenizerChain>;

#[derive(Clone, Debug, PartialEq, Eq)]
pub enum Op {
    Insert(u64, &'static str),
    Remove(u64, &'static str),
    Purge(Vec<u64>),
    Compact,
}

#[derive(Clone, Debug, PartialEq, Eq, Hash, PartialOrd, Ord)]
pub enum Ret {
    Inserted,
    AlreadyExists,
    TokenizeFailed,
    Bool(bool),
    Count(usize),
    Unit,
    OtherErr(String),
}

fn show_op(op: &Op) -> String {
    match op {
        Op::Insert(id, t) => format!("insert({id},{t:?})"),
        Op::Remove(id, t) => format!("remove({id},{t:?})"),
        Op::Purge(ids) => format!("purge_ids({ids:?})"),
        Op::Compact => "compact_buckets()".to_string(),
    }
}

pub fn tokens_of(text: &str) -> BTreeMap<String, usize> {
    let mut tk = default_tokenizer();
    collect_tokens(&mut tk, text, None).into_iter().collect()
}

// ---------------------------------------------------------------- model

#[derive(Clone, Debug, Default, PartialEq, Eq, Hash)]
pub struct Model {
    docs: BTreeMap<u64, usize>,
    postings: BTreeMap<String, Vec<(u64, usize)>>,
}

/// What the public API shows at a quiescent point.
#[derive(Clone, Debug, PartialEq, Eq, Hash, PartialOrd, Ord)]
pub struct Observation {
    pub hits: BTreeMap<String, BTreeSet<u64>>,
    pub docs: usize,
    pub total_tokens: u64,
}

impl Model {
    fn apply(&mut self, op: &Op) -> Ret {
        match op {
            Op::Insert(id, text) => {
                let toks = tokens_of(text);
                if toks.is_empty() {
                    return Ret::TokenizeFailed;
                }
                if self.docs.contains_key(id) {
                    return Ret::AlreadyExists;
                }
                self.docs.insert(*id, toks.values().sum());
                for (t, f) in toks {
                    let p = self.postings.entry(t).or_default();
                    if !p.contains(&(*id, f)) {
                        p.push((*id, f));
                    }
                }
                Ret::Inserted
            }
            Op::Remove(id, text) => {
                let was = self.docs.remove(id).is_some();
                for (t, _) in tokens_of(text) {
                    if let Some(p) = self.postings.get_mut(&t) {
                        p.retain(|(d, _)| d != id);
                        if p.is_empty() {
                            self.postings.remove(&t);
                        }
                    }
                }
                Ret::Bool(was)
            }
            Op::Purge(ids) => {
                let mut n = 0;
                for id in ids {
                    if self.docs.remove(id).is_some() {
                        n += 1;
                    }
                }
                for p in self.postings.values_mut() {
                    p.retain(|(d, _)| !ids.contains(d));
                }
                self.postings.retain(|_, p| !p.is_empty());
                Ret::Count(n)
            }
            Op::Compact => Ret::Unit,
        }
    }

    fn observe(&self, vocabulary: &BTreeSet<String>) -> Observation {
        let mut hits = BTreeMap::new();
        for t in vocabulary {
            let ids: BTreeSet<u64> = self
                .postings
                .get(t)
                .map(|p| p.iter().map(|(d, _)| *d).filter(|d| self.docs.contains_key(d)).collect())
                .unwrap_or_default();
            if !ids.is_empty() {
                hits.insert(t.clone(), ids);
            }
        }
        Observation {
            hits,
            docs: self.docs.len(),
            total_tokens: self.docs.values().map(|v| *v as u64).sum(),
        }
    }
}

pub fn render_outcome(rets: &[Vec<Ret>], obs: &Observation) -> String {
    format!(
        "returns={rets:?} hits={:?} docs={} total_tokens={}",
        obs.hits, obs.docs, obs.total_tokens
    )
}

#[derive(Clone, PartialEq, Eq, Hash)]
struct MState {
    model: Model,
    pos: Vec<usize>,
    rets: Vec<Vec<Ret>>,
}

pub fn allowed_outcomes(initial: &Model, vocabulary: &BTreeSet<String>, threads: &[Vec<Op>]) -> HashSet<String> {
    let mut out = HashSet::new();
    let mut seen: HashSet<MState> = HashSet::new();
    let mut stack = vec![MState {
        model: initial.clone(),
        pos: vec![0; threads.len()],
        rets: threads.iter().map(|_| Vec::new()).collect(),
    }];
    while let Some(s) = stack.pop() {
        if !seen.insert(s.clone()) {
            continue;
        }
        let mut any = false;
        for t in 0..threads.len() {
            if s.pos[t] >= threads[t].len() {
                continue;
            }
            any = true;
            let mut n = s.clone();
            let r = n.model.apply(&threads[t][s.pos[t]]);
            n.rets[t].push(r);
            n.pos[t] += 1;
            stack.push(n);
        }
        if !any {
            out.insert(render_outcome(&s.rets, &s.model.observe(vocabulary)));
        }
    }
    out
}

// ---------------------------------------------------------------- real index

pub fn apply(idx: &Index, op: &Op) -> Ret {
    match op {
        Op::Insert(id, text) => match idx.insert(*id, text, 1) {
            Ok(()) => Ret::Inserted,
            Err(BM25Error::AlreadyExists { .. }) => Ret::AlreadyExists,
            Err(BM25Error::TokenizeFailed { .. }) => Ret::TokenizeFailed,
            Err(e) => Ret::OtherErr(format!("{e:?}")),
        },
        Op::Remove(id, text) => Ret::Bool(idx.remove(*id, text, 1)),
        Op::Purge(ids) => Ret::Count(idx.purge_ids(&ids.iter().copied().collect(), 1)),
        Op::Compact => {
            idx.compact_buckets();
            Ret::Unit
        }
    }
}

pub fn observe(idx: &Index, vocabulary: &BTreeSet<String>) -> Result<Observation, String> {
    let mut hits = BTreeMap::new();
    for t in vocabulary {
        let res = idx.search(t, 1000, None);
        let again = idx.search(t, 1000, None);
        if res != again {
            return Err(format!("repeated query {t:?} disagrees: {res:?} vs {again:?}"));
        }
        let ids: BTreeSet<u64> = res.iter().map(|(d, _)| *d).collect();
        if ids.len() != res.len() {
            return Err(format!("query {t:?} returns a document twice: {res:?}"));
        }
        for w in res.windows(2) {
            let ((d1, s1), (d2, s2)) = (w[0], w[1]);
            if !(s1 > s2 || (s1 == s2 && d1 < d2)) {
                return Err(format!("query {t:?} not ordered by (score desc, id asc): {res:?}"));
            }
        }
        if let Some((d, s)) = res.iter().find(|(_, s)| !s.is_finite() || *s < 0.0) {
            return Err(format!("query {t:?}: document {d} has score {s}"));
        }
        if !ids.is_empty() {
            hits.insert(t.clone(), ids);
        }
    }
    let docs = idx.len();
    let avg = idx.stats().avg_doc_tokens as f64;
    let total = avg * docs as f64;
    if !total.is_finite() || total < -0.01 || (total - total.round()).abs() > 0.01 {
        return Err(format!("avg_doc_tokens {avg} x {docs} documents is not a whole token count"));
    }
    Ok(Observation {
        hits,
        docs,
        total_tokens: total.round() as u64,
    })
}

#[derive(Default)]
pub struct MemStore {
    pub metadata: Vec<u8>,
    pub buckets: HashMap<BucketObject, Vec<u8>>,
}

pub fn flush_to(idx: &Index, store: &mut MemStore, now_ms: u64) -> Result<(), String> {
    let mut meta_buf: Vec<u8> = Vec::new();
    let buckets = &mut store.buckets;
    let outcome = vcore::util::block_on(idx.flush_with(
        now_ms,
        |data| {
            meta_buf = data;
            std::future::ready(Ok(()))
        },
        |object, data| {
            buckets.insert(object, data);
            std::future::ready(Ok(()))
        },
    ))
    .map_err(|e| format!("flush failed: {e:?}"))?;
    if outcome.saved {
        store.metadata = meta_buf;
        for object in &outcome.obsolete {
            store.buckets.remove(object);
        }
    }
    Ok(())
}

pub fn load_from(store: &MemStore) -> Result<Index, String> {
    vcore::util::block_on(Index::load_all(default_tokenizer(), &store.metadata[..], async |object| {
        Ok(store.buckets.get(&object).cloned())
    }))
    .map_err(|e| format!("load_all failed: {e:?}"))
}

// ---------------------------------------------------------------- template

#[derive(Clone, Debug)]
pub struct Spec {
    pub name: &'static str,
    pub prefill: Vec<(u64, &'static str)>,
    pub prefill_flush: bool,
    pub threads: Vec<Vec<Op>>,
}

pub struct Built {
    pub spec: Spec,
    pub initial: Model,
    pub vocabulary: BTreeSet<String>,
    pub allowed: HashSet<String>,
}

pub const BUCKET_OVERLOAD_SIZE: usize = 64;

pub fn build(spec: Spec) -> Built {
    let mut initial = Model::default();
    let mut vocabulary = BTreeSet::new();
    for (id, text) in &spec.prefill {
        assert_eq!(initial.apply(&Op::Insert(*id, text)), Ret::Inserted, "prefill must insert");
        vocabulary.extend(tokens_of(text).into_keys());
    }
    for t in &spec.threads {
        for op in t {
            if let Op::Insert(_, text) | Op::Remove(_, text) = op {
                vocabulary.extend(tokens_of(text).into_keys());
            }
        }
    }
    let allowed = allowed_outcomes(&initial, &vocabulary, &spec.threads);
    Built {
        spec,
        initial,
        vocabulary,
        allowed,
    }
}

pub fn fresh_index(b: &Built) -> Result<(Index, MemStore), String> {
    let idx = Index::new(
        "t".to_string(),
        default_tokenizer(),
        Some(BM25Config {
            bm25: BM25Params::default(),
            bucket_overload_size: BUCKET_OVERLOAD_SIZE,
        }),
    );
    let mut store = MemStore::default();
    for (id, text) in &b.spec.prefill {
        idx.insert(*id, text, 1).map_err(|e| format!("prefill insert failed: {e:?}"))?;
    }
    if b.spec.prefill_flush {
        flush_to(&idx, &mut store, 1)?;
    }
    Ok((idx, store))
}

pub fn exec_once(b: &Built, ch: &mut Chooser) -> Case {
    let (idx, mut store) = match fresh_index(b) {
        Ok(v) => v,
        Err(e) => vcore::report::machinery(&format!("template {}: {e}", b.spec.name)),
    };
    let idx = Arc::new(idx);
    let bodies: Vec<Body<Vec<Ret>>> = b
        .spec
        .threads
        .iter()
        .map(|ops| {
            let idx = idx.clone();
            Box::new(move || ops.iter().map(|op| apply(&idx, op)).collect::<Vec<Ret>>()) as Body<Vec<Ret>>
        })
        .collect();
    let r = vcore::thread::run_threads(ch, bodies, ExecConfig::default());
    let mut case = Case::from_exec(&r);
    if r.end != ExecEnd::AllDone {
        return case;
    }
    let rets: Vec<Vec<Ret>> = r.outputs.into_iter().map(|o| o.unwrap_or_default()).collect();
    for (t, rs) in rets.iter().enumerate() {
        if let Some(Ret::OtherErr(e)) = rs.iter().find(|r| matches!(r, Ret::OtherErr(_))) {
            case.fail = Some(("unexpected-error".into(), format!("thread {t} got {e}")));
            return case;
        }
    }
    let live = match observe(&idx, &b.vocabulary) {
        Ok(o) => o,
        Err(e) => {
            case.outcome = format!("returns={rets:?} <inconsistent>");
            case.fail = Some(("inconsistent-queries".into(), e));
            return case;
        }
    };
    case.outcome = render_outcome(&rets, &live);
    if !b.allowed.contains(&case.outcome) {
        case.fail = Some((
            // one signature per template: deeper bounds reach more variants
            // of the same broken outcome (the outcome is in the summary)
            "not-linearizable".to_string(),
            format!(
                "no sequential order of the operations gives {} ({} allowed outcomes)",
                case.outcome,
                b.allowed.len()
            ),
        ));
        return case;
    }
    // Durable view: only bucket contents are serialized, so a token that
    // landed in no bucket is lost exactly here.
    let reloaded = flush_to(&idx, &mut store, 2).and_then(|_| load_from(&store));
    match reloaded.and_then(|l| observe(&l, &b.vocabulary)) {
        Ok(o) if o == live => {}
        Ok(o) => {
            case.fail = Some((
                "lost-or-resurrected-after-flush-load".into(),
                format!("in memory {live:?} but flush+load gives {o:?}"),
            ));
            return case;
        }
        Err(e) => {
            case.fail = Some(("flush-load-failed".into(), e));
            return case;
        }
    }
    idx.compact_buckets();
    let reloaded = flush_to(&idx, &mut store, 3).and_then(|_| load_from(&store));
    match reloaded.and_then(|l| observe(&l, &b.vocabulary)) {
        Ok(o) if o == live => {}
        Ok(o) => {
            case.fail = Some((
                "lost-after-compact-flush-load".into(),
                format!("in memory {live:?} but compact+flush+load gives {o:?}"),
            ));
        }
        Err(e) => {
            case.fail = Some(("flush-load-failed".into(), e));
        }
    }
    case
}

pub fn describe(spec: &Spec) -> serde_json::Value {
    json!({
        "bucket_overload_size": BUCKET_OVERLOAD_SIZE,
        "prefill": spec.prefill.iter().map(|(id, t)| format!("{id}:{t:?}")).collect::<Vec<_>>(),
        "prefill_flushed": spec.prefill_flush,
        "threads": spec.threads.iter().map(|t| t.iter().map(show_op).collect::<Vec<_>>()).collect::<Vec<_>>(),
    })
}

pub fn templates(built: &[Built]) -> Vec<Template<'_>> {
    built
        .iter()
        .map(|b| Template {
            name: b.spec.name.to_string(),
            describe: describe(&b.spec),
            exec: Box::new(move |ch: &mut Chooser| exec_once(b, ch)),
        })
        .collect()
}

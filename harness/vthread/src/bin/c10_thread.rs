//! C10 / thread part: every interleaving, at the instrumented yield points
//! (before each lock acquisition / atomic RMW of the mutators and of
//! `compact_buckets`), of 2..3 threads x 1..2 operations on overlapping keys
//! of a non-unique `BTreeIndex<u64, String>` with `bucket_overload_size = 64`,
//! up to a preemption bound. Oracle per execution: return values + final
//! contents (point queries, key listing, range scan, len) equal those of some
//! sequential order on a `BTreeMap<String, BTreeSet<u64>>`; the same contents
//! after flush + load and after compact + flush + load; no deadlock, no panic.

use vcore::Run;
use vthread::btree_case::{Built, Op, Spec, build, templates};

// Keys of pairwise different length, spaced by 3 bytes: the serialized size
// of a posting (key + up to three small ids) is then different for every key
// in every reachable state, so `compact_buckets` (which sorts postings by
// size with an unstable sort over a randomly-hashed DashMap iteration) bins
// them the same way in every run. Entry size with one id = len + 9.
const A: &str = "a"; // 10 bytes
const B: &str = "bbbb"; // 13
const C: &str = "ccccccc"; // 16
const E: &str = "eeeeeeeeeeeee"; // 22
const F: &str = "ffffffffffffffff"; // 25
const G: &str = "ggggggggggggggggggg"; // 28
const H: &str = "hhhhhhhhhhhhhhhhhhhhhh"; // 31
const LONG: &str = "long-key-0123456789-0123456789-0123456789"; // 51

/// Four keys owned by id 9: bucket 0 = {H, G} (59 of 64 bytes), bucket 1 =
/// {F, E} (47 bytes). One more id on H/G still fits, the second one migrates;
/// one new 16-byte key fits into bucket 1, the next new key migrates.
fn full() -> Vec<(u64, &'static str)> {
    vec![(9, H), (9, G), (9, F), (9, E)]
}

/// Two keys owned by id 9: the only (= current) bucket holds 59 of 64 bytes.
fn nearly_full() -> Vec<(u64, &'static str)> {
    vec![(9, H), (9, G)]
}

fn specs() -> Vec<Spec> {
    use Op::*;
    let s = |name, prefill: Vec<(u64, &'static str)>, prefill_flush, threads| Spec {
        name,
        unique: false,
        prefill,
        prefill_flush,
        threads,
        one_winner: None,
    };
    vec![
        s("ins-ins-same-key", vec![], false, vec![vec![Insert(1, A)], vec![Insert(2, A)]]),
        s("ins-ins-same-posting", vec![], false, vec![vec![Insert(1, A)], vec![Insert(1, A)]]),
        s("ins-rem-same-posting", vec![], false, vec![vec![Insert(1, A)], vec![Remove(1, A)]]),
        s("rem-ins-other-id", vec![(1, A)], false, vec![vec![Remove(1, A)], vec![Insert(2, A)]]),
        s("rem-rem-same-posting", vec![(1, A), (1, B)], false, vec![vec![Remove(1, A)], vec![Remove(1, A)]]),
        s("append-append-full-bucket", full(), false, vec![vec![Insert(1, H), Insert(1, G)], vec![Insert(2, H)]]),
        s("new-new-full-bucket", full(), false, vec![vec![Insert(1, C)], vec![Insert(2, B)]]),
        // Last bucket nearly full (59 of 64 bytes): EVERY new key spills into a
        // freshly allocated bucket, so a second writer can sample the advanced
        // max_bucket_id between the spiller's fetch_add and its bucket creation.
        s("spill-vs-new-key", nearly_full(), false, vec![vec![Insert(1, C)], vec![Insert(2, B)]]),
        s("big-spill-vs-new-key", nearly_full(), false, vec![vec![Insert(1, LONG)], vec![Insert(2, A)]]),
        s("new-key-then-spill-twice", nearly_full(), false, vec![vec![Insert(1, A), Insert(1, C)], vec![Insert(2, B)]]),
        s("spill-spill-spill-3", nearly_full(), false, vec![vec![Insert(1, C)], vec![Insert(2, B)], vec![Insert(3, A)]]),
        s("insarr-spill-vs-new-key", nearly_full(), false, vec![vec![InsertArray(1, vec![C, B])], vec![Insert(2, A)]]),
        s("insarr-spill-vs-insarr-spill", nearly_full(), false, vec![vec![InsertArray(1, vec![C, A])], vec![InsertArray(2, vec![B])]]),
        s("long-long-migration", vec![(9, A), (9, B), (9, C)], false, vec![vec![Insert(1, LONG)], vec![Insert(2, LONG), Insert(2, A)]]),
        s("ins-vs-compact", full(), false, vec![vec![Insert(1, C), Insert(1, H)], vec![Compact]]),
        s("rem-vs-compact", full(), false, vec![vec![Remove(9, H), Remove(9, E)], vec![Compact]]),
        s("ins-vs-compact-flushed", full(), true, vec![vec![Insert(1, C)], vec![Compact, Insert(2, C)]]),
        s("rem-vs-compact-flushed", full(), true, vec![vec![Remove(9, H)], vec![Compact, Remove(9, E)]]),
        s("ins-rem-compact-3", full(), false, vec![vec![Insert(1, C)], vec![Remove(9, H)], vec![Compact]]),
        s("insarr-vs-rem-ins", vec![(1, B)], false, vec![vec![InsertArray(1, vec![A, B, C])], vec![Remove(1, B), Insert(2, A)]]),
        s("insarr-insarr-full-bucket", full(), false, vec![vec![InsertArray(1, vec![C, B])], vec![InsertArray(2, vec![B, C])]]),
        s("remarr-vs-ins", vec![(1, A), (1, B)], false, vec![vec![RemoveArray(1, vec![A, B])], vec![Insert(2, A), Insert(1, B)]]),
        // Every batch mutator against a compaction that may start while it is
        // in flight (only the shared gate, held for the whole call, prevents it).
        s("insarr-new-keys-vs-compact", full(), false, vec![vec![InsertArray(1, vec![C, B])], vec![Compact]]),
        s("insarr-new-keys-vs-compact-flushed", full(), true, vec![vec![InsertArray(1, vec![C, H])], vec![Compact]]),
        s("insarr-ins-compact-3", full(), false, vec![vec![InsertArray(1, vec![C, B])], vec![Insert(2, A)], vec![Compact]]),
        s("batch-update-vs-compact", full(), false, vec![vec![BatchUpdate(9, vec![H], vec![C])], vec![Compact]]),
        s("remarr-vs-compact", full(), false, vec![vec![RemoveArray(9, vec![H, E, F])], vec![Compact]]),
        s("ins-rem-twice", vec![], false, vec![vec![Insert(1, A), Remove(1, A)], vec![Insert(2, A), Remove(2, A)]]),
        s("three-writers-one-key", vec![], false, vec![vec![Insert(1, A)], vec![Insert(2, A)], vec![Remove(1, A)]]),
        s("batch-update-vs-ins-rem", vec![(1, A)], false, vec![vec![BatchUpdate(1, vec![A], vec![B])], vec![Insert(2, B), Remove(2, B)]]),
    ]
}

fn main() {
    let mut run = Run::from_args("C10", "thread", "model_checking");
    vthread::engine_ready();
    let built: Vec<Built> = specs().into_iter().map(build).collect();
    let ts = templates(&built, false);
    if run.replay_file.is_some() {
        vthread::replay(run, &ts);
    }
    run.rule(
        "THREAD engine: real OS threads, one runs at a time, yield points before every lock acquisition / atomic RMW of \
         BTreeIndex::{insert,remove,insert_array,remove_array,compact_buckets}; for every op-set template (fixed prefill + \
         2..3 threads x 1..2 ops on overlapping keys, bucket_overload_size=64) ALL schedules with at most N preemptions \
         (stateless DFS, iterative context bounding); every execution runs on the real index and is compared with the set \
         of outcomes reachable by some sequential order of per-key atomic steps on a BTreeMap<String,BTreeSet<u64>>; \
         distinct = distinct (template, return values, final contents)",
    );
    run.assume("weak-memory reorderings of Relaxed atomics (max_bucket_id, counters) are not modelled: schedules are sequentially consistent interleavings of the sections between yield points");
    run.assume("yield points sit only where the thread holds no DashMap shard guard and no btree/metadata lock; DashMap / parking_lot themselves are trusted");
    run.assume("flush is not run concurrently with mutations (caller's contract); DashMap iteration order inside compact_buckets is whatever the process-random hasher gives");
    vthread::run_tiers(&mut run, &ts, 3, 3, 7);
    run.finish();
}

//! C04 / collthread part: `Collection::add_from` / `update` called from 2..3
//! real OS threads that contend for unique values (unique scalar `name`,
//! unique ARRAY `codes`).
//!
//! The await-level STEP engine of the other C04 part cannot interleave two
//! adds inside their synchronous index phase (between two awaits); this part
//! can: every thread drives its call with its own `block_on` over an
//! un-gated in-memory store (so every await completes at once), and the
//! cfg-guarded yield points inside `BTreeIndex` (before every lock
//! acquisition of its mutators) are the scheduling points. The explorer
//! enumerates every schedule with at most N preemptions.
//!
//! Oracle per execution: the ACCEPTED calls form a conflict-free sequential
//! order on the model (respecting real-time order); every refusal is justified
//! by a unique value some document holds or some other call of the race wants
//! (executions whose return values are those of no single sequential order of
//! ALL calls - a writer refused because of the transient claim of a writer that
//! is refused itself - are counted, not judged: C04 does not promise
//! linearizable return values); the final collection equals the accepted
//! order's result under the full C02 index<->document comparison (no index
//! entry of a rejected writer appears or disappears), no two live documents
//! share a unique value, and every value the accepted order leaves free is
//! accepted by a sequential add afterwards (the contested value "becomes
//! available again"). No deadlock, no panic.
//!
//! Calls in one template never touch the same document id (the per-document
//! async lock is held across index calls and is not a scheduling point), and
//! no thread ever parks while it holds a collection-level lock: the only
//! points are inside the index crates, which are entered without one.

use anda_db::collection::Collection;
use anda_db::database::AndaDB;
use object_store::{ObjectStore, memory::InMemory};
use serde_json::json;
use std::collections::BTreeMap;
use std::sync::Arc;
use std::sync::atomic::{AtomicU64, Ordering};
use vcore::choice::Chooser;
use vcore::thread::{Body, ExecConfig, run_threads};
use vcore::{Run, util};
use vdb::fixture::{Idx, VDoc, connect, open_coll, vdoc_codes};
use vdb::model::DocModel;
use vthread::{Case, Template};

#[derive(Clone, Debug)]
enum Op {
    /// add a document with this name and these unique codes
    Add(&'static str, Vec<&'static str>),
    /// update document `id`: codes := these
    SetCodes(u64, Vec<&'static str>),
    /// update document `id`: name := this
    SetName(u64, &'static str),
    /// remove document `id` (releases its unique values)
    Remove(u64),
}

#[derive(Clone, Debug, PartialEq)]
enum Ret {
    Id(u64),
    Updated,
    /// remove returned the document (true) / found nothing (false)
    Removed(bool),
    Rejected,
    OtherErr(String),
}

fn doc_of(name: &str, codes: &[&str]) -> VDoc {
    vdoc_codes(name, 7, None, &[], codes, "")
}

fn idx() -> Idx {
    Idx { name: true, codes: true, age: true, ..Idx::NONE }
}

/// Sequential model: documents by id; unique name, unique codes.
#[derive(Clone, Default)]
struct Model {
    docs: BTreeMap<u64, VDoc>,
    next_id: u64,
}

impl Model {
    fn conflicts(&self, name: Option<&str>, codes: &[String], except: Option<u64>) -> bool {
        self.docs.iter().any(|(i, d)| Some(*i) != except && (name.is_some_and(|n| d.name == n) || d.codes.iter().any(|c| codes.contains(c))))
    }
    /// applies `op` if the recorded return value is what the model gives; None otherwise
    fn step(&mut self, op: &Op, ret: &Ret) -> bool {
        match op {
            Op::Add(name, codes) => {
                let d = doc_of(name, codes);
                if self.conflicts(Some(name), &d.codes, None) {
                    *ret == Ret::Rejected
                } else if let Ret::Id(id) = ret {
                    // ids are handed out in allocation order, not in linearization order: any fresh id is fine
                    if self.docs.contains_key(id) {
                        return false;
                    }
                    let mut d = d;
                    d._id = *id;
                    self.docs.insert(*id, d);
                    self.next_id = self.next_id.max(*id + 1);
                    true
                } else {
                    false
                }
            }
            Op::SetCodes(id, codes) => {
                let codes: Vec<String> = codes.iter().map(|s| s.to_string()).collect();
                if !self.docs.contains_key(id) {
                    return matches!(ret, Ret::OtherErr(_));
                }
                if self.conflicts(None, &codes, Some(*id)) {
                    *ret == Ret::Rejected
                } else if *ret == Ret::Updated {
                    self.docs.get_mut(id).unwrap().codes = codes;
                    true
                } else {
                    false
                }
            }
            Op::SetName(id, name) => {
                if !self.docs.contains_key(id) {
                    return matches!(ret, Ret::OtherErr(_));
                }
                if self.conflicts(Some(name), &[], Some(*id)) {
                    *ret == Ret::Rejected
                } else if *ret == Ret::Updated {
                    self.docs.get_mut(id).unwrap().name = name.to_string();
                    true
                } else {
                    false
                }
            }
            Op::Remove(id) => {
                let had = self.docs.remove(id).is_some();
                *ret == Ret::Removed(had)
            }
        }
    }
}

fn run_op(coll: &Collection, op: &Op) -> Ret {
    use anda_db::error::DBError;
    use anda_db::query::Fv;
    let classify = |e: DBError| match e {
        DBError::AlreadyExists { .. } => Ret::Rejected,
        other => Ret::OtherErr(format!("{other:?}").chars().take(80).collect()),
    };
    match op {
        Op::Add(name, codes) => match util::block_on(coll.add_from(&doc_of(name, codes))) {
            Ok(id) => Ret::Id(id),
            Err(e) => classify(e),
        },
        Op::SetCodes(id, codes) => {
            let mut m = BTreeMap::new();
            m.insert("codes".to_string(), Fv::Array(codes.iter().map(|c| Fv::Text(c.to_string())).collect()));
            match util::block_on(coll.update(*id, m)) {
                Ok(_) => Ret::Updated,
                Err(e) => classify(e),
            }
        }
        Op::SetName(id, name) => {
            let mut m = BTreeMap::new();
            m.insert("name".to_string(), Fv::Text(name.to_string()));
            match util::block_on(coll.update(*id, m)) {
                Ok(_) => Ret::Updated,
                Err(e) => classify(e),
            }
        }
        Op::Remove(id) => match util::block_on(coll.remove(*id)) {
            Ok(d) => Ret::Removed(d.is_some()),
            Err(e) => classify(e),
        },
    }
}

struct Spec {
    name: &'static str,
    /// documents added sequentially before the race: (name, codes) -> ids 1..
    prefill: Vec<(&'static str, Vec<&'static str>)>,
    threads: Vec<Vec<Op>>,
    /// values a sequential add probes afterwards: (name, codes)
    probes: Vec<(&'static str, Vec<&'static str>)>,
}

#[derive(Clone, Debug)]
struct Done {
    thread: usize,
    idx: usize,
    inv: u64,
    ret: u64,
    out: Ret,
}

/// Wing-Gong search over the completed calls; returns the final model of an accepted order.
fn linearize(spec: &Spec, done: &[Done], m: &Model, placed: &mut Vec<bool>) -> Option<Model> {
    if placed.iter().all(|p| *p) {
        return Some(m.clone());
    }
    for i in 0..done.len() {
        if placed[i] {
            continue;
        }
        if (0..done.len()).any(|j| !placed[j] && j != i && done[j].ret < done[i].inv) {
            continue;
        }
        let op = &spec.threads[done[i].thread][done[i].idx];
        let mut m2 = m.clone();
        if !m2.step(op, &done[i].out) {
            continue;
        }
        placed[i] = true;
        let r = linearize(spec, done, &m2, placed);
        placed[i] = false;
        if r.is_some() {
            return r;
        }
    }
    None
}

fn exec_once(spec: &Spec, ch: &mut Chooser) -> Case {
    anda_db_utils::verif::set_clock(Some((1_700_000_000_000, 1)));
    let store: Arc<dyn ObjectStore> = Arc::new(InMemory::new());
    let (_db, coll): (AndaDB, Arc<Collection>) = util::block_on(async {
        let db = connect(store.clone()).await.expect("connect");
        let coll = open_coll(&db, idx()).await.expect("open collection");
        (db, coll)
    });
    let mut init = Model { docs: BTreeMap::new(), next_id: 1 };
    for (name, codes) in &spec.prefill {
        let id = util::block_on(coll.add_from(&doc_of(name, codes))).expect("prefill add");
        let mut d = doc_of(name, codes);
        d._id = id;
        init.docs.insert(id, d);
        init.next_id = id + 1;
    }
    let clock = AtomicU64::new(1);
    let bodies: Vec<Body<'_, Vec<Done>>> = spec
        .threads
        .iter()
        .enumerate()
        .map(|(t, ops)| {
            let coll = &coll;
            let clock = &clock;
            Box::new(move || {
                // each worker reads the logical clock of its own thread
                anda_db_utils::verif::set_clock(Some((1_700_000_100_000 + 1000 * t as u64, 1)));
                let mut out = Vec::new();
                for (i, op) in ops.iter().enumerate() {
                    let inv = clock.fetch_add(1, Ordering::SeqCst);
                    let r = run_op(coll, op);
                    let ret = clock.fetch_add(1, Ordering::SeqCst);
                    out.push(Done { thread: t, idx: i, inv, ret, out: r });
                }
                out
            }) as Body<'_, Vec<Done>>
        })
        .collect();
    let r = run_threads(ch, bodies, ExecConfig::default());
    let mut case = Case::from_exec(&r);
    if case.fail.is_some() {
        return case;
    }
    let done: Vec<Done> = r.outputs.into_iter().flatten().flatten().collect();
    let total: usize = spec.threads.iter().map(|t| t.len()).sum();
    if done.len() != total {
        case.fail = Some(("incomplete".into(), format!("{} of {total} calls returned", done.len())));
        return case;
    }
    let mut by_thread = done.clone();
    by_thread.sort_by_key(|d| (d.thread, d.idx));
    // ids depend on allocation order; the outcome key keeps only the class of each return
    case.outcome = format!(
        "returns={:?}",
        by_thread
            .iter()
            .map(|d| format!(
                "{}.{}={}",
                d.thread,
                d.idx,
                match &d.out {
                    Ret::Id(_) => "id".to_string(),
                    other => format!("{other:?}"),
                }
            ))
            .collect::<Vec<_>>()
    );
    let mut placed = vec![false; done.len()];
    let fin = match linearize(spec, &done, &init, &mut placed) {
        Some(fin) => fin,
        None => {
            // C04 does not promise linearizable return values (C05 does, at await granularity): a
            // writer may be refused because of the TRANSIENT claim of a concurrent writer that is
            // itself refused later. What C04 states is judged instead: the accepted calls alone form
            // a conflict-free sequential order, every refusal is justified by a value some document
            // or some other call of the race holds or wants, and (below) the refused calls left no trace.
            let accepted: Vec<Done> = done.iter().filter(|d| matches!(d.out, Ret::Id(_) | Ret::Updated | Ret::Removed(_))).cloned().collect();
            let mut placed = vec![false; accepted.len()];
            let Some(fin) = linearize(spec, &accepted, &init, &mut placed) else {
                case.fail = Some((
                    "accepted-calls-conflict".into(),
                    format!(
                        "the ACCEPTED calls alone are not a conflict-free sequential order: {:?}",
                        by_thread.iter().map(|d| format!("{}.{}={:?}", d.thread, d.idx, d.out)).collect::<Vec<_>>()
                    ),
                ));
                return case;
            };
            for d in done.iter().filter(|d| d.out == Ret::Rejected) {
                let wanted = |op: &Op| -> (Option<String>, Vec<String>) {
                    match op {
                        Op::Add(n, c) => (Some(n.to_string()), c.iter().map(|s| s.to_string()).collect()),
                        Op::SetCodes(_, c) => (None, c.iter().map(|s| s.to_string()).collect()),
                        Op::SetName(_, n) => (Some(n.to_string()), vec![]),
                        Op::Remove(_) => (None, vec![]),
                    }
                };
                let (name, codes) = wanted(&spec.threads[d.thread][d.idx]);
                let held_by_doc = init.docs.values().any(|x| name.as_deref() == Some(x.name.as_str()) || x.codes.iter().any(|c| codes.contains(c)));
                let wanted_by_other = done.iter().filter(|o| (o.thread, o.idx) != (d.thread, d.idx)).any(|o| {
                    let (n2, c2) = wanted(&spec.threads[o.thread][o.idx]);
                    (name.is_some() && name == n2) || c2.iter().any(|c| codes.contains(c))
                });
                if !held_by_doc && !wanted_by_other {
                    case.fail = Some(("unjustified-rejection".into(), format!("call {}.{} was refused although nobody holds or wants any of its unique values", d.thread, d.idx)));
                    return case;
                }
            }
            case.outcome.push_str(" [transient-claim]");
            fin
        }
    };
    // final state: documents, every index in both directions, counts
    let model = DocModel { docs: fin.docs.clone() };
    let probe = fin.docs.keys().max().copied().unwrap_or(0) + 3;
    let bad = util::block_on(vdb::oracle::full_compare(&coll, &model, idx(), probe));
    if !bad.is_empty() {
        case.fail = Some((
            format!("final-state|{}", bad[0].split_whitespace().take(2).collect::<Vec<_>>().join("-")),
            format!("the calls returned as in a sequential order, but the collection is not that order's result: {}", bad.join("; ")),
        ));
        return case;
    }
    // a value the accepted order leaves free is available again
    let mut m = fin.clone();
    for (name, codes) in &spec.probes {
        let d = doc_of(name, codes);
        let want_reject = m.conflicts(Some(name), &d.codes, None);
        let got = run_op(&coll, &Op::Add(name, codes.clone()));
        match (&got, want_reject) {
            (Ret::Rejected, true) => {}
            (Ret::Id(id), false) => {
                let mut d = d;
                d._id = *id;
                m.docs.insert(*id, d);
            }
            _ => {
                case.fail = Some((
                    "probe".into(),
                    format!(
                        "after the race a sequential add of name {name:?} codes {codes:?} returned {got:?}; the accepted order {} it",
                        if want_reject { "rejects" } else { "accepts: the values are free" }
                    ),
                ));
                return case;
            }
        }
    }
    case
}

fn specs() -> Vec<Spec> {
    use Op::*;
    let s = |name, prefill, threads, probes| Spec { name, prefill, threads, probes };
    vec![
        // two adds contending for one code of a multi-code document
        s("add-xy-vs-add-y", vec![], vec![vec![Add("a", vec!["x", "y"])], vec![Add("b", vec!["y"])]], vec![("c", vec!["x"]), ("d", vec!["y"])]),
        s("add-xy-vs-add-x", vec![], vec![vec![Add("a", vec!["x", "y"])], vec![Add("b", vec!["x"])]], vec![("c", vec!["y"]), ("d", vec!["x"])]),
        s("add-xyz-vs-add-y", vec![], vec![vec![Add("a", vec!["x", "y", "z"])], vec![Add("b", vec!["y"])]], vec![("c", vec!["x"]), ("d", vec!["z"]), ("e", vec!["y"])]),
        s("add-xy-vs-add-yx", vec![], vec![vec![Add("a", vec!["x", "y"])], vec![Add("b", vec!["y", "x"])]], vec![("c", vec!["x"]), ("d", vec!["y"])]),
        // same unique name, disjoint codes: the loser's codes must be free again
        s("same-name", vec![], vec![vec![Add("a", vec!["x"])], vec![Add("a", vec!["y"])]], vec![("c", vec!["x"]), ("d", vec!["y"])]),
        // contested name AND contested code on different documents
        s("name-vs-code", vec![("p", vec!["q"])], vec![vec![Add("p", vec!["x"])], vec![Add("b", vec!["x", "q"])]], vec![("c", vec!["x"])]),
        // an update and an add contending for a code
        s("setcodes-vs-add", vec![("p", vec!["q"])], vec![vec![SetCodes(1, vec!["q", "x", "y"])], vec![Add("b", vec!["y"])]], vec![("c", vec!["x"]), ("d", vec!["y"])]),
        // two updates of DIFFERENT documents contending for a code and for a name
        s("setcodes-vs-setcodes", vec![("p", vec!["q"]), ("r", vec!["s"])], vec![vec![SetCodes(1, vec!["q", "x", "y"])], vec![SetCodes(2, vec!["y", "s"])]], vec![("c", vec!["x"]), ("d", vec!["y"])]),
        s("setname-vs-setname", vec![("p", vec!["q"]), ("r", vec!["s"])], vec![vec![SetName(1, "n")], vec![SetName(2, "n")]], vec![("n", vec!["t"]), ("p", vec!["u"]), ("r", vec!["v"])]),
        s("setname-vs-add", vec![("p", vec!["q"])], vec![vec![SetName(1, "n")], vec![Add("n", vec!["x"])]], vec![("p", vec!["u"]), ("c", vec!["x"])]),
        // a holder is removed while another writer wants its values
        s("remove-vs-add-code", vec![("p", vec!["q", "r"])], vec![vec![Remove(1)], vec![Add("b", vec!["q"])]], vec![("c", vec!["r"]), ("d", vec!["q"]), ("p", vec!["u"])]),
        s("remove-vs-add-name", vec![("p", vec!["q"])], vec![vec![Remove(1)], vec![Add("p", vec!["x"])]], vec![("c", vec!["q"]), ("d", vec!["x"])]),
        s("remove-vs-setcodes", vec![("p", vec!["q"]), ("r", vec!["s"])], vec![vec![Remove(1)], vec![SetCodes(2, vec!["s", "q"])]], vec![("c", vec!["q"]), ("p", vec!["u"])]),
        s("remove-vs-add-vs-add", vec![("p", vec!["q"])], vec![vec![Remove(1)], vec![Add("b", vec!["q"])], vec![Add("p", vec!["y"])]], vec![("c", vec!["q"]), ("d", vec!["y"])]),
        // three writers
        s("three-adds", vec![], vec![vec![Add("a", vec!["x", "y"])], vec![Add("b", vec!["y", "z"])], vec![Add("c", vec!["z"])]], vec![("d", vec!["x"]), ("e", vec!["y"]), ("f", vec!["z"])]),
    ]
}

fn main() {
    let mut run = Run::from_args("C04", "collthread", "model_checking");
    vthread::engine_ready();
    let specs = specs();
    let ts: Vec<Template<'_>> = specs
        .iter()
        .map(|sp| Template {
            name: sp.name.to_string(),
            describe: json!({
                "prefill": sp.prefill.iter().map(|(n, c)| format!("{n}:{c:?}")).collect::<Vec<_>>(),
                "threads": sp.threads.iter().map(|t| t.iter().map(|o| format!("{o:?}")).collect::<Vec<_>>()).collect::<Vec<_>>(),
                "probes": sp.probes.iter().map(|(n, c)| format!("{n}:{c:?}")).collect::<Vec<_>>(),
            }),
            exec: Box::new(move |ch: &mut Chooser| exec_once(sp, ch)),
        })
        .collect();
    if run.replay_file.is_some() {
        vthread::replay(run, &ts);
    }
    run.rule(
        "THREAD engine on a real Collection (in-memory store, indexes: unique name, unique array codes, age): for every \
         template (2..3 OS threads, each driving Collection::add_from / update with its own block_on; the scheduling points \
         are the yield points before every lock acquisition inside BTreeIndex) ALL schedules with at most N preemptions; \
         the accepted calls form a conflict-free sequential order on the model (respecting real-time order), every refusal is \
         justified by a value some document holds or another call of the race wants (outcomes that no single order of ALL calls \
         explains - transient claims of a writer that is refused itself - are marked [transient-claim] and counted, not judged), \
         the final collection equals the accepted order's result under the full index<->document comparison, and every value \
         that order leaves free is accepted by a sequential add afterwards; no deadlock, no panic; distinct = distinct \
         (template, return classes)",
    );
    run.assume("calls of one template never touch the same document id (the per-document async lock is held across index calls and is not a scheduling point); every await completes at once (un-gated in-memory store), so the only interleaving is inside the synchronous index phase");
    run.assume("weak-memory reorderings are not modelled; a blocking acquisition without a hook while another thread is parked holding the lock ends as a machinery error (watchdog), never as a verdict");
    vthread::run_tiers(&mut run, &ts, 2, 2, 5);
    run.finish();
}

//! C05 / thread part: the SYNCHRONOUS extension API of a `Collection`
//! (`set_extension_with`, `set_extension_from_with`, `set_extension`,
//! `get_extension`, `extensions_with`) called from 2..3 real OS threads.
//!
//! These calls never await, so the await-level STEP engine of the other C05
//! part cannot interleave them; what makes them atomic is that the metadata
//! lock is held from reading the old value to storing the new one, across the
//! caller's closure. Here every caller closure contains a yield point
//! (`verif::point("closure")`) and every lock acquisition of the five entry
//! points is a visible wait on the real lock state (hooks in collection.rs),
//! so the explorer enumerates every schedule in which another thread's whole
//! call could fall between a call's read and its write.
//!
//! Oracle per execution: the recorded call/return history (return values
//! included) is linearizable with respect to a plain `BTreeMap<String, u64>`
//! (brute force over all orders that respect program order and real-time
//! order), the final in-memory extensions equal the final state of that
//! order, and the same map is read back after `flush` + reconnect; no
//! deadlock, no panic.

use anda_db::collection::Collection;
use anda_db::database::AndaDB;
use anda_db_schema::FieldValue;
use object_store::{ObjectStore, memory::InMemory};
use serde_json::json;
use std::collections::BTreeMap;
use std::sync::Arc;
use std::sync::atomic::{AtomicU64, Ordering};
use vcore::choice::Chooser;
use vcore::thread::{Body, ExecConfig, run_threads};
use vcore::{Run, util};
use vdb::fixture::{Idx, connect, open_coll};
use vthread::{Case, Template};

const A: &str = "ext_a";
const B: &str = "ext_b";

#[derive(Clone, Debug, PartialEq, Eq)]
enum Op {
    /// `set_extension_with(k, |old| Some(old.unwrap_or(0) + d))`
    Incr(&'static str, u64),
    /// `set_extension_from_with::<_, u64>(k, |old| Some(old.unwrap_or(0) + d))`
    IncrFrom(&'static str, u64),
    /// `set_extension_with(k, |old| if old == expect { Some(new) } else { None })`
    Cas(&'static str, Option<u64>, u64),
    /// `set_extension_with(k, |_| None)`: computes, declines to change
    Decline(&'static str),
    /// `set_extension(k, v)`
    Set(&'static str, u64),
    /// `get_extension(k)`
    Get(&'static str),
    /// `extensions_with(|m| m.clone())`: both keys in one consistent read
    Snapshot,
}

#[derive(Clone, Debug, PartialEq, Eq)]
enum Ret {
    Prev(Option<u64>),
    Unit,
    Val(Option<u64>),
    Map(BTreeMap<String, u64>),
}

type Model = BTreeMap<String, u64>;

fn m_apply(m: &mut Model, op: &Op) -> Ret {
    match op {
        Op::Incr(k, d) | Op::IncrFrom(k, d) => {
            let old = m.get(*k).copied();
            m.insert(k.to_string(), old.unwrap_or(0) + d);
            Ret::Prev(old)
        }
        Op::Cas(k, expect, new) => {
            let old = m.get(*k).copied();
            if old == *expect {
                m.insert(k.to_string(), *new);
                Ret::Prev(old)
            } else {
                Ret::Prev(None)
            }
        }
        Op::Decline(_) => Ret::Prev(None),
        Op::Set(k, v) => {
            m.insert(k.to_string(), *v);
            Ret::Unit
        }
        Op::Get(k) => Ret::Val(m.get(*k).copied()),
        Op::Snapshot => Ret::Map(m.clone()),
    }
}

fn as_u64(v: &FieldValue) -> Option<u64> {
    match v {
        FieldValue::U64(x) => Some(*x),
        _ => None,
    }
}

fn yield_in_closure() {
    anda_db_utils::verif::point("closure");
}

fn ext_map(coll: &Collection) -> Model {
    let mut m = Model::new();
    for k in [A, B] {
        if let Some(v) = coll.get_extension(k).as_ref().and_then(as_u64) {
            m.insert(k.to_string(), v);
        }
    }
    m
}

fn run_op(coll: &Collection, op: &Op) -> Ret {
    match op {
        Op::Incr(k, d) => {
            let d = *d;
            let prev = coll.set_extension_with(k.to_string(), move |old| {
                let old = old.and_then(as_u64);
                yield_in_closure();
                Some(FieldValue::U64(old.unwrap_or(0) + d))
            });
            Ret::Prev(prev.as_ref().and_then(as_u64))
        }
        Op::IncrFrom(k, d) => {
            let d = *d;
            let prev = coll.set_extension_from_with::<_, u64>(k.to_string(), move |old| {
                yield_in_closure();
                Some(old.unwrap_or(0) + d)
            });
            Ret::Prev(prev)
        }
        Op::Cas(k, expect, new) => {
            let (expect, new) = (*expect, *new);
            let prev = coll.set_extension_with(k.to_string(), move |old| {
                let old = old.and_then(as_u64);
                yield_in_closure();
                (old == expect).then_some(FieldValue::U64(new))
            });
            Ret::Prev(prev.as_ref().and_then(as_u64))
        }
        Op::Decline(k) => {
            let prev = coll.set_extension_with(k.to_string(), |_| {
                yield_in_closure();
                None
            });
            Ret::Prev(prev.as_ref().and_then(as_u64))
        }
        Op::Set(k, v) => {
            coll.set_extension(k.to_string(), FieldValue::U64(*v));
            Ret::Unit
        }
        Op::Get(k) => Ret::Val(coll.get_extension(k).as_ref().and_then(as_u64)),
        Op::Snapshot => Ret::Map(coll.extensions_with(|m| {
            let snap: Model = m
                .iter()
                .filter(|(k, _)| k.as_str() == A || k.as_str() == B)
                .filter_map(|(k, v)| as_u64(v).map(|v| (k.clone(), v)))
                .collect();
            yield_in_closure();
            snap
        })),
    }
}

struct Spec {
    name: &'static str,
    prefill: Vec<(&'static str, u64)>,
    threads: Vec<Vec<Op>>,
}

#[derive(Clone, Debug)]
struct Done {
    thread: usize,
    idx: usize,
    inv: u64,
    ret: u64,
    out: Ret,
}

/// Wing–Gong style search: picks, one at a time, an operation none of whose
/// real-time predecessors is still pending and whose recorded return value
/// equals the model's; succeeds when all are placed and the model equals
/// `final_state`.
fn linearizable(spec: &Spec, done: &[Done], m: &mut Model, placed: &mut Vec<bool>, final_state: &Model) -> bool {
    if placed.iter().all(|p| *p) {
        return m == final_state;
    }
    for i in 0..done.len() {
        if placed[i] {
            continue;
        }
        // minimal: no unplaced op returned before this one was invoked
        if (0..done.len()).any(|j| !placed[j] && j != i && done[j].ret < done[i].inv) {
            continue;
        }
        let op = &spec.threads[done[i].thread][done[i].idx];
        let mut m2 = m.clone();
        if m_apply(&mut m2, op) != done[i].out {
            continue;
        }
        placed[i] = true;
        if linearizable(spec, done, &mut m2, placed, final_state) {
            placed[i] = false;
            return true;
        }
        placed[i] = false;
    }
    false
}

fn exec_once(spec: &Spec, ch: &mut Chooser) -> Case {
    let store: Arc<dyn ObjectStore> = Arc::new(InMemory::new());
    let (db, coll): (AndaDB, Arc<Collection>) = util::block_on(async {
        let db = connect(store.clone()).await.expect("connect");
        let coll = open_coll(&db, Idx::NONE).await.expect("open collection");
        (db, coll)
    });
    let mut init = Model::new();
    for (k, v) in &spec.prefill {
        coll.set_extension(k.to_string(), FieldValue::U64(*v));
        init.insert(k.to_string(), *v);
    }
    let clock = AtomicU64::new(1);
    let bodies: Vec<Body<'_, Vec<Done>>> = spec
        .threads
        .iter()
        .enumerate()
        .map(|(t, ops)| {
            let coll = &coll;
            let clock = &clock;
            Box::new(move || {
                let mut out = Vec::new();
                for (i, op) in ops.iter().enumerate() {
                    let inv = clock.fetch_add(1, Ordering::SeqCst);
                    let r = run_op(coll, op);
                    let ret = clock.fetch_add(1, Ordering::SeqCst);
                    out.push(Done { thread: t, idx: i, inv, ret, out: r });
                }
                out
            }) as Body<'_, Vec<Done>>
        })
        .collect();
    let r = run_threads(ch, bodies, ExecConfig::default());
    let mut case = Case::from_exec(&r);
    if case.fail.is_some() {
        return case;
    }
    let done: Vec<Done> = r.outputs.into_iter().flatten().flatten().collect();
    let total: usize = spec.threads.iter().map(|t| t.len()).sum();
    if done.len() != total {
        case.fail = Some(("incomplete".into(), format!("{} of {total} calls returned", done.len())));
        return case;
    }
    let final_state = ext_map(&coll);
    let mut by_thread = done.clone();
    by_thread.sort_by_key(|d| (d.thread, d.idx));
    case.outcome = format!(
        "returns={:?} final={:?}",
        by_thread.iter().map(|d| format!("{}.{}={:?}", d.thread, d.idx, d.out)).collect::<Vec<_>>(),
        final_state
    );
    let mut placed = vec![false; done.len()];
    if !linearizable(spec, &done, &mut init.clone(), &mut placed, &final_state) {
        case.fail = Some((
            "not-linearizable".into(),
            format!(
                "no order of the calls (respecting program and real-time order) on a plain map produces these return values and this final state: {}",
                case.outcome
            ),
        ));
        return case;
    }
    // what the next flush persists is that final state
    let persisted: Result<Model, String> = util::block_on(async {
        coll.flush(anda_db::unix_ms()).await.map_err(|e| format!("flush: {e:?}"))?;
        drop(coll);
        db.close().await.map_err(|e| format!("close: {e:?}"))?;
        let db2 = connect(store.clone()).await.map_err(|e| format!("reconnect: {e:?}"))?;
        let c2 = open_coll(&db2, Idx::NONE).await.map_err(|e| format!("reopen: {e:?}"))?;
        Ok(ext_map(&c2))
    });
    match persisted {
        Ok(p) if p == final_state => {}
        Ok(p) => {
            case.fail = Some((
                "persisted-differs".into(),
                format!("after flush + reconnect the extensions are {p:?}, in memory they were {final_state:?}"),
            ));
        }
        Err(e) => case.fail = Some(("flush-error".into(), e)),
    }
    case
}

fn specs() -> Vec<Spec> {
    use Op::*;
    let s = |name, prefill: Vec<(&'static str, u64)>, threads| Spec { name, prefill, threads };
    vec![
        s("incr-vs-incr", vec![], vec![vec![Incr(A, 1)], vec![Incr(A, 10)]]),
        s("incr-vs-incr-prefilled", vec![(A, 5)], vec![vec![Incr(A, 1)], vec![Incr(A, 10)]]),
        s("incr-vs-incr_from", vec![], vec![vec![Incr(A, 1)], vec![IncrFrom(A, 10)]]),
        s("incr_from-vs-incr_from", vec![(A, 5)], vec![vec![IncrFrom(A, 1)], vec![IncrFrom(A, 10)]]),
        s("three-incr", vec![], vec![vec![Incr(A, 1)], vec![Incr(A, 10)], vec![IncrFrom(A, 100)]]),
        s("two-incr-each", vec![], vec![vec![Incr(A, 1), Incr(A, 1)], vec![Incr(A, 10), IncrFrom(A, 10)]]),
        s("incr-vs-set", vec![(A, 5)], vec![vec![Incr(A, 1)], vec![Set(A, 100)]]),
        s("incr-vs-set-vs-get", vec![], vec![vec![Incr(A, 1)], vec![Set(A, 100)], vec![Get(A), Get(A)]]),
        s("cas-vs-cas-free", vec![], vec![vec![Cas(A, None, 1)], vec![Cas(A, None, 2)]]),
        s("cas-vs-cas-held", vec![(A, 5)], vec![vec![Cas(A, Some(5), 6)], vec![Cas(A, Some(5), 7)]]),
        s("cas-vs-incr", vec![(A, 5)], vec![vec![Cas(A, Some(5), 50)], vec![Incr(A, 1)]]),
        s("decline-vs-incr", vec![(A, 5)], vec![vec![Decline(A), Get(A)], vec![Incr(A, 1)]]),
        s("two-keys-vs-snapshot", vec![], vec![vec![Incr(A, 1), Incr(B, 1)], vec![Snapshot, Snapshot]]),
        s("two-keys-crossed", vec![], vec![vec![Incr(A, 1), IncrFrom(B, 1)], vec![Incr(B, 10), IncrFrom(A, 10)]]),
        s("snapshot-vs-set-vs-incr", vec![(A, 1), (B, 1)], vec![vec![Snapshot], vec![Set(A, 2), Set(B, 2)], vec![Incr(B, 10)]]),
    ]
}

fn main() {
    let mut run = Run::from_args("C05", "thread", "model_checking");
    vthread::engine_ready();
    let specs = specs();
    let ts: Vec<Template<'_>> = specs
        .iter()
        .map(|sp| Template {
            name: sp.name.to_string(),
            describe: json!({
                "prefill": sp.prefill.iter().map(|(k, v)| format!("{k}={v}")).collect::<Vec<_>>(),
                "threads": sp.threads.iter().map(|t| t.iter().map(|o| format!("{o:?}")).collect::<Vec<_>>()).collect::<Vec<_>>(),
            }),
            exec: Box::new(move |ch: &mut Chooser| exec_once(sp, ch)),
        })
        .collect();
    if run.replay_file.is_some() {
        vthread::replay(run, &ts);
    }
    run.rule(
        "THREAD engine on a real Collection (in-memory store): for every template (2..3 OS threads calling \
         set_extension_with / set_extension_from_with / set_extension / get_extension / extensions_with on the same 1..2 \
         keys, every caller closure containing a yield point, every metadata-lock acquisition of these entry points a \
         visible wait on the real lock state) ALL schedules with at most N preemptions; the call/return history with \
         return values is linearizable w.r.t. a plain map (brute force over all orders respecting program and real-time \
         order), the final in-memory extensions equal that order's final state and are what flush + reconnect reads \
         back; no deadlock, no panic; distinct = distinct (template, returns, final state)",
    );
    run.assume("only the synchronous extension entry points are scheduled at lock granularity; the async ones (save_extension, remove_extension, flush) are interleaved at await granularity by the step part");
    run.assume("weak-memory reorderings are not modelled; a lock acquisition added without a visible-wait hook while another thread is parked holding the lock ends as a machinery error (watchdog), never as a verdict");
    vthread::run_tiers(&mut run, &ts, 3, 3, 8);
    run.finish();
}

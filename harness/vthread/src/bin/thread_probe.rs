use std::time::Instant;
use vcore::choice::Chooser;
use vcore::thread::*;
use vthread::btree_case::*;
use std::sync::Arc;
fn main() {
    let b = build(Spec { name: "p", unique: false, prefill: vec![], prefill_flush: false, threads: vec![vec![Op::Insert(1, "a")], vec![Op::Insert(2, "a")]] });
    let n = 500;
    let t0 = Instant::now();
    for _ in 0..n { let mut ch = Chooser::new(vec![]); let c = exec_once(&b, &mut ch, false); assert!(c.fail.is_none()); }
    println!("exec_once: {:.3} ms", t0.elapsed().as_secs_f64() * 1000.0 / n as f64);
    // only the threads part
    let t0 = Instant::now();
    let mut steps = 0;
    for _ in 0..n {
        let (idx, _s) = fresh_index(&b).unwrap();
        let idx = Arc::new(idx);
        let i1 = idx.clone(); let i2 = idx.clone();
        let mut ch = Chooser::new(vec![]);
        let r = run_threads(&mut ch, vec![Box::new(move || { i1.insert(1, "a".into(), 1).unwrap(); }) as Body<()>, Box::new(move || { i2.insert(2, "a".into(), 1).unwrap(); })], ExecConfig::default());
        steps += r.trace.len();
    }
    println!("run_threads with inserts: {:.3} ms, {} steps each", t0.elapsed().as_secs_f64() * 1000.0 / n as f64, steps / n);
    let t0 = Instant::now();
    for _ in 0..n {
        let mut ch = Chooser::new(vec![]);
        let body = || { for _ in 0..8 { anda_db_utils::verif::point("x"); } };
        let r = run_threads(&mut ch, vec![Box::new(body) as Body<()>, Box::new(body)], ExecConfig::default());
        steps += r.trace.len();
    }
    println!("run_threads with bare points: {:.3} ms", t0.elapsed().as_secs_f64() * 1000.0 / n as f64);
}

//! Self-test of the THREAD engine (`vcore::thread`): toy lost update found at
//! preemption bound 1 and absent at bound 0, visible waits, deadlock report,
//! panic capture, tear-down. Exit 0 = engine behaves, 2 = machinery error.
//! Also prints the raw execution rate of the engine.

use std::sync::atomic::{AtomicU64, Ordering};
use std::time::Instant;
use vcore::choice::Chooser;
use vcore::thread::{ExecConfig, run_threads};

fn main() {
    vcore::thread::quiet_worker_panics();
    if std::env::args().any(|a| a == "--watchdog-test") {
        // A worker that blocks outside the engine must end the process with
        // exit code 2 (machinery), never hang: run with VERIF_THREAD_WATCHDOG_S=1.
        let mut ch = Chooser::new(vec![]);
        let _ = run_threads(
            &mut ch,
            vec![
                Box::new(|| std::thread::sleep(std::time::Duration::from_secs(3600))) as vcore::thread::Body<()>,
                Box::new(|| anda_db_utils::verif::point("x")),
            ],
            ExecConfig::default(),
        );
        unreachable!("watchdog did not fire");
    }
    if let Err(e) = vcore::thread::selftest() {
        vcore::report::machinery(&format!("THREAD selftest failed: {e}"));
    }
    // Rate: 3 threads x 10 points, default schedule.
    let t0 = Instant::now();
    let n = 2000;
    for _ in 0..n {
        let cell = AtomicU64::new(0);
        let body = || {
            for _ in 0..10 {
                anda_db_utils::verif::point("rate");
                cell.fetch_add(1, Ordering::SeqCst);
            }
        };
        let mut ch = Chooser::new(vec![]);
        let r = run_threads(&mut ch, vec![Box::new(body), Box::new(body), Box::new(body)], ExecConfig::default());
        assert_eq!(r.trace.len(), 33);
    }
    let dt = t0.elapsed().as_secs_f64();
    println!("THREAD selftest ok; {n} executions (3 threads x 10 points) in {dt:.2}s = {:.0}/s on one explorer thread", n as f64 / dt);
}

//! C11 / thread part: every interleaving, at the instrumented yield points
//! (before each lock acquisition / bucket-id allocation of the mutators and of
//! `compact_buckets`), of 2..3 threads x 1..2 operations from {insert(id,
//! text), remove(id, text), purge_ids, compact_buckets} on a
//! `BM25Index<TokenizerChain>` (default tokenizer, `bucket_overload_size =
//! 64`) with shared tokens / shared buckets, up to a preemption bound.
//! Oracle per execution: return values + final observation (id set of every
//! vocabulary term via `search`, document count, total token count behind
//! `avg_doc_tokens`) equal those of some sequential order on a naive inverted
//! index; result lists ordered by (score desc, id asc) with finite scores >= 0
//! and repeatable; the same observation after flush + load and after compact
//! + flush + load; no deadlock, no panic.

use vcore::Run;
use vthread::bm25_case::{Built, Op, Spec, build, templates, tokens_of};

// Terms of pairwise different length spaced by 4 bytes: the serialized size of
// a posting (term + up to four 3-byte entries) is then different for every
// term in every reachable state, so compaction (unstable sort by size over a
// randomly-hashed DashMap iteration) bins them the same way in every run.
// Size charged for a new one-entry posting = len + 10.
const A: &str = "qz"; // 12 bytes
const B: &str = "qzqzqz"; // 16
const C: &str = "qzqzqzqzqz"; // 20
const D: &str = "qzqzqzqzqzqzqz"; // 24
const E: &str = "qzqzqzqzqzqzqzqzqz"; // 28
const F: &str = "qzqzqzqzqzqzqzqzqzqzqz"; // 32
const AB: &str = "qz qzqzqz";
const BA: &str = "qzqzqz qz";
const AC: &str = "qz qzqzqzqzqz";

/// Four one-term documents: bucket 0 = {F, E} (60 of 64 bytes), bucket 1 =
/// {D, C} (44 bytes). One new 16-byte term still fits into bucket 1, the next
/// new term migrates to a fresh bucket.
fn full() -> Vec<(u64, &'static str)> {
    vec![(90, F), (91, E), (92, D), (93, C)]
}

// NOTE on orders the code takes from hash maps: with the `verif` feature one
// insert/remove walks the terms of its text in SORTED order, purge_ids
// processes emptied postings / stale buckets in sorted order and compaction
// sorts its input first (hooks in bm25.rs); without them std's per-thread
// random hasher seed would make schedules unreplayable. Only that one order
// is explored.
fn specs() -> Vec<Spec> {
    use Op::*;
    let s = |name, prefill: Vec<(u64, &'static str)>, prefill_flush, threads| Spec {
        name,
        prefill,
        prefill_flush,
        threads,
    };
    let mut full_ab = full();
    full_ab.push((1, A));
    vec![
        s("ins-ins-same-id", vec![], false, vec![vec![Insert(1, A)], vec![Insert(1, A)]]),
        s("ins-ins-same-term", vec![], false, vec![vec![Insert(1, A)], vec![Insert(2, A)]]),
        s("ins-rem-same-doc", vec![], false, vec![vec![Insert(1, A)], vec![Remove(1, A)]]),
        s("rem-ins-shared-term", vec![(1, A)], false, vec![vec![Remove(1, A)], vec![Insert(2, A)]]),
        s("rem-rem-same-doc", vec![(1, A), (2, A)], false, vec![vec![Remove(1, A)], vec![Remove(1, A)]]),
        s("new-new-full-bucket", full(), false, vec![vec![Insert(1, B)], vec![Insert(2, A)]]),
        // Last bucket nearly full (60 of 64 bytes): every new term spills into a
        // freshly allocated bucket while another writer may already use it.
        s("spill-vs-new-term", vec![(90, F), (91, E)], false, vec![vec![Insert(1, B)], vec![Insert(2, A)]]),
        s("two-term-spill-vs-new-term", vec![(90, F), (91, E)], false, vec![vec![Insert(1, AB)], vec![Insert(2, C)]]),
        s("spill-spill-spill-3", vec![(90, F), (91, E)], false, vec![vec![Insert(1, C)], vec![Insert(2, B)], vec![Insert(3, A)]]),
        s("ins-vs-compact", full(), false, vec![vec![Insert(1, B), Insert(2, A)], vec![Compact]]),
        s("rem-vs-compact", full(), false, vec![vec![Remove(90, F), Remove(93, C)], vec![Compact]]),
        s("ins-vs-compact-flushed", full(), true, vec![vec![Insert(1, B)], vec![Compact, Insert(2, B)]]),
        s("rem-vs-compact-flushed", full(), true, vec![vec![Remove(90, F)], vec![Compact, Remove(93, C)]]),
        s("ins-rem-compact-3", full(), false, vec![vec![Insert(1, B)], vec![Remove(90, F)], vec![Compact]]),
        s("purge-vs-ins-shared-term", vec![(1, A), (2, A)], false, vec![vec![Purge(vec![1, 2])], vec![Insert(3, A)]]),
        s("purge-vs-rem", vec![(1, A), (2, A), (3, B)], false, vec![vec![Purge(vec![1, 2])], vec![Remove(1, A), Remove(3, B)]]),
        s("purge-vs-ins-same-id", vec![], false, vec![vec![Purge(vec![1])], vec![Insert(1, A)]]),
        s("purge-vs-compact", full_ab.clone(), false, vec![vec![Purge(vec![1])], vec![Compact], vec![Insert(2, A)]]),
        s("two-term-docs-crossed", vec![], false, vec![vec![Insert(1, AB)], vec![Insert(2, BA)]]),
        s("two-term-doc-vs-rem", vec![(2, A)], false, vec![vec![Insert(1, AB)], vec![Remove(2, A)]]),
        s("two-term-rem-vs-ins", vec![(1, AB)], false, vec![vec![Remove(1, AB)], vec![Insert(2, AC)]]),
        s("two-term-rem-vs-two-term-rem", vec![(1, AB), (2, BA)], false, vec![vec![Remove(1, AB)], vec![Remove(2, BA), Insert(3, B)]]),
        s("purge-two-postings-vs-ins", vec![(1, A), (2, B)], false, vec![vec![Purge(vec![1, 2])], vec![Insert(3, AB)]]),
        s("two-term-docs-shared-term-3", vec![], false, vec![vec![Insert(1, AB)], vec![Insert(2, AC)], vec![Insert(3, A)]]),
        s("ins-rem-twice", vec![], false, vec![vec![Insert(1, A), Remove(1, A)], vec![Insert(2, A), Remove(2, A)]]),
        s("three-writers-one-term", vec![(3, A)], false, vec![vec![Insert(1, A)], vec![Insert(2, A)], vec![Remove(3, A)]]),
        s("ins-vs-rem-reinsert-same-id", vec![], false, vec![vec![Insert(1, A)], vec![Remove(1, A), Insert(1, B)]]),
    ]
}

fn main() {
    let mut run = Run::from_args("C11", "thread", "model_checking");
    vthread::engine_ready();
    for term in [A, B, C, D, E, F] {
        let toks = tokens_of(term);
        if toks.len() != 1 || toks.get(term) != Some(&1) {
            vcore::report::machinery(&format!("vocabulary term {term:?} is not a fixed point of the default tokenizer: {toks:?}"));
        }
    }
    let built: Vec<Built> = specs().into_iter().map(build).collect();
    let ts = templates(&built);
    if run.replay_file.is_some() {
        vthread::replay(run, &ts);
    }
    run.rule(
        "THREAD engine: real OS threads, one runs at a time, yield points before every lock acquisition / bucket-id \
         allocation of BM25Index::{insert,remove,purge_ids,compact_buckets}; for every op-set template (fixed prefill + \
         2..3 threads x 1..2 ops on shared terms / shared buckets, bucket_overload_size=64) ALL schedules with at most N \
         preemptions (stateless DFS, iterative context bounding); every execution runs on the real index and is compared \
         with the set of outcomes reachable by some sequential order of the operations on a naive inverted index; \
         distinct = distinct (template, return values, final observation)",
    );
    run.assume("weak-memory reorderings of Relaxed atomics are not modelled; the commutative counter updates (total_tokens, max_document_id) have no yield point of their own");
    run.assume("yield points sit only where the thread holds no DashMap shard guard and no metadata lock; a whole-map DashMap iteration (postings.iter_mut in purge_ids, postings.iter in compact_buckets, buckets.iter) is one atomic section although it really locks shard by shard");
    run.assume("multi-term texts: insert/remove walk the terms of one text in sorted order (verif hook replacing the randomly seeded std HashMap order); other term orders are not enumerated. Same for the order in which purge_ids handles emptied postings and compaction bins equal-sized postings");
    run.assume("flush is not run concurrently with mutations (caller's contract)");
    vthread::run_tiers(&mut run, &ts, 3, 3, 7);
    run.finish();
}

//! C04 / thread part (index level only): 2..3 threads contending for one
//! value of a UNIQUE `BTreeIndex<u64, String>` with insert(v) /
//! insert_array([v, w]) / remove(v) / the update pattern insert(new) then
//! remove(old), every interleaving at the instrumented yield points up to a
//! preemption bound. Oracle: at every scheduling step (all workers parked) no
//! value has two owners; return values + final contents equal some
//! sequential order; exactly one of the contenders for a free value wins;
//! the same contents after flush + load; no deadlock, no panic.

use vcore::Run;
use vthread::btree_case::{Built, Op, Spec, build, templates};

// Distinct key lengths spaced by 3 (see c10_thread.rs): compaction bins
// deterministically.
const V: &str = "v"; // 10 bytes
const W: &str = "wwww"; // 13
const X: &str = "xxxxxxx"; // 16
const E: &str = "eeeeeeeeeeeee"; // 22
const F: &str = "ffffffffffffffff"; // 25
const G: &str = "ggggggggggggggggggg"; // 28
const H: &str = "hhhhhhhhhhhhhhhhhhhhhh"; // 31

/// bucket 0 = {H, G} (59 of 64 bytes), bucket 1 = {F, E} (47 bytes).
fn full() -> Vec<(u64, &'static str)> {
    vec![(9, H), (8, G), (7, F), (6, E)]
}

fn specs() -> Vec<Spec> {
    use Op::*;
    let s = |name, prefill: Vec<(u64, &'static str)>, threads, one_winner| Spec {
        name,
        unique: true,
        prefill,
        prefill_flush: false,
        threads,
        one_winner,
    };
    let mut held = full();
    held.push((1, V));
    vec![
        s("two-contenders-free-value", vec![], vec![vec![Insert(1, V)], vec![Insert(2, V)]], Some(V)),
        s("three-contenders-free-value", vec![], vec![vec![Insert(1, V)], vec![Insert(2, V)], vec![Insert(3, V)]], Some(V)),
        s("two-contenders-full-bucket", full(), vec![vec![Insert(1, X)], vec![Insert(2, X)]], Some(X)),
        s("two-contenders-vs-compact", full(), vec![vec![Insert(1, X)], vec![Insert(2, X)], vec![Compact]], Some(X)),
        s("insarr-contenders-vs-compact", full(), vec![vec![InsertArray(1, vec![X, W])], vec![Insert(2, X)], vec![Compact]], None),
        s("two-contenders-both-spill", vec![(9, H), (8, G)], vec![vec![Insert(1, X)], vec![Insert(2, X), Insert(2, W)]], None),
        s("owner-reinsert-vs-contender", vec![(1, V)], vec![vec![Insert(1, V)], vec![Insert(2, V)]], None),
        s("release-vs-contender", vec![(1, V)], vec![vec![Remove(1, V)], vec![Insert(2, V)]], None),
        s("release-vs-contender-full-bucket", full(), vec![vec![Remove(9, H)], vec![Insert(2, H), Insert(2, X)]], None),
        s("release-vs-contender-vs-compact", full(), vec![vec![Remove(9, H)], vec![Insert(2, H)], vec![Compact]], None),
        s("release-vs-two-contenders", vec![(1, V)], vec![vec![Remove(1, V)], vec![Insert(2, V)], vec![Insert(3, V)]], None),
        s("owner-remove-vs-owner-reinsert", vec![(1, V)], vec![vec![Remove(1, V)], vec![Insert(1, V)]], None),
        s("remove-then-reinsert-vs-contender", vec![(1, V)], vec![vec![Remove(1, V), Insert(1, V)], vec![Insert(2, V)]], None),
        s("update-pattern-vs-contender-for-new", vec![(1, V)], vec![vec![Insert(1, W), Remove(1, V)], vec![Insert(2, W)]], None),
        s("update-pattern-vs-contender-for-old", held.clone(), vec![vec![Insert(1, W), Remove(1, V)], vec![Insert(2, V)]], None),
        s("swap-values", vec![(1, V), (2, W)], vec![vec![Remove(1, V), Insert(1, W)], vec![Remove(2, W), Insert(2, V)]], None),
        s("insarr-vs-insert-second", vec![], vec![vec![InsertArray(1, vec![V, W])], vec![Insert(2, W)]], None),
        s("insarr-vs-insarr-crossed", vec![], vec![vec![InsertArray(1, vec![V, W])], vec![InsertArray(2, vec![W, V])]], None),
        s("insarr-vs-release", vec![(2, W)], vec![vec![InsertArray(1, vec![V, W])], vec![Remove(2, W)]], None),
        s("remarr-vs-insarr", vec![(1, V), (1, W)], vec![vec![RemoveArray(1, vec![V, W])], vec![InsertArray(2, vec![V, W])]], None),
        s("batch-update-vs-contender", vec![(1, V)], vec![vec![BatchUpdate(1, vec![V], vec![W])], vec![Insert(2, W), Insert(2, V)]], None),
    ]
}

fn main() {
    let mut run = Run::from_args("C04", "thread", "model_checking");
    vthread::engine_ready();
    let built: Vec<Built> = specs().into_iter().map(build).collect();
    let ts = templates(&built, true);
    if run.replay_file.is_some() {
        vthread::replay(run, &ts);
    }
    run.rule(
        "THREAD engine on a UNIQUE BTreeIndex<u64,String> (allow_duplicates=false, bucket_overload_size=64): for every \
         contention template (2..3 threads doing insert(v) / insert_array([v,w]) / remove(v) / insert(new)+remove(old) on \
         the same values) ALL schedules at the yield points before every lock acquisition with at most N preemptions; at \
         every scheduling step no value has two owners; return values + final contents equal some sequential order of \
         per-key atomic steps on a BTreeMap model (so exactly one contender for a free value wins and a released value \
         becomes insertable); same contents after flush+load; distinct = distinct (template, returns, contents)",
    );
    run.assume("index level only: the Collection-level rollback of a rejected multi-index write is covered by the other C04 parts");
    run.assume("a uniqueness conflict that appears mid-loop in insert_array leaves the keys processed before it applied (documented behaviour of the index; the model does the same)");
    run.assume("weak-memory reorderings of Relaxed atomics are not modelled; yield points only where no DashMap shard guard / btree / metadata lock is held");
    vthread::run_tiers(&mut run, &ts, 3, 3, 7);
    run.finish();
}

//! B-tree op language, plain reference model and per-execution oracle for
//! the thread parts of C10 (non-unique / unique `BTreeIndex<u64, String>`)
//! and C04 (unique index).
//!
//! Reference model: `BTreeMap<String, BTreeSet<u64>>`. The unit of
//! linearization is one `(id, key)` association: `insert` / `remove` are one
//! atomic step; the batch calls are a sequence of per-key atomic steps in
//! argument order (that is what the crate documents: a uniqueness conflict
//! that appears mid-loop leaves the keys processed before it applied and
//! returns the error; on a unique index `insert_array` first runs a per-key
//! pre-check that rejects with nothing applied). `compact_buckets` is one
//! step that changes no contents. The set of allowed outcomes of a template =
//! every (return values, final contents) reachable by some interleaving of
//! those steps that respects each thread's program order, brute-forced once
//! per template on the model.

use crate::{Case, Template};
use anda_db_btree::{BTreeConfig, BTreeError, BTreeIndex, BucketObject, RangeQuery};
use serde_json::json;
use std::collections::{BTreeMap, BTreeSet, HashMap, HashSet};
use std::sync::Arc;
use vcore::choice::Chooser;
use vcore::thread::{Body, ExecConfig, ExecEnd};

pub type Index = BTreeIndex<u64, String>;
pub type Model = BTreeMap<String, BTreeSet<u64>>;

#[derive(Clone, Debug, PartialEq, Eq)]
pub enum Op {
    Insert(u64, &'static str),
    Remove(u64, &'static str),
    InsertArray(u64, Vec<&'static str>),
    RemoveArray(u64, Vec<&'static str>),
    /// `batch_update(id, old, new)`; at most one key to insert and one to
    /// remove (the crate iterates a hash-set difference, so a longer list has
    /// no defined order to model).
    BatchUpdate(u64, Vec<&'static str>, Vec<&'static str>),
    Compact,
}

#[derive(Clone, Debug, PartialEq, Eq, Hash, PartialOrd, Ord)]
pub enum Ret {
    Bool(bool),
    Count(usize),
    Pair(usize, usize),
    /// `Err(BTreeError::AlreadyExists)`
    Conflict,
    Unit,
    OtherErr(String),
}

fn show_op(op: &Op) -> String {
    match op {
        Op::Insert(id, k) => format!("insert({id},{k})"),
        Op::Remove(id, k) => format!("remove({id},{k})"),
        Op::InsertArray(id, ks) => format!("insert_array({id},{ks:?})"),
        Op::RemoveArray(id, ks) => format!("remove_array({id},{ks:?})"),
        Op::BatchUpdate(id, o, n) => format!("batch_update({id},old={o:?},new={n:?})"),
        Op::Compact => "compact_buckets()".to_string(),
    }
}

// ---------------------------------------------------------------- model

fn m_insert(m: &mut Model, unique: bool, id: u64, k: &str) -> Result<bool, ()> {
    if unique
        && let Some(s) = m.get(k)
        && !s.is_empty()
        && !s.contains(&id)
    {
        return Err(());
    }
    Ok(m.entry(k.to_string()).or_default().insert(id))
}

fn m_remove(m: &mut Model, id: u64, k: &str) -> bool {
    let mut removed = false;
    if let Some(s) = m.get_mut(k) {
        removed = s.remove(&id);
        if s.is_empty() {
            m.remove(k);
        }
    }
    removed
}

fn m_conflicts(m: &Model, id: u64, k: &str) -> bool {
    m.get(k).map(|s| !s.is_empty() && !s.contains(&id)).unwrap_or(false)
}

/// One micro-step of `op` at program counter `pc` with accumulator `acc`.
/// Returns `Some(ret)` when the op completes with this step.
fn m_step(m: &mut Model, unique: bool, op: &Op, pc: &mut usize, acc: &mut (usize, usize)) -> Option<Ret> {
    let here = *pc;
    *pc += 1;
    match op {
        Op::Insert(id, k) => Some(match m_insert(m, unique, *id, k) {
            Ok(b) => Ret::Bool(b),
            Err(()) => Ret::Conflict,
        }),
        Op::Remove(id, k) => Some(Ret::Bool(m_remove(m, *id, k))),
        Op::Compact => Some(Ret::Unit),
        Op::InsertArray(id, ks) => {
            if ks.is_empty() {
                return Some(Ret::Count(0));
            }
            let n = ks.len();
            let pre = if unique { n } else { 0 };
            if here < pre {
                if m_conflicts(m, *id, ks[here]) {
                    return Some(Ret::Conflict);
                }
                return None;
            }
            let i = here - pre;
            match m_insert(m, unique, *id, ks[i]) {
                Ok(true) => acc.0 += 1,
                Ok(false) => {}
                Err(()) => return Some(Ret::Conflict),
            }
            (i + 1 == n).then_some(Ret::Count(acc.0))
        }
        Op::RemoveArray(id, ks) => {
            if ks.is_empty() {
                return Some(Ret::Count(0));
            }
            if m_remove(m, *id, ks[here]) {
                acc.0 += 1;
            }
            (here + 1 == ks.len()).then_some(Ret::Count(acc.0))
        }
        Op::BatchUpdate(id, old, new) => {
            let ins: Vec<&str> = new.iter().filter(|k| !old.contains(k)).copied().collect();
            let rem: Vec<&str> = old.iter().filter(|k| !new.contains(k)).copied().collect();
            assert!(ins.len() <= 1 && rem.len() <= 1, "BatchUpdate template: at most one key each way");
            // steps: [precheck ins (unique only)] [insert ins] [remove rem]
            let mut plan: Vec<(u8, &str)> = Vec::new();
            for k in &ins {
                if unique {
                    plan.push((0, k));
                }
                plan.push((1, k));
            }
            for k in &rem {
                plan.push((2, k));
            }
            if plan.is_empty() {
                return Some(Ret::Pair(0, 0));
            }
            let (kind, k) = plan[here];
            match kind {
                0 => {
                    if m_conflicts(m, *id, k) {
                        return Some(Ret::Conflict);
                    }
                }
                1 => match m_insert(m, unique, *id, k) {
                    Ok(true) => acc.1 += 1,
                    Ok(false) => {}
                    Err(()) => return Some(Ret::Conflict),
                },
                _ => {
                    if m_remove(m, *id, k) {
                        acc.0 += 1;
                    }
                }
            }
            (here + 1 == plan.len()).then_some(Ret::Pair(acc.0, acc.1))
        }
    }
}

#[derive(Clone, PartialEq, Eq, Hash)]
struct MState {
    model: Model,
    /// per thread: (op index, pc inside the op, accumulator)
    pos: Vec<(usize, usize, (usize, usize))>,
    rets: Vec<Vec<Ret>>,
}

pub fn render_outcome(rets: &[Vec<Ret>], contents: &Model) -> String {
    format!("returns={rets:?} contents={contents:?}")
}

/// All (returns, final contents) reachable by interleaving the micro-steps.
pub fn allowed_outcomes(initial: &Model, unique: bool, threads: &[Vec<Op>]) -> HashSet<String> {
    let mut out = HashSet::new();
    let mut seen: HashSet<MState> = HashSet::new();
    let start = MState {
        model: initial.clone(),
        pos: threads.iter().map(|_| (0, 0, (0, 0))).collect(),
        rets: threads.iter().map(|_| Vec::new()).collect(),
    };
    let mut stack = vec![start];
    while let Some(s) = stack.pop() {
        if !seen.insert(s.clone()) {
            continue;
        }
        let mut any = false;
        for t in 0..threads.len() {
            let (oi, _, _) = s.pos[t];
            if oi >= threads[t].len() {
                continue;
            }
            any = true;
            let mut n = s.clone();
            let (oi, mut pc, mut acc) = n.pos[t];
            match m_step(&mut n.model, unique, &threads[t][oi], &mut pc, &mut acc) {
                Some(r) => {
                    n.rets[t].push(r);
                    n.pos[t] = (oi + 1, 0, (0, 0));
                }
                None => n.pos[t] = (oi, pc, acc),
            }
            stack.push(n);
        }
        if !any {
            out.insert(render_outcome(&s.rets, &s.model));
        }
    }
    out
}

// ---------------------------------------------------------------- real index

fn ret_of_err(e: BTreeError) -> Ret {
    match e {
        BTreeError::AlreadyExists { .. } => Ret::Conflict,
        other => Ret::OtherErr(format!("{other:?}")),
    }
}

pub fn apply(idx: &Index, op: &Op) -> Ret {
    let s = |k: &&'static str| k.to_string();
    match op {
        Op::Insert(id, k) => match idx.insert(*id, k.to_string(), 1) {
            Ok(b) => Ret::Bool(b),
            Err(e) => ret_of_err(e),
        },
        Op::Remove(id, k) => Ret::Bool(idx.remove(*id, k.to_string(), 1)),
        Op::InsertArray(id, ks) => match idx.insert_array(*id, ks.iter().map(s).collect(), 1) {
            Ok(n) => Ret::Count(n),
            Err(e) => ret_of_err(e),
        },
        Op::RemoveArray(id, ks) => Ret::Count(idx.remove_array(*id, ks.iter().map(s).collect(), 1)),
        Op::BatchUpdate(id, old, new) => {
            match idx.batch_update(*id, old.iter().map(s).collect(), new.iter().map(s).collect(), 1) {
                Ok((r, i)) => Ret::Pair(r, i),
                Err(e) => ret_of_err(e),
            }
        }
        Op::Compact => {
            idx.compact_buckets();
            Ret::Unit
        }
    }
}

/// Full observation of an index through its public query API. `Err` when the
/// different query paths disagree with each other (phantom key, duplicate id).
pub fn observe(idx: &Index, universe: &BTreeSet<String>) -> Result<Model, String> {
    let mut point: Model = BTreeMap::new();
    for k in universe {
        if let Some(ids) = idx.query_with(k, |ids| Some(ids.clone())) {
            let set: BTreeSet<u64> = ids.iter().copied().collect();
            if set.len() != ids.len() {
                return Err(format!("duplicate id in posting of {k:?}: {ids:?}"));
            }
            if set.is_empty() {
                return Err(format!("empty posting left behind for {k:?}"));
            }
            point.insert(k.clone(), set);
        }
    }
    let listed: BTreeSet<String> = idx.keys(None, None).into_iter().collect();
    let point_keys: BTreeSet<String> = point.keys().cloned().collect();
    if listed != point_keys {
        return Err(format!(
            "keys() lists {listed:?} but point queries find postings for {point_keys:?}"
        ));
    }
    let mut scan: Model = BTreeMap::new();
    for (k, ids) in idx.range_query_with(RangeQuery::Ge(String::new()), |k, ids| {
        (true, vec![(k.clone(), ids.clone())])
    }) {
        scan.insert(k, ids.into_iter().collect());
    }
    if scan != point {
        return Err(format!("range scan {scan:?} differs from point queries {point:?}"));
    }
    if idx.len() != point.len() {
        return Err(format!("len() = {} but {} keys have postings", idx.len(), point.len()));
    }
    Ok(point)
}

#[derive(Default)]
pub struct MemStore {
    pub metadata: Vec<u8>,
    pub buckets: HashMap<BucketObject, Vec<u8>>,
}

pub fn flush_to(idx: &Index, store: &mut MemStore, now_ms: u64) -> Result<(), String> {
    let mut meta_buf: Vec<u8> = Vec::new();
    let buckets = &mut store.buckets;
    let outcome = vcore::util::block_on(idx.flush_owned_with(
        now_ms,
        |data| {
            meta_buf = data;
            std::future::ready(Ok(()))
        },
        |object, data| {
            buckets.insert(object, data);
            std::future::ready(Ok(()))
        },
    ))
    .map_err(|e| format!("flush failed: {e:?}"))?;
    if outcome.saved {
        store.metadata = meta_buf;
        for object in &outcome.obsolete {
            store.buckets.remove(object);
        }
    }
    Ok(())
}

pub fn load_from(store: &MemStore) -> Result<Index, String> {
    vcore::util::block_on(Index::load_all(&store.metadata[..], async |object| {
        Ok(store.buckets.get(&object).cloned())
    }))
    .map_err(|e| format!("load_all failed: {e:?}"))
}

// ---------------------------------------------------------------- template

#[derive(Clone, Debug)]
pub struct Spec {
    pub name: &'static str,
    pub unique: bool,
    /// Associations inserted sequentially before the threads start.
    pub prefill: Vec<(u64, &'static str)>,
    /// Compact + flush once after the prefill (clean, committed buckets).
    pub prefill_flush: bool,
    pub threads: Vec<Vec<Op>>,
    /// Explicit C04 check on top of the linearizability oracle: the value is
    /// free initially and every thread tries `insert(_, value)` with its own
    /// id; exactly one of them must return `Ok(true)`, the others `Conflict`.
    pub one_winner: Option<&'static str>,
}

pub struct Built {
    pub spec: Spec,
    pub initial: Model,
    pub universe: BTreeSet<String>,
    pub allowed: HashSet<String>,
}

fn op_keys(op: &Op) -> Vec<&'static str> {
    match op {
        Op::Insert(_, k) | Op::Remove(_, k) => vec![k],
        Op::InsertArray(_, ks) | Op::RemoveArray(_, ks) => ks.clone(),
        Op::BatchUpdate(_, o, n) => o.iter().chain(n.iter()).copied().collect(),
        Op::Compact => vec![],
    }
}

pub fn build(spec: Spec) -> Built {
    let mut initial: Model = BTreeMap::new();
    for (id, k) in &spec.prefill {
        m_insert(&mut initial, spec.unique, *id, k).expect("prefill must not conflict");
    }
    let mut universe: BTreeSet<String> = initial.keys().cloned().collect();
    for t in &spec.threads {
        for op in t {
            for k in op_keys(op) {
                universe.insert(k.to_string());
            }
        }
    }
    let allowed = allowed_outcomes(&initial, spec.unique, &spec.threads);
    Built {
        spec,
        initial,
        universe,
        allowed,
    }
}

pub fn fresh_index(b: &Built) -> Result<(Index, MemStore), String> {
    let idx = Index::new(
        "t".to_string(),
        Some(BTreeConfig {
            bucket_overload_size: 64,
            allow_duplicates: !b.spec.unique,
        }),
    );
    let mut store = MemStore::default();
    for (id, k) in &b.spec.prefill {
        idx.insert(*id, k.to_string(), 1)
            .map_err(|e| format!("prefill insert failed: {e:?}"))?;
    }
    if b.spec.prefill_flush {
        flush_to(&idx, &mut store, 1)?;
    }
    Ok((idx, store))
}

/// Runs one execution of the template and applies the oracle.
/// `moment_check`: evaluated by the controller at every scheduling step while
/// all workers are parked (C04: at most one owner per value at any moment).
pub fn exec_once(b: &Built, ch: &mut Chooser, unique_at_every_step: bool) -> Case {
    let (idx, mut store) = match fresh_index(b) {
        Ok(v) => v,
        Err(e) => vcore::report::machinery(&format!("template {}: {e}", b.spec.name)),
    };
    let idx = Arc::new(idx);
    let bodies: Vec<Body<Vec<Ret>>> = b
        .spec
        .threads
        .iter()
        .map(|ops| {
            let idx = idx.clone();
            Box::new(move || ops.iter().map(|op| apply(&idx, op)).collect::<Vec<Ret>>()) as Body<Vec<Ret>>
        })
        .collect();
    let mut moment_fail: Option<String> = None;
    let r = {
        let idx2 = idx.clone();
        let universe = &b.universe;
        let mut observer = |trace: &[(u8, &'static str)]| {
            if !unique_at_every_step || moment_fail.is_some() {
                return;
            }
            for k in universe {
                let owners = idx2.query_with(k, |ids| Some(ids.clone())).unwrap_or_default();
                if owners.len() > 1 {
                    moment_fail = Some(format!(
                        "value {k:?} has {} owners {owners:?} after step {} of the schedule",
                        owners.len(),
                        trace.len()
                    ));
                }
            }
        };
        vcore::thread::run_threads_observed(ch, bodies, ExecConfig::default(), &mut observer)
    };
    let mut case = Case::from_exec(&r);
    if r.end != ExecEnd::AllDone {
        return case;
    }
    if let Some(m) = moment_fail {
        case.fail = Some(("two-owners-at-some-moment".into(), m));
        return case;
    }
    let rets: Vec<Vec<Ret>> = r.outputs.into_iter().map(|o| o.unwrap_or_default()).collect();
    for (t, rs) in rets.iter().enumerate() {
        if let Some(Ret::OtherErr(e)) = rs.iter().find(|r| matches!(r, Ret::OtherErr(_))) {
            case.fail = Some(("unexpected-error".into(), format!("thread {t} got {e}")));
            return case;
        }
    }
    let live = match observe(&idx, &b.universe) {
        Ok(m) => m,
        Err(e) => {
            case.outcome = format!("returns={rets:?} contents=<inconsistent>");
            case.fail = Some(("inconsistent-queries".into(), e));
            return case;
        }
    };
    case.outcome = render_outcome(&rets, &live);
    if !b.allowed.contains(&case.outcome) {
        case.fail = Some((
            // The outcome itself is part of the signature: for a fixed
            // template it is a shape, not a volatile value.
            format!("not-linearizable[{}]", case.outcome.replace(['"', ' '], "")),
            format!(
                "no sequential order of the operations gives {} (initial {:?}; {} allowed outcomes)",
                case.outcome,
                b.initial,
                b.allowed.len()
            ),
        ));
        return case;
    }
    if let Some(v) = b.spec.one_winner {
        let mut winners = 0;
        let mut losers = 0;
        let mut contenders = 0;
        for (ops, rs) in b.spec.threads.iter().zip(&rets) {
            for (op, r) in ops.iter().zip(rs) {
                if matches!(op, Op::Insert(_, k) if *k == v) {
                    contenders += 1;
                    match r {
                        Ret::Bool(true) => winners += 1,
                        Ret::Conflict => losers += 1,
                        _ => {}
                    }
                }
            }
        }
        if winners != 1 || winners + losers != contenders {
            case.fail = Some((
                "not-exactly-one-winner".into(),
                format!("{contenders} contenders for free unique value {v:?}: {winners} succeeded, {losers} were rejected; returns {rets:?}"),
            ));
            return case;
        }
    }
    if b.spec.unique && live.values().any(|s| s.len() > 1) {
        case.fail = Some(("two-owners".into(), format!("unique index ends with {live:?}")));
        return case;
    }
    // Durable view: flush + load must give the same contents (a posting that
    // ended up in no bucket is only lost here).
    let reloaded = flush_to(&idx, &mut store, 2).and_then(|_| load_from(&store));
    match reloaded.and_then(|l| observe(&l, &b.universe)) {
        Ok(m) if m == live => {}
        Ok(m) => {
            case.fail = Some((
                "lost-or-resurrected-after-flush-load".into(),
                format!("in memory {live:?} but flush+load gives {m:?}"),
            ));
            return case;
        }
        Err(e) => {
            case.fail = Some(("flush-load-failed".into(), e));
            return case;
        }
    }
    // And once more after a quiescent compaction (repacks every posting).
    idx.compact_buckets();
    let reloaded = flush_to(&idx, &mut store, 3).and_then(|_| load_from(&store));
    match reloaded.and_then(|l| observe(&l, &b.universe)) {
        Ok(m) if m == live => {}
        Ok(m) => {
            case.fail = Some((
                "lost-after-compact-flush-load".into(),
                format!("in memory {live:?} but compact+flush+load gives {m:?}"),
            ));
        }
        Err(e) => {
            case.fail = Some(("flush-load-failed".into(), e));
        }
    }
    case
}

pub fn describe(spec: &Spec) -> serde_json::Value {
    json!({
        "unique": spec.unique,
        "bucket_overload_size": 64,
        "prefill": spec.prefill.iter().map(|(id, k)| format!("{id}->{k}")).collect::<Vec<_>>(),
        "prefill_flushed": spec.prefill_flush,
        "exactly_one_winner_for": spec.one_winner,
        "threads": spec.threads.iter().map(|t| t.iter().map(show_op).collect::<Vec<_>>()).collect::<Vec<_>>(),
    })
}

pub fn templates<'a>(built: &'a [Built], unique_at_every_step: bool) -> Vec<Template<'a>> {
    built
        .iter()
        .map(|b| Template {
            name: b.spec.name.to_string(),
            describe: describe(&b.spec),
            exec: Box::new(move |ch: &mut Chooser| exec_once(b, ch, unique_at_every_step)),
        })
        .collect()
}

//! A backend that can show the content it had at an earlier moment: the
//! device that produces a wrapper instance whose metadata cache LAGS behind
//! the backend (warm on commit N of a key while the backend holds N+1 and the
//! payload generation of N is gone), as a second process over the same
//! bucket would be after another process overwrote the key.

use async_trait::async_trait;
use bytes::Bytes;
use futures::stream::BoxStream;
use object_store::{memory::InMemory, path::Path, *};
use std::sync::Arc;
use std::sync::atomic::{AtomicBool, Ordering};

/// Delegates every call to `before` (a fork of the backend taken at an
/// earlier moment) while `show_before` is set, to the live backend `now`
/// otherwise. Used read-only.
#[derive(Debug)]
pub struct Then {
    before: Arc<InMemory>,
    now: Arc<InMemory>,
    show_before: AtomicBool,
}

impl Then {
    pub fn new(before: Arc<InMemory>, now: Arc<InMemory>) -> Arc<Then> {
        Arc::new(Then { before, now, show_before: AtomicBool::new(false) })
    }
    pub fn show_before(&self, on: bool) {
        self.show_before.store(on, Ordering::SeqCst);
    }
    fn cur(&self) -> &Arc<InMemory> {
        if self.show_before.load(Ordering::SeqCst) { &self.before } else { &self.now }
    }
}

impl std::fmt::Display for Then {
    fn fmt(&self, f: &mut std::fmt::Formatter<'_>) -> std::fmt::Result {
        write!(f, "Then({})", self.cur())
    }
}

#[async_trait]
impl ObjectStore for Then {
    async fn put_opts(&self, location: &Path, payload: PutPayload, opts: PutOptions) -> Result<PutResult> {
        self.cur().put_opts(location, payload, opts).await
    }
    async fn put_multipart_opts(&self, location: &Path, opts: PutMultipartOptions) -> Result<Box<dyn MultipartUpload>> {
        self.cur().put_multipart_opts(location, opts).await
    }
    async fn get_opts(&self, location: &Path, options: GetOptions) -> Result<GetResult> {
        self.cur().get_opts(location, options).await
    }
    async fn get_ranges(&self, location: &Path, ranges: &[std::ops::Range<u64>]) -> Result<Vec<Bytes>> {
        self.cur().get_ranges(location, ranges).await
    }
    fn delete_stream(&self, locations: BoxStream<'static, Result<Path>>) -> BoxStream<'static, Result<Path>> {
        self.cur().delete_stream(locations)
    }
    fn list(&self, prefix: Option<&Path>) -> BoxStream<'static, Result<ObjectMeta>> {
        self.cur().list(prefix)
    }
    fn list_with_offset(&self, prefix: Option<&Path>, offset: &Path) -> BoxStream<'static, Result<ObjectMeta>> {
        self.cur().list_with_offset(prefix, offset)
    }
    async fn list_with_delimiter(&self, prefix: Option<&Path>) -> Result<ListResult> {
        self.cur().list_with_delimiter(prefix).await
    }
    async fn copy_opts(&self, from: &Path, to: &Path, options: CopyOptions) -> Result<()> {
        self.cur().copy_opts(from, to, options).await
    }
    async fn rename_opts(&self, from: &Path, to: &Path, options: RenameOptions) -> Result<()> {
        self.cur().rename_opts(from, to, options).await
    }
}

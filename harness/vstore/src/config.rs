//! C09 / tamper — the property holds for the store the operator CONFIGURED,
//! whatever the order in which the builder's option methods were called.
//!
//! Every sequence without repetition (every subset, every permutation) of
//! the option methods of `EncryptedStoreBuilder`'s public API, from both
//! constructors, builds a store; a short battery that discriminates each
//! option is run on it and judged against the effective configuration the
//! harness computes itself from the documented meaning of the calls:
//!  * `with_chunk_size(n)`: the last call decides; observable in the stored
//!    layout (`c`, the number of tags, every chunk opens under the harness'
//!    own cipher with the chunk AAD of that size);
//!  * `with_strict_metadata_auth()`: once called, every read path (get,
//!    ranged get, get_ranges, head, the three listings, copy, rename) refuses
//!    unauthenticated documents: a genuine pre-authentication object (with
//!    and without a recorded chunk size) and a current object whose document
//!    was stripped down to the legacy look with its ciphertext relocated;
//!  * `with_conditional_put()`: deprecated no-op, Create / Update(token)
//!    semantics are always on;
//!  * `with_meta_cache(c)` / `with_meta_cache_ttl(t)`: the later of the two
//!    decides (documented); observable through the supplied cache handle.
//! Besides the absolute expectations the whole observation vector must equal
//! the one of the canonical call order of the same effective configuration.

use crate::fix::{SECRET, payload};
use crate::tamper::{chunk_nonce, decode, encode, get_field, harness_cipher, open_chunk_with, restore_raw};
use anda_object_store::EncryptedStoreBuilder;
use anda_object_store::encryption::Metadata;
use bytes::Bytes;
use cbor2::Value as Cbor;
use futures::TryStreamExt;
use moka::future::Cache;
use object_store::{
    GetOptions, GetRange, ObjectStore, ObjectStoreExt, PutMode, PutMultipartOptions, PutOptions, UpdateVersion, memory::InMemory,
    path::Path,
};
use serde::{Deserialize, Serialize};
use std::sync::Arc;
use std::time::Duration;
use vcore::ctlstore::{Content, snapshot};
use vcore::util::{block_on, fnv64};

/// One call of an option method of the builder.
#[derive(Clone, Copy, Debug, PartialEq, Eq, Hash, PartialOrd, Ord, Serialize, Deserialize)]
pub enum Opt {
    ChunkSize(u64),
    Strict,
    ConditionalPut,
    /// `with_meta_cache(<a cache the harness keeps a handle of>)`
    MetaCache,
    /// `with_meta_cache_ttl(0 s)`: nothing is ever served from the cache
    MetaCacheTtlZero,
    /// `with_meta_cache_ttl(1 h)` (the default value, set explicitly)
    MetaCacheTtlHour,
}

#[derive(Clone, Copy, Debug, PartialEq, Eq, Hash, PartialOrd, Ord, Serialize, Deserialize)]
pub enum Ctor {
    /// `EncryptedStoreBuilder::with_secret(store, capacity, secret)`
    WithSecret,
    /// `EncryptedStoreBuilder::new(store, capacity, cipher)`
    New,
}

/// The option calls enumerated: two different chunk sizes (so that "the last
/// call decides" is observable), and every other option method of the API.
pub fn tokens(thorough: bool) -> Vec<Opt> {
    let mut v = vec![Opt::ChunkSize(16), Opt::ChunkSize(7), Opt::Strict, Opt::ConditionalPut, Opt::MetaCache, Opt::MetaCacheTtlZero];
    if thorough {
        // 0 is normalised to 1 (documented)
        v.extend([Opt::ChunkSize(0), Opt::MetaCacheTtlHour]);
    }
    v
}

/// Every sequence without repetition over `tokens`: all subsets x all orders.
pub fn sequences(tokens: &[Opt]) -> Vec<Vec<Opt>> {
    fn rec(tokens: &[Opt], used: &mut Vec<bool>, cur: &mut Vec<Opt>, out: &mut Vec<Vec<Opt>>) {
        out.push(cur.clone());
        for i in 0..tokens.len() {
            if !used[i] {
                used[i] = true;
                cur.push(tokens[i]);
                rec(tokens, used, cur, out);
                cur.pop();
                used[i] = false;
            }
        }
    }
    let mut out = Vec::new();
    rec(tokens, &mut vec![false; tokens.len()], &mut Vec::new(), &mut out);
    out
}

#[derive(Clone, Copy, Debug, PartialEq, Eq, Hash, PartialOrd, Ord)]
pub enum CacheCfg {
    /// the built-in cache with the default time-to-live
    BuiltIn,
    BuiltInTtlZero,
    /// the cache handed to `with_meta_cache`
    Supplied,
}

/// What the operator configured, by the documented meaning of the calls.
#[derive(Clone, Copy, Debug, PartialEq, Eq, Hash, PartialOrd, Ord)]
pub struct Effective {
    pub cs: u64,
    pub strict: bool,
    pub cache: CacheCfg,
    pub conditional_put_called: bool,
}

pub const DEFAULT_CHUNK_SIZE: u64 = 256 * 1024;

pub fn effective(seq: &[Opt]) -> Effective {
    let mut e = Effective { cs: DEFAULT_CHUNK_SIZE, strict: false, cache: CacheCfg::BuiltIn, conditional_put_called: false };
    for o in seq {
        match o {
            Opt::ChunkSize(n) => e.cs = (*n).max(1),
            Opt::Strict => e.strict = true,
            Opt::ConditionalPut => e.conditional_put_called = true,
            Opt::MetaCache => e.cache = CacheCfg::Supplied,
            Opt::MetaCacheTtlZero => e.cache = CacheCfg::BuiltInTtlZero,
            Opt::MetaCacheTtlHour => e.cache = CacheCfg::BuiltIn,
        }
    }
    e
}

/// The canonical call order of an effective configuration (the order of the
/// crate's own examples: chunk size, cache, conditional put, strict last).
pub fn canonical(e: &Effective) -> Vec<Opt> {
    let mut v = Vec::new();
    if e.cs != DEFAULT_CHUNK_SIZE {
        v.push(Opt::ChunkSize(e.cs));
    }
    match e.cache {
        CacheCfg::BuiltIn => {}
        CacheCfg::BuiltInTtlZero => v.push(Opt::MetaCacheTtlZero),
        CacheCfg::Supplied => v.push(Opt::MetaCache),
    }
    if e.conditional_put_called {
        v.push(Opt::ConditionalPut);
    }
    if e.strict {
        v.push(Opt::Strict);
    }
    v
}

type MetaCache = Cache<Path, Arc<Metadata>>;

#[allow(deprecated)]
pub fn build_store(ctor: Ctor, seq: &[Opt], inner: Arc<InMemory>, supplied: &MetaCache) -> Arc<dyn ObjectStore> {
    let mut b = match ctor {
        Ctor::WithSecret => EncryptedStoreBuilder::with_secret(inner, 1000, SECRET),
        Ctor::New => EncryptedStoreBuilder::new(inner, 1000, Arc::new(harness_cipher())),
    };
    for o in seq {
        b = match o {
            Opt::ChunkSize(n) => b.with_chunk_size(*n),
            Opt::Strict => b.with_strict_metadata_auth(),
            Opt::ConditionalPut => b.with_conditional_put(),
            Opt::MetaCache => b.with_meta_cache(supplied.clone()),
            Opt::MetaCacheTtlZero => b.with_meta_cache_ttl(Duration::ZERO),
            Opt::MetaCacheTtlHour => b.with_meta_cache_ttl(Duration::from_secs(3600)),
        };
    }
    Arc::new(b.build())
}

/// The backend every configuration is tried on.
pub struct World {
    pub base: Content,
    /// key -> the bytes a read must answer (or fail)
    pub plain: std::collections::BTreeMap<&'static str, Bytes>,
    /// the second commit of `sw`: (objects to put, object to delete)
    pub sw_next: Vec<(String, Bytes)>,
    pub sw_old_gen: String,
}

/// Keys holding documents WITHOUT authentication fields.
pub const UNAUTHENTICATED: [&str; 3] = ["leg", "leg0", "str"];
const WORLD_CS: u64 = 16;

fn cbor_map(items: Vec<(&str, Cbor)>) -> Bytes {
    encode(&Cbor::Map(items.into_iter().map(|(k, v)| (Cbor::Text(k.into()), v)).collect()))
}

/// A pre-authentication object made by the harness from the documented
/// layout: ciphertext at `data/<key>` (chunk nonce n + index, EMPTY chunk
/// AAD), document without an / at / av / g / m, with or without `c`.
fn put_legacy(content: &mut Content, key: &str, plain: &[u8], record_chunk_size: bool, salt: u8) {
    use aes_gcm::{AeadInOut, Nonce};
    let cipher = harness_cipher();
    let base = [salt; 12];
    let mut ct = plain.to_vec();
    let mut tags = Vec::new();
    for (i, chunk) in ct.chunks_mut(WORLD_CS as usize).enumerate() {
        let tag = cipher
            .encrypt_inout_detached(&Nonce::from(chunk_nonce(&base, i as u64)), &[], chunk.into())
            .expect("encrypt legacy chunk");
        let tag: [u8; 16] = tag.into();
        tags.push(Cbor::Bytes(tag.to_vec()));
    }
    let mut doc = vec![
        ("s", Cbor::Integer((plain.len() as u64).into())),
        ("e", Cbor::Text(format!("legacy-etag-{salt}"))),
        ("o", Cbor::Text("0".into())),
        ("v", Cbor::Null),
        ("n", Cbor::Bytes(base.to_vec())),
        ("t", Cbor::Array(tags)),
    ];
    if record_chunk_size {
        doc.push(("c", Cbor::Integer(WORLD_CS.into())));
    }
    content.insert(format!("data/{key}"), Bytes::from(ct));
    content.insert(format!("meta/{key}"), cbor_map(doc));
}

pub fn build_world() -> World {
    anda_db_utils::verif::set_clock(Some((1_700_000_000_000, 1000)));
    let inner = Arc::new(InMemory::new());
    let store: Arc<dyn ObjectStore> =
        Arc::new(EncryptedStoreBuilder::with_secret(inner.clone(), 1000, SECRET).with_chunk_size(WORLD_CS).build());
    let mut plain = std::collections::BTreeMap::new();
    plain.insert("cur", payload(35, 1));
    plain.insert("str", payload(35, 2));
    plain.insert("sw", payload(9, 3));
    plain.insert("leg", payload(35, 5));
    plain.insert("leg0", payload(9, 6));
    let sw2 = payload(20, 4);
    let (base, s2) = block_on(async {
        for k in ["cur", "str", "sw"] {
            store.put(&Path::from(k), plain[k].clone().into()).await.expect("put");
        }
        let s1 = snapshot(&inner);
        store.put(&Path::from("sw"), sw2.clone().into()).await.expect("put sw again");
        (s1, snapshot(&inner))
    });
    let sw_old_gen = base.keys().find(|k| k.starts_with("gen/sw/")).expect("gen/sw").clone();
    let sw_next: Vec<(String, Bytes)> =
        s2.iter().filter(|(k, v)| (k.starts_with("gen/sw/") || *k == "meta/sw") && base.get(*k) != Some(v)).map(|(k, v)| (k.clone(), v.clone())).collect();
    assert_eq!(sw_next.len(), 2, "second commit of sw = one generation object + one document");
    let mut base = base;
    // `str`: a current object stripped down to the legacy look, its ciphertext relocated
    let doc = base["meta/str"].clone();
    let mut v = decode(&doc);
    if let Cbor::Map(m) = &mut v {
        m.retain(|(k, _)| !matches!(k, Cbor::Text(t) if crate::tamper::STRIP_ALL.contains(&t.as_str())));
    }
    base.insert("meta/str".into(), encode(&v));
    let gen_str = base.keys().find(|k| k.starts_with("gen/str/")).expect("gen/str").clone();
    let ct = base[&gen_str].clone();
    base.insert("data/str".into(), ct);
    put_legacy(&mut base, "leg", &plain["leg"].clone(), true, 0x41);
    put_legacy(&mut base, "leg0", &plain["leg0"].clone(), false, 0x42);
    plain.insert("sw2", sw2);
    World { base, plain, sw_next, sw_old_gen }
}

/// One observation of the battery.
#[derive(Clone, Debug, PartialEq, Eq)]
pub struct Obs {
    pub probe: String,
    pub value: String,
}

/// A deviation from what the effective configuration demands.
#[derive(Clone, Debug)]
pub struct Deviation {
    /// which option's contract
    pub option: &'static str,
    /// probe kind (signature part)
    pub probe: String,
    pub text: String,
}

fn show(r: &Result<Bytes, ()>) -> String {
    match r {
        Ok(b) => format!("ok {} bytes #{:08x}", b.len(), fnv64(b) as u32),
        Err(()) => "refused".into(),
    }
}

async fn get_bytes(store: &dyn ObjectStore, key: &str, range: Option<GetRange>) -> Result<Bytes, ()> {
    let r = store.get_opts(&Path::from(key), GetOptions { range, ..Default::default() }).await.map_err(|_| ())?;
    r.bytes().await.map_err(|_| ())
}

/// Runs the battery on one built store. Observations never contain random
/// values (tokens, nonces), only sizes, hashes of answered bytes and classes.
pub fn battery(w: &World, eff: &Effective, store: &dyn ObjectStore, inner: &Arc<InMemory>, supplied: &MetaCache) -> (Vec<Obs>, Vec<Deviation>) {
    let mut obs: Vec<Obs> = Vec::new();
    let mut dev: Vec<Deviation> = Vec::new();
    let cipher = harness_cipher();
    block_on(async {
        // --- reads of the three unauthenticated documents and of a sealed one
        for key in ["leg", "leg0", "str", "cur"] {
            let plain = &w.plain[key];
            let len = plain.len() as u64;
            let unauth = UNAUTHENTICATED.contains(&key);
            let mut judge = |probe: &str, got: Result<Bytes, ()>, want: Option<&[u8]>| {
                obs.push(Obs { probe: format!("{key}/{probe}"), value: show(&got) });
                if let Ok(b) = &got {
                    if unauth && eff.strict {
                        dev.push(Deviation {
                            option: "strict-metadata-auth",
                            probe: probe.into(),
                            text: format!("{probe} of `{key}` (a document without authentication fields) answered {} bytes although with_strict_metadata_auth() was called", b.len()),
                        });
                    } else if want.is_none_or(|w| w != b.as_ref()) {
                        dev.push(Deviation {
                            option: "any",
                            probe: probe.into(),
                            text: format!("{probe} of `{key}` answered {} bytes that are not the written ones", b.len()),
                        });
                    }
                } else if key == "cur" && !probe.starts_with("list") {
                    // (a listing may fail as a whole: strict mode rejects the legacy documents next to `cur`)
                    dev.push(Deviation { option: "any", probe: probe.into(), text: format!("{probe} of the untampered sealed object `cur` was refused") });
                }
            };
            judge("get", get_bytes(store, key, None).await, Some(plain));
            judge("get+bounded", get_bytes(store, key, Some(GetRange::Bounded(1..5))).await, Some(&plain[1..5]));
            judge("get+offset", get_bytes(store, key, Some(GetRange::Offset(3))).await, Some(&plain[3..]));
            judge("get+suffix", get_bytes(store, key, Some(GetRange::Suffix(2))).await, Some(&plain[plain.len() - 2..]));
            let two = [0..3u64, (len - 4)..len];
            let r = store.get_ranges(&Path::from(key), &two).await.map_err(|_| ()).map(|v| Bytes::from(v.concat()));
            let want: Vec<u8> = [&plain[0..3], &plain[plain.len() - 4..]].concat();
            judge("get_ranges", r, Some(&want));
            // head / listings answer a size: spelled as that many zero bytes
            let sized = |n: u64| Bytes::from(vec![0u8; n as usize]);
            let zeros = vec![0u8; plain.len()];
            let head = store.head(&Path::from(key)).await.map_err(|_| ()).map(|m| sized(m.size));
            judge("head", head, Some(&zeros));
            let find = |v: Vec<object_store::ObjectMeta>| v.iter().find(|m| m.location.as_ref() == key).map(|m| sized(m.size)).ok_or(());
            let l = store.list(None).try_collect::<Vec<_>>().await.map_err(|_| ()).and_then(find);
            judge("list", l, Some(&zeros));
            let l = store.list_with_delimiter(None).await.map_err(|_| ()).and_then(|r| find(r.objects));
            judge("list_with_delimiter", l, Some(&zeros));
            let l = store.list_with_offset(None, &Path::from("0")).try_collect::<Vec<_>>().await.map_err(|_| ()).and_then(find);
            judge("list_with_offset", l, Some(&zeros));
            // copy, then rename (which removes the source): the target is read
            let cp = format!("cp-{key}");
            let r = match store.copy(&Path::from(key), &Path::from(cp.as_str())).await {
                Ok(()) => get_bytes(store, &cp, None).await,
                Err(_) => Err(()),
            };
            judge("copy", r, Some(plain));
            if key != "cur" {
                let mv = format!("mv-{key}");
                let r = match store.rename(&Path::from(key), &Path::from(mv.as_str())).await {
                    Ok(()) => get_bytes(store, &mv, None).await,
                    Err(_) => Err(()),
                };
                judge("rename", r, Some(plain));
            }
        }

        // --- chunk size: the stored layout of a put and of a multipart upload
        for (key, multipart) in [("w", false), ("wm", true)] {
            let plain = payload(35, if multipart { 8 } else { 7 });
            let path = Path::from(key);
            let wrote = if multipart {
                match store.put_multipart_opts(&path, PutMultipartOptions::default()).await {
                    Ok(mut up) => {
                        let a = up.put_part(plain.slice(0..15).into()).await.is_ok();
                        let b = up.put_part(plain.slice(15..35).into()).await.is_ok();
                        a && b && up.complete().await.is_ok()
                    }
                    Err(_) => false,
                }
            } else {
                store.put(&path, plain.clone().into()).await.is_ok()
            };
            let content = snapshot(inner);
            let doc = content.get(&format!("meta/{key}"));
            let layout = doc.map(|d| {
                let c = match get_field(d, "c") {
                    Some(Cbor::Integer(i)) => u64::try_from(i).ok(),
                    _ => None,
                };
                let tags: Vec<Vec<u8>> = match get_field(d, "t") {
                    Some(Cbor::Array(a)) => a.into_iter().filter_map(|t| if let Cbor::Bytes(b) = t { Some(b) } else { None }).collect(),
                    _ => vec![],
                };
                let n = match get_field(d, "n") {
                    Some(Cbor::Bytes(b)) => b,
                    _ => vec![],
                };
                let g = match get_field(d, "g") {
                    Some(Cbor::Text(t)) => t,
                    _ => String::new(),
                };
                (c, tags, n, g)
            });
            let what = if multipart { "multipart" } else { "put" };
            match (wrote, layout) {
                (true, Some((c, tags, n, g))) => {
                    obs.push(Obs { probe: format!("{what}/layout"), value: format!("c={c:?} tags={}", tags.len()) });
                    let want_tags = 35u64.div_ceil(eff.cs) as usize;
                    if c != Some(eff.cs) || tags.len() != want_tags {
                        dev.push(Deviation {
                            option: "chunk-size",
                            probe: format!("{what}/layout"),
                            text: format!("a 35-byte {what} was stored with c = {c:?} and {} tags, the configured chunk size is {} ({want_tags} chunks)", tags.len(), eff.cs),
                        });
                    } else if let Some(ct) = content.get(&format!("gen/{key}/{g}")) {
                        // every chunk opens under the chunk AAD of the configured size
                        let opened: Option<Vec<u8>> = ct
                            .chunks(eff.cs as usize)
                            .zip(&tags)
                            .enumerate()
                            .map(|(i, (c, t))| open_chunk_with(&cipher, c, &n, eff.cs, i as u64, t))
                            .collect::<Option<Vec<Vec<u8>>>>()
                            .map(|v| v.concat());
                        if opened.as_deref() != Some(plain.as_ref()) {
                            dev.push(Deviation {
                                option: "chunk-size",
                                probe: format!("{what}/chunks"),
                                text: format!("the stored chunks of a 35-byte {what} do not open to the written bytes under nonce n + index and the chunk AAD of size {}", eff.cs),
                            });
                        }
                    }
                    let back = get_bytes(store, key, None).await;
                    obs.push(Obs { probe: format!("{what}/read-back"), value: show(&back) });
                    if back.as_ref().map(|b| b != &plain).unwrap_or(true) {
                        dev.push(Deviation { option: "any", probe: format!("{what}/read-back"), text: format!("a 35-byte {what} does not read back") });
                    }
                }
                _ => {
                    obs.push(Obs { probe: format!("{what}/layout"), value: "write failed".into() });
                    dev.push(Deviation { option: "any", probe: format!("{what}/write"), text: format!("a 35-byte {what} failed or left no document") });
                }
            }
        }

        // --- conditional put: always on
        let cur = Path::from("cur");
        let class = |r: &object_store::Result<object_store::PutResult>| format!("{:?}", crate::fix::class_res(r));
        let create = store.put_opts(&cur, payload(35, 9).into(), PutOptions { mode: PutMode::Create, ..Default::default() }).await;
        let tok = store.head(&cur).await.ok().and_then(|m| m.e_tag);
        let upd = |t: Option<String>| PutOptions { mode: PutMode::Update(UpdateVersion { e_tag: t, version: None }), ..Default::default() };
        let fresh = store.put_opts(&cur, payload(35, 9).into(), upd(tok.clone())).await;
        let stale = store.put_opts(&cur, payload(35, 10).into(), upd(tok)).await;
        let got = format!("create-on-existing={} update-latest={} update-stale={}", class(&create), class(&fresh), class(&stale));
        obs.push(Obs { probe: "conditional-put".into(), value: got.clone() });
        if got != "create-on-existing=AlreadyExists update-latest=Ok update-stale=Precondition" {
            dev.push(Deviation { option: "conditional-put", probe: "create+update".into(), text: format!("conditional puts are documented as always on; got {got}") });
        }

        // --- metadata cache: which cache serves, and does it hold entries
        let sw = Path::from("sw");
        let first = store.head(&sw).await.map(|m| m.size).map_err(|_| ());
        inner.delete(&Path::from(w.sw_old_gen.as_str())).await.expect("delete InMemory");
        for (p, v) in &w.sw_next {
            inner.put(&Path::from(p.as_str()), v.clone().into()).await.expect("put InMemory");
        }
        let second = store.head(&sw).await.map(|m| m.size).map_err(|_| ());
        let held = supplied.contains_key(&sw);
        obs.push(Obs { probe: "meta-cache".into(), value: format!("head {first:?}, after another instance's overwrite {second:?}, supplied cache holds the key: {held}") });
        if first != Ok(9) || !matches!(second, Ok(9) | Ok(20)) {
            dev.push(Deviation { option: "any", probe: "meta-cache/head".into(), text: format!("head of `sw` answered {first:?} then {second:?}; committed sizes are 9 then 20") });
        }
        if held != (eff.cache == CacheCfg::Supplied) {
            dev.push(Deviation {
                option: "meta-cache",
                probe: "supplied-cache-in-use".into(),
                text: format!("after a head() the cache handed to with_meta_cache() holds the key: {held}; the later of with_meta_cache / with_meta_cache_ttl decides, expected {}", eff.cache == CacheCfg::Supplied),
            });
        }
        if eff.cache == CacheCfg::BuiltInTtlZero && second == Ok(9) {
            dev.push(Deviation {
                option: "meta-cache",
                probe: "ttl-zero-serves-cached".into(),
                text: "with_meta_cache_ttl(0 s) is in effect, yet head() answered the replaced commit from the cache".into(),
            });
        }
    });
    (obs, dev)
}

/// Builds the store of (`ctor`, `seq`) over a fresh copy of the world and
/// runs the battery against the effective configuration of `seq`.
pub fn run_sequence(w: &World, ctor: Ctor, seq: &[Opt]) -> (Vec<Obs>, Vec<Deviation>) {
    anda_db_utils::verif::set_clock(Some((1_700_001_000_000, 1000)));
    let inner = restore_raw(&w.base);
    let supplied: MetaCache = Cache::new(100);
    let store = build_store(ctor, seq, inner.clone(), &supplied);
    battery(w, &effective(seq), store.as_ref(), &inner, &supplied)
}

//! The read battery of C07: every read entry point with every option shape,
//! generated from the key lengths, executed on any store, observed in a
//! normalised form and compared between reference and wrapper.

use crate::fix::{Class, KEYS, class_of, key};
use crate::ops::Book;
use chrono::{DateTime, Duration, Utc};
use futures::TryStreamExt;
use object_store::{GetOptions, GetRange, ObjectMeta, ObjectStore, path::Path};
use serde::{Deserialize, Serialize};

#[derive(Clone, Copy, Debug, PartialEq, Eq, Hash, Serialize, Deserialize)]
pub enum Rng {
    B(u64, u64),
    O(u64),
    S(u64),
}

/// Symbolic e_tag condition values, resolved per store from its own book.
#[derive(Clone, Copy, Debug, PartialEq, Eq, Serialize, Deserialize)]
pub enum CTok {
    Latest,
    Stale,
    Other,
    Fab,
    Star,
    /// "stale, latest" (comma list with a space, matches)
    ListStaleLatest,
    /// "fabricated,stale" (comma list, does not match)
    ListFabStale,
    /// "latest,fabricated"
    ListLatestFab,
}

#[derive(Clone, Debug, Default, PartialEq, Eq, Serialize, Deserialize)]
pub struct GetSpec {
    pub key: u8,
    pub range: Option<Rng>,
    pub im: Option<CTok>,
    pub inm: Option<CTok>,
    /// if_modified_since = own last_modified + this many ms
    pub ims: Option<i64>,
    /// if_unmodified_since = own last_modified + this many ms
    pub ius: Option<i64>,
    pub head: bool,
}

#[derive(Clone, Debug, PartialEq, Eq, Serialize, Deserialize)]
pub enum Rd {
    Get(GetSpec),
    Ranges { key: u8, rs: Vec<(u64, u64)> },
    List { prefix: Option<String> },
    ListOff { prefix: Option<String>, off: String },
    ListDelim { prefix: Option<String> },
}

impl Rd {
    /// Stable shape label for signatures.
    pub fn kind(&self) -> String {
        match self {
            Rd::Get(g) => {
                let mut s = String::from(if g.head { "head" } else { "get" });
                match g.range {
                    Some(Rng::B(..)) => s.push_str("+bounded"),
                    Some(Rng::O(_)) => s.push_str("+offset"),
                    Some(Rng::S(_)) => s.push_str("+suffix"),
                    None => {}
                }
                if g.im.is_some() {
                    s.push_str("+if_match");
                }
                if g.inm.is_some() {
                    s.push_str("+if_none_match");
                }
                if g.ims.is_some() {
                    s.push_str("+if_modified_since");
                }
                if g.ius.is_some() {
                    s.push_str("+if_unmodified_since");
                }
                s
            }
            Rd::Ranges { .. } => "get_ranges".into(),
            Rd::List { .. } => "list".into(),
            Rd::ListOff { .. } => "list_with_offset".into(),
            Rd::ListDelim { .. } => "list_with_delimiter".into(),
        }
    }
}

fn ctok(book: &Book, k: u8, t: CTok) -> String {
    let latest = book.tok_latest(k).unwrap_or_else(|| "never-had-a-token".into());
    let stale = book.tok_stale(k).unwrap_or_else(|| "no-stale-token".into());
    match t {
        CTok::Latest => latest,
        CTok::Stale => stale,
        CTok::Other => book.tok_other(k).unwrap_or_else(|| "no-other-token".into()),
        CTok::Fab => "fabricated-token".into(),
        CTok::Star => "*".into(),
        CTok::ListStaleLatest => format!("{stale}, {latest}"),
        CTok::ListFabStale => format!("fabricated-token,{stale}"),
        CTok::ListLatestFab => format!("{latest},fabricated-token"),
    }
}

fn own_lm(book: &Book, k: u8) -> DateTime<Utc> {
    book.latest[k as usize]
        .as_ref()
        .map(|c| c.lm)
        .unwrap_or_else(|| DateTime::from_timestamp_millis(1_000_000_000_000).unwrap())
}

#[derive(Clone, Debug, PartialEq, Eq, Serialize)]
pub struct MetaObs {
    pub loc: String,
    pub size: u64,
    pub etag: Option<String>,
    pub lm_ms: i64,
    pub version: Option<String>,
}

impl MetaObs {
    fn of(m: &ObjectMeta) -> MetaObs {
        MetaObs {
            loc: m.location.to_string(),
            size: m.size,
            etag: m.e_tag.clone(),
            lm_ms: m.last_modified.timestamp_millis(),
            version: m.version.clone(),
        }
    }
}

/// Normalised observation of one read.
#[derive(Clone, Debug, Default, Serialize)]
pub struct Obs {
    pub class: Option<Class>,
    pub err: String,
    /// get: one body; get_ranges: one per range
    pub bodies: Vec<Vec<u8>>,
    pub range: Option<(u64, u64)>,
    pub meta: Option<MetaObs>,
    pub entries: Vec<MetaObs>,
    pub prefixes: Vec<String>,
}

impl Obs {
    fn err(e: &object_store::Error) -> Obs {
        let mut s = e.to_string();
        s.truncate(200);
        Obs { class: Some(class_of(e)), err: s, ..Default::default() }
    }
    pub fn class(&self) -> Class {
        self.class.unwrap_or(Class::Other)
    }
}

fn opt_path(p: &Option<String>) -> Option<Path> {
    p.as_ref().map(|s| Path::from(s.as_str()))
}

fn sorted(mut v: Vec<MetaObs>) -> Vec<MetaObs> {
    v.sort_by(|a, b| a.loc.cmp(&b.loc));
    v
}

/// The concrete request of a symbolic get: tokens and dates resolved from the
/// store's own `book`.
pub fn get_options(book: &Book, g: &GetSpec) -> GetOptions {
    let lm = own_lm(book, g.key);
    GetOptions {
        if_match: g.im.map(|t| ctok(book, g.key, t)),
        if_none_match: g.inm.map(|t| ctok(book, g.key, t)),
        if_modified_since: g.ims.map(|d| lm + Duration::milliseconds(d)),
        if_unmodified_since: g.ius.map(|d| lm + Duration::milliseconds(d)),
        range: g.range.map(|r| match r {
            Rng::B(a, b) => GetRange::Bounded(a..b),
            Rng::O(o) => GetRange::Offset(o),
            Rng::S(s) => GetRange::Suffix(s),
        }),
        version: None,
        head: g.head,
        extensions: Default::default(),
    }
}

/// What the request `g` is answered when it is decided on the commit `c`
/// alone, before any payload is fetched: the verdict of `object_store`'s own
/// `GetOptions::check_preconditions` on that commit's (token, timestamp),
/// then the validity of the requested range for that commit's size. `None` =
/// nothing to refuse, the payload would be fetched.
///
/// Used for a reader whose metadata cache still holds an older commit: it may
/// refuse a request on the strength of that commit (cache lag, by design);
/// once it goes for the payload it finds the generation gone and must answer
/// from the current commit.
pub fn decided_on_commit(book: &Book, g: &GetSpec, c: &crate::ops::Commit) -> Option<Class> {
    let opts = get_options(book, g);
    let meta = ObjectMeta {
        location: key(g.key),
        last_modified: c.lm,
        size: c.size,
        e_tag: c.token.clone(),
        version: None,
    };
    if let Err(e) = opts.check_preconditions(&meta) {
        return Some(class_of(&e));
    }
    if let Some(r) = &opts.range
        && r.as_range(c.size).is_err()
    {
        return Some(Class::Other);
    }
    None
}

/// Executes one read on `store`, resolving symbolic tokens and dates from
/// that store's own `book`.
pub async fn exec(store: &dyn ObjectStore, book: &Book, rd: &Rd) -> Obs {
    match rd {
        Rd::Get(g) => {
            let opts = get_options(book, g);
            match store.get_opts(&key(g.key), opts).await {
                Err(e) => Obs::err(&e),
                Ok(res) => {
                    let meta = MetaObs::of(&res.meta);
                    let range = (res.range.start, res.range.end);
                    if g.head {
                        // a head request answers with metadata only
                        return Obs { class: Some(Class::Ok), meta: Some(meta), ..Default::default() };
                    }
                    match res.bytes().await {
                        Err(e) => Obs::err(&e),
                        Ok(b) => Obs {
                            class: Some(Class::Ok),
                            bodies: vec![b.to_vec()],
                            range: Some(range),
                            meta: Some(meta),
                            ..Default::default()
                        },
                    }
                }
            }
        }
        Rd::Ranges { key: k, rs } => {
            let ranges: Vec<std::ops::Range<u64>> = rs.iter().map(|(a, b)| *a..*b).collect();
            match store.get_ranges(&key(*k), &ranges).await {
                Err(e) => Obs::err(&e),
                Ok(v) => Obs {
                    class: Some(Class::Ok),
                    bodies: v.into_iter().map(|b| b.to_vec()).collect(),
                    ..Default::default()
                },
            }
        }
        Rd::List { prefix } => {
            let p = opt_path(prefix);
            match store.list(p.as_ref()).try_collect::<Vec<_>>().await {
                Err(e) => Obs::err(&e),
                Ok(v) => Obs {
                    class: Some(Class::Ok),
                    entries: sorted(v.iter().map(MetaObs::of).collect()),
                    ..Default::default()
                },
            }
        }
        Rd::ListOff { prefix, off } => {
            let p = opt_path(prefix);
            match store
                .list_with_offset(p.as_ref(), &Path::from(off.as_str()))
                .try_collect::<Vec<_>>()
                .await
            {
                Err(e) => Obs::err(&e),
                Ok(v) => Obs {
                    class: Some(Class::Ok),
                    entries: sorted(v.iter().map(MetaObs::of).collect()),
                    ..Default::default()
                },
            }
        }
        Rd::ListDelim { prefix } => {
            let p = opt_path(prefix);
            match store.list_with_delimiter(p.as_ref()).await {
                Err(e) => Obs::err(&e),
                Ok(r) => {
                    let mut prefixes: Vec<String> = r.common_prefixes.iter().map(|p| p.to_string()).collect();
                    prefixes.sort();
                    Obs {
                        class: Some(Class::Ok),
                        entries: sorted(r.objects.iter().map(MetaObs::of).collect()),
                        prefixes,
                        ..Default::default()
                    }
                }
            }
        }
    }
}

/// What differs between the reference's and the wrapper's answer to the
/// same read, after normalising token values, versions and timestamps
/// (those are checked separately, per store). `None` = same.
pub fn differs(r: &Obs, w: &Obs) -> Option<String> {
    if r.class() != w.class() {
        return Some(format!("class:ref={:?}:impl={:?}", r.class(), w.class()));
    }
    if r.class() != Class::Ok {
        return None;
    }
    if r.bodies != w.bodies {
        return Some("bytes".into());
    }
    if r.range != w.range {
        return Some("range".into());
    }
    match (&r.meta, &w.meta) {
        (Some(a), Some(b)) => {
            if a.loc != b.loc {
                return Some("meta.location".into());
            }
            if a.size != b.size {
                return Some("meta.size".into());
            }
        }
        (None, None) => {}
        _ => return Some("meta.presence".into()),
    }
    let rl: Vec<(&str, u64)> = r.entries.iter().map(|e| (e.loc.as_str(), e.size)).collect();
    let wl: Vec<(&str, u64)> = w.entries.iter().map(|e| (e.loc.as_str(), e.size)).collect();
    if rl != wl {
        return Some("listing".into());
    }
    if r.prefixes != w.prefixes {
        return Some("common_prefixes".into());
    }
    None
}

fn bset(cs: u64, len: u64) -> Vec<u64> {
    let mut v = vec![0, 1, cs.saturating_sub(1), cs, cs + 1, len.saturating_sub(1), len, len + 1];
    v.sort();
    v.dedup();
    v
}

fn get(k: u8) -> GetSpec {
    GetSpec { key: k, ..Default::default() }
}

/// The light battery: what must hold for a key the last operation did not
/// touch (and for absent keys): get, head, one range, one multi-range.
pub fn light_reads(k: u8, out: &mut Vec<Rd>) {
    out.push(Rd::Get(get(k)));
    out.push(Rd::Get(GetSpec { head: true, ..get(k) }));
    out.push(Rd::Get(GetSpec { range: Some(Rng::B(0, 1)), ..get(k) }));
    out.push(Rd::Get(GetSpec { im: Some(CTok::Latest), ..get(k) }));
    out.push(Rd::Ranges { key: k, rs: vec![(0, 1)] });
}

/// The full battery for one present key of length `len`.
pub fn full_reads(k: u8, cs: u64, len: u64, out: &mut Vec<Rd>) {
    let b = bset(cs, len);
    out.push(Rd::Get(get(k)));
    out.push(Rd::Get(GetSpec { head: true, ..get(k) }));
    // every GetRange kind at every boundary
    let mut pairs: Vec<(u64, u64)> = Vec::new();
    for (i, a) in b.iter().enumerate() {
        for z in &b[i + 1..] {
            pairs.push((*a, *z));
        }
    }
    for (a, z) in &pairs {
        out.push(Rd::Get(GetSpec { range: Some(Rng::B(*a, *z)), ..get(k) }));
    }
    // zero-length and inverted bounded ranges
    out.push(Rd::Get(GetSpec { range: Some(Rng::B(1, 1)), ..get(k) }));
    out.push(Rd::Get(GetSpec { range: Some(Rng::B(cs + 1, 1)), ..get(k) }));
    for a in &b {
        out.push(Rd::Get(GetSpec { range: Some(Rng::O(*a)), ..get(k) }));
        out.push(Rd::Get(GetSpec { range: Some(Rng::S(*a)), ..get(k) }));
    }
    // get_ranges with 1, 2 and 3 ranges
    for p in &pairs {
        out.push(Rd::Ranges { key: k, rs: vec![*p] });
    }
    let n = pairs.len();
    if n >= 2 {
        for i in 0..n {
            out.push(Rd::Ranges { key: k, rs: vec![pairs[i], pairs[(i + 1) % n]] });
            out.push(Rd::Ranges { key: k, rs: vec![pairs[i], pairs[(i + n / 2) % n], pairs[(i + 1) % n]] });
        }
    }
    // out of order, duplicate, second range inside the first one's chunk span, inverted
    out.push(Rd::Ranges { key: k, rs: vec![(cs, cs + 1), (0, 1)] });
    out.push(Rd::Ranges { key: k, rs: vec![(0, 1), (0, 1)] });
    out.push(Rd::Ranges { key: k, rs: vec![(0, cs), (1, 2)] });
    out.push(Rd::Ranges { key: k, rs: vec![(0, 1), (1, 1)] });
    out.push(Rd::Ranges { key: k, rs: vec![(0, 1), (2, 1)] });
    // e_tag conditions
    let all = [
        CTok::Latest,
        CTok::Stale,
        CTok::Other,
        CTok::Fab,
        CTok::Star,
        CTok::ListStaleLatest,
        CTok::ListFabStale,
        CTok::ListLatestFab,
    ];
    for t in all {
        out.push(Rd::Get(GetSpec { im: Some(t), ..get(k) }));
        out.push(Rd::Get(GetSpec { inm: Some(t), ..get(k) }));
    }
    // date conditions around the commit time
    for d in [-1000i64, -1, 0, 1, 1000] {
        out.push(Rd::Get(GetSpec { ims: Some(d), ..get(k) }));
        out.push(Rd::Get(GetSpec { ius: Some(d), ..get(k) }));
    }
    // precedence combinations
    for im in [CTok::Latest, CTok::Fab] {
        for ius in [-1000i64, 1000] {
            out.push(Rd::Get(GetSpec { im: Some(im), ius: Some(ius), ..get(k) }));
        }
        for inm in [CTok::Latest, CTok::Fab, CTok::Star] {
            out.push(Rd::Get(GetSpec { im: Some(im), inm: Some(inm), ..get(k) }));
        }
    }
    for inm in [CTok::Latest, CTok::Fab] {
        for ims in [-1000i64, 1000] {
            out.push(Rd::Get(GetSpec { inm: Some(inm), ims: Some(ims), ..get(k) }));
        }
    }
    for ius in [-1000i64, 1000] {
        for ims in [-1000i64, 1000] {
            out.push(Rd::Get(GetSpec { ius: Some(ius), ims: Some(ims), ..get(k) }));
        }
    }
    for (im, ius, inm, ims) in [
        (CTok::Latest, -1000i64, CTok::Fab, 1000i64),
        (CTok::Fab, 1000, CTok::Fab, -1000),
        (CTok::Latest, 1000, CTok::Latest, -1000),
        (CTok::Star, -1000, CTok::ListFabStale, 1000),
    ] {
        out.push(Rd::Get(GetSpec { im: Some(im), ius: Some(ius), inm: Some(inm), ims: Some(ims), ..get(k) }));
    }
    // conditions together with ranges and head
    out.push(Rd::Get(GetSpec { im: Some(CTok::Fab), range: Some(Rng::B(1, 1)), ..get(k) }));
    out.push(Rd::Get(GetSpec { inm: Some(CTok::Latest), range: Some(Rng::B(0, 1)), ..get(k) }));
    out.push(Rd::Get(GetSpec { im: Some(CTok::Latest), range: Some(Rng::S(1)), ..get(k) }));
    out.push(Rd::Get(GetSpec { ius: Some(-1000), range: Some(Rng::O(0)), ..get(k) }));
    out.push(Rd::Get(GetSpec { head: true, inm: Some(CTok::Latest), ..get(k) }));
    out.push(Rd::Get(GetSpec { head: true, im: Some(CTok::Fab), ..get(k) }));
    out.push(Rd::Get(GetSpec { head: true, ims: Some(0), ..get(k) }));
    out.push(Rd::Get(GetSpec { head: true, ius: Some(-1), ..get(k) }));
}

/// All three listings on every prefix (and offsets around every key).
pub fn list_reads(out: &mut Vec<Rd>) {
    let prefixes: Vec<Option<String>> =
        vec![None, Some("a".into()), Some("a/b".into()), Some("c".into()), Some("zz".into())];
    for p in &prefixes {
        out.push(Rd::List { prefix: p.clone() });
        out.push(Rd::ListDelim { prefix: p.clone() });
    }
    for p in [None, Some("a".to_string())] {
        for off in ["0", "a", "a/b", "a/c", "c", "d"] {
            out.push(Rd::ListOff { prefix: p.clone(), off: off.to_string() });
        }
    }
}

/// The battery after a mutation: full on the keys it touched, light on the
/// others, all listings.
pub fn battery(cs: u64, lens: [Option<u64>; 3], touched: [bool; 3]) -> Vec<Rd> {
    let mut out = Vec::new();
    for k in 0..3u8 {
        match lens[k as usize] {
            Some(len) if touched[k as usize] => full_reads(k, cs, len, &mut out),
            _ => light_reads(k, &mut out),
        }
    }
    list_reads(&mut out);
    out
}

/// A disagreement found by [`consistency`]: which read, which field.
pub struct Inconsistent {
    pub read: String,
    pub field: &'static str,
    pub text: String,
}

/// Checks that every source that reported metadata for a present key (get,
/// head, the three listings) reported the size / token / timestamp of that
/// key's latest commit as recorded in `book`, and no version. Returns the
/// first disagreement.
pub fn consistency(book: &Book, reads: &[Rd], obs: &[Obs]) -> Option<Inconsistent> {
    let bad = |rd: &Rd, field: &'static str, text: String| Some(Inconsistent { read: rd.kind(), field, text });
    for (rd, o) in reads.iter().zip(obs) {
        if o.class() != Class::Ok {
            continue;
        }
        let mut metas: Vec<&MetaObs> = Vec::new();
        if let Some(m) = &o.meta {
            metas.push(m);
        }
        metas.extend(o.entries.iter());
        for m in metas {
            let Some(k) = KEYS.iter().position(|x| *x == m.loc) else {
                return bad(rd, "location", format!("unknown location {} reported", m.loc));
            };
            let Some(c) = &book.latest[k] else {
                return bad(rd, "absent-key", format!("metadata reported for absent key {}", m.loc));
            };
            if m.size != c.size {
                return bad(rd, "size", format!("size {} != committed size {} for {}", m.size, c.size, m.loc));
            }
            if m.etag != c.token {
                return bad(rd, "e_tag", format!("e_tag {:?} != committed token {:?} for {}", m.etag, c.token, m.loc));
            }
            if m.lm_ms != c.lm.timestamp_millis() {
                return bad(
                    rd,
                    "last_modified",
                    format!("last_modified {} != committed {} for {}", m.lm_ms, c.lm.timestamp_millis(), m.loc),
                );
            }
            if m.version.is_some() {
                return bad(rd, "version", format!("version {:?} reported for {}", m.version, m.loc));
            }
        }
        if let (Rd::Get(g), Some(m)) = (rd, &o.meta)
            && !g.head
            && g.range.is_none()
            && o.bodies.first().map(|b| b.len() as u64) != Some(m.size)
        {
            return bad(rd, "body-size", format!("full get returned {} bytes but size {}", o.bodies[0].len(), m.size));
        }
    }
    None
}

//! Attribute pass-through of C07: what `get` / ranged get / head-get report
//! as `GetResult::attributes` after puts (all modes), multipart uploads,
//! copies and renames that carry attribute sets, compared with the plain
//! `InMemory` reference after every operation, on the live (warm) and on a
//! fresh (cold) wrapper instance. (Tags cannot be read back through the
//! `ObjectStore` API and the reference ignores them: nothing to compare.)

use crate::fix::{Class, KEYS, Wrap, build, class_of, key, payload};
use object_store::{
    Attribute, Attributes, CopyMode, CopyOptions, GetOptions, GetRange, ObjectStore, ObjectStoreExt, PutMode,
    PutMultipartOptions, PutOptions, PutPayload, RenameOptions, RenameTargetMode, UpdateVersion, memory::InMemory,
};
use serde::{Deserialize, Serialize};
use serde_json::json;
use std::sync::Arc;
use vcore::{Violation, util};

#[derive(Clone, Copy, Debug, PartialEq, Eq, Hash, Serialize, Deserialize)]
pub enum PMode {
    Overwrite,
    Create,
    /// Update with the token the store's own head reports right now
    UpdateLatest,
}

#[derive(Clone, Debug, PartialEq, Eq, Hash, Serialize, Deserialize)]
pub enum AOp {
    /// put of 17 bytes with attribute set `attrs` (0 = none, 1 = A, 2 = B)
    Put { key: u8, attrs: u8, mode: PMode },
    /// multipart upload (parts 15 + 2) with attribute set `attrs`
    Multi { key: u8, attrs: u8 },
    Copy { from: u8, to: u8 },
    Rename { from: u8, to: u8 },
    Delete { key: u8 },
}

impl AOp {
    pub fn kind(&self) -> String {
        match self {
            AOp::Put { mode, .. } => format!("put-{mode:?}").to_lowercase(),
            AOp::Multi { .. } => "multipart".into(),
            AOp::Copy { from, to } => if from == to { "copy-self" } else { "copy" }.into(),
            AOp::Rename { .. } => "rename".into(),
            AOp::Delete { .. } => "delete".into(),
        }
    }
    pub fn short(&self) -> String {
        let k = |i: &u8| KEYS[*i as usize];
        match self {
            AOp::Put { key, attrs, mode } => format!("put({}, attrs {}, {:?})", k(key), ["none", "A", "B"][*attrs as usize], mode),
            AOp::Multi { key, attrs } => format!("multipart({}, attrs {})", k(key), ["none", "A", "B"][*attrs as usize]),
            AOp::Copy { from, to } => format!("copy({} -> {})", k(from), k(to)),
            AOp::Rename { from, to } => format!("rename({} -> {})", k(from), k(to)),
            AOp::Delete { key } => format!("delete({})", k(key)),
        }
    }
}

fn attr_set(i: u8) -> Attributes {
    match i {
        1 => Attributes::from_iter([(Attribute::ContentType, "text/plain"), (Attribute::CacheControl, "max-age=1")]),
        2 => Attributes::from_iter([
            (Attribute::ContentType, "application/json"),
            (Attribute::Metadata("owner".into()), "verif"),
        ]),
        _ => Attributes::new(),
    }
}

/// The alphabet over keys a and c.
pub fn alphabet() -> Vec<AOp> {
    let mut out = Vec::new();
    for k in [0u8, 2] {
        for attrs in 0..3u8 {
            out.push(AOp::Put { key: k, attrs, mode: PMode::Overwrite });
        }
        out.push(AOp::Put { key: k, attrs: 1, mode: PMode::Create });
        out.push(AOp::Put { key: k, attrs: 2, mode: PMode::UpdateLatest });
        out.push(AOp::Multi { key: k, attrs: 1 });
        out.push(AOp::Delete { key: k });
    }
    for (from, to) in [(0u8, 2u8), (2, 0), (0, 0)] {
        out.push(AOp::Copy { from, to });
    }
    for (from, to) in [(0u8, 2u8), (2, 0)] {
        out.push(AOp::Rename { from, to });
    }
    out
}

async fn apply(store: &dyn ObjectStore, op: &AOp) -> Class {
    let cls = |r: object_store::Result<()>| match r {
        Ok(()) => Class::Ok,
        Err(e) => class_of(&e),
    };
    match op {
        AOp::Put { key: k, attrs, mode } => {
            let mode = match mode {
                PMode::Overwrite => PutMode::Overwrite,
                PMode::Create => PutMode::Create,
                PMode::UpdateLatest => {
                    let e_tag = store.head(&key(*k)).await.ok().and_then(|m| m.e_tag).or(Some("no-token".into()));
                    PutMode::Update(UpdateVersion { e_tag, version: None })
                }
            };
            let opts = PutOptions { mode, attributes: attr_set(*attrs), ..Default::default() };
            cls(store.put_opts(&key(*k), PutPayload::from(payload(17, *attrs)), opts).await.map(|_| ()))
        }
        AOp::Multi { key: k, attrs } => {
            let opts = PutMultipartOptions { attributes: attr_set(*attrs), ..Default::default() };
            let mut up = match store.put_multipart_opts(&key(*k), opts).await {
                Ok(u) => u,
                Err(e) => return class_of(&e),
            };
            let data = payload(17, 3);
            for part in [data.slice(0..15), data.slice(15..17)] {
                if let Err(e) = up.put_part(PutPayload::from(part)).await {
                    return class_of(&e);
                }
            }
            cls(up.complete().await.map(|_| ()))
        }
        AOp::Copy { from, to } => {
            cls(store.copy_opts(&key(*from), &key(*to), CopyOptions { mode: CopyMode::Overwrite, ..Default::default() }).await)
        }
        AOp::Rename { from, to } => cls(store
            .rename_opts(
                &key(*from),
                &key(*to),
                RenameOptions { target_mode: RenameTargetMode::Overwrite, ..Default::default() },
            )
            .await),
        AOp::Delete { key: k } => cls(store.delete(&key(*k)).await),
    }
}

/// (class, attributes) of get / get 0..1 / head-get of key `k`.
async fn read_attrs(store: &dyn ObjectStore, k: u8) -> Vec<(&'static str, Class, Option<Attributes>)> {
    let mut out = Vec::new();
    for (name, opts) in [
        ("get", GetOptions::default()),
        ("get+bounded", GetOptions { range: Some(GetRange::Bounded(0..1)), ..Default::default() }),
        ("head", GetOptions { head: true, ..Default::default() }),
    ] {
        match store.get_opts(&key(k), opts).await {
            Ok(r) => out.push((name, Class::Ok, Some(r.attributes))),
            Err(e) => out.push((name, class_of(&e), None)),
        }
    }
    out
}

#[derive(Default)]
pub struct AttrOut {
    pub violations: Vec<Violation>,
    pub ops: u64,
    pub reads: u64,
    /// (last op, its class, attributes of both keys) for the distinct counter
    pub outcome: String,
    /// the last operation answered Ok on the reference
    pub last_ok: bool,
}

pub fn run_history(wrap: Wrap, hist: &[AOp], clock: u64) -> AttrOut {
    util::block_on(run_async(wrap, hist, clock))
}

async fn run_async(wrap: Wrap, hist: &[AOp], clock: u64) -> AttrOut {
    anda_db_utils::verif::set_clock(Some((clock, 1000)));
    let mut out = AttrOut::default();
    let reference = InMemory::new();
    let inner: Arc<InMemory> = Arc::new(InMemory::new());
    let warm = build(wrap, inner.clone());
    let viol = |upto: &[AOp], what: String, text: String| Violation {
        signature: format!("C07/hist/{}/attributes/{what}", wrap.kind()),
        summary: format!("{}: after [{}]: {text}", wrap.label(), upto.iter().map(|o| o.short()).collect::<Vec<_>>().join("; ")),
        replay: json!({"mode": "attrs", "wrap": wrap, "history": upto, "clock": clock}),
    };
    for (i, op) in hist.iter().enumerate() {
        let upto = &hist[..=i];
        // delete of a missing key: store-dependent (the same normalisation as in the main alphabet)
        let deletes_missing = match op {
            AOp::Delete { key: k } => reference.head(&key(*k)).await.is_err(),
            _ => false,
        };
        let r = apply(&reference, op).await;
        let w = apply(warm.as_ref(), op).await;
        out.ops += 1;
        out.last_ok = r == Class::Ok;
        if r != w && !(deletes_missing && r == Class::Ok && w == Class::NotFound) {
            out.violations.push(viol(upto, format!("{}/op-class", op.kind()), format!("{} answered {w:?}, the reference {r:?}", op.short())));
            return out;
        }
        let cold = build(wrap, inner.clone());
        let mut state = String::new();
        for k in [0u8, 2] {
            let want = read_attrs(&reference, k).await;
            for (name, store) in [("warm", &warm), ("cold", &cold)] {
                let got = read_attrs(store.as_ref(), k).await;
                out.reads += got.len() as u64;
                for ((rd, rc, ra), (_, wc, wa)) in want.iter().zip(&got) {
                    if rc != wc || ra != wa {
                        out.violations.push(viol(
                            upto,
                            format!("{}/{rd}", op.kind()),
                            format!(
                                "{name} cache: {rd}({}) reports {wc:?} with attributes {wa:?}, the reference {rc:?} with {ra:?}",
                                KEYS[k as usize]
                            ),
                        ));
                        return out;
                    }
                }
            }
            // canonical text (the attribute map iterates in no fixed order)
            let mut pairs: Vec<String> = match &want[0].2 {
                Some(a) => a.iter().map(|(k, v)| format!("{k:?}={v:?}")).collect(),
                None => vec!["absent".into()],
            };
            pairs.sort();
            state.push_str(&format!("{};", pairs.join(",")));
        }
        if i + 1 == hist.len() {
            out.outcome = format!("{}:{r:?}|{state}", op.kind());
        }
    }
    out
}

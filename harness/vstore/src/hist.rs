//! HIST engine of C07: executes one operation history on the real wrapper
//! and, side by side, on a plain `InMemory` reference store; compares every
//! result class, then runs the read battery on the live wrapper (warm
//! metadata cache), on a fresh wrapper instance over the same inner store
//! (cold cache) and, for the keys the last operation replaced, on an
//! instance whose metadata cache still holds the previous commit.

use crate::battery::{self, Obs, Rd, Rng};
use crate::fix::{Class, KEYS, Wrap, build, h128, key};
use crate::ops::{Book, Commit, Mode, Op, OpOut, Tok, apply, observe};
use object_store::{ObjectStoreExt, memory::InMemory};
use serde_json::{Value, json};
use std::collections::{BTreeMap, HashSet};
use std::sync::Arc;
use vcore::{Violation, util};

pub const CLOCK_STEP_MS: u64 = 1000;

#[derive(Default)]
pub struct NodeOut {
    pub violations: Vec<Violation>,
    /// reads executed on the wrapper and compared with the reference
    pub reads: u64,
    /// mutations executed on the wrapper
    pub ops: u64,
    /// gets answered by the lagging instance and judged
    pub lag_reads: u64,
    /// ... of which refused on the strength of the commit it had cached
    pub lag_refused_on_cached_commit: u64,
    /// hash of every token any wrapper commit of this execution returned
    pub tokens: Vec<u128>,
    /// canonical reference content + token-chain shape after the history
    pub state_key: String,
    /// the whole history ran on both stores with matching result classes
    /// (read deviations are reported but do not stop the history from being
    /// extended)
    pub ok: bool,
    /// reference book after the history (drives applicability of children)
    pub book: Book,
    /// documented deviations / reference quirks met, by name
    pub tolerated: BTreeMap<&'static str, u64>,
    pub sample: Option<Value>,
    pub last_class: Option<Class>,
}

fn viol(wrap: Wrap, hist: &[Op], clock: u64, category: &str, detail: &str, text: String) -> Violation {
    Violation {
        signature: format!("C07/hist/{}/{}/{}", wrap.kind(), category, detail),
        summary: format!(
            "{}: after [{}]: {}",
            wrap.label(),
            hist.iter().map(|o| o.short()).collect::<Vec<_>>().join("; "),
            text
        ),
        replay: json!({"wrap": wrap, "history": hist, "clock": clock}),
    }
}

/// Shape class of a read relative to the object length (for signatures).
fn shape(rd: &Rd, lens: &[Option<u64>; 3]) -> String {
    let cls = |k: u8, a: u64, b: u64| -> &'static str {
        match lens[k as usize] {
            None => "absent",
            Some(len) => {
                if b <= a {
                    "empty-or-inverted"
                } else if a >= len {
                    "start>=len"
                } else if b > len {
                    "end>len"
                } else {
                    "in-bounds"
                }
            }
        }
    };
    match rd {
        Rd::Get(g) => match (g.range, lens[g.key as usize]) {
            (_, None) => "absent".into(),
            (Some(Rng::B(a, b)), _) => cls(g.key, a, b).into(),
            (Some(Rng::O(o)), Some(len)) => if o >= len { "offset>=len" } else { "in-bounds" }.into(),
            (Some(Rng::S(s)), Some(len)) => if s == 0 {
                "suffix=0"
            } else if s > len {
                "suffix>len"
            } else {
                "in-bounds"
            }
            .into(),
            (None, Some(_)) => "whole".into(),
        },
        Rd::Ranges { key: k, rs } => {
            // the class of the "worst" range of the request
            let kinds: Vec<&str> = rs.iter().map(|(a, b)| cls(*k, *a, *b)).collect();
            ["absent", "empty-or-inverted", "start>=len", "end>len", "in-bounds"]
                .into_iter()
                .find(|c| kinds.contains(c))
                .unwrap_or("none")
                .to_string()
        }
        _ => "listing".into(),
    }
}

/// Deviations from the `InMemory` reference that the property does not
/// claim: documented by `object_store` itself as store-dependent, or a
/// quirk of the reference that no conforming store is meant to copy.
fn tolerated_op(op: &Op, present: bool, r: &OpOut, w: &OpOut) -> Option<&'static str> {
    match op {
        // object_store docs (ObjectStore::delete_stream): deleting a missing
        // object "may be an error or a success, depending on the behavior of
        // the underlying store ... If it is an error, it will be NotFound".
        Op::Delete { .. } if !present && r.class == Class::Ok && w.class == Class::NotFound => {
            Some("delete_of_missing_key_NotFound_vs_Ok")
        }
        // InMemory answers Generic("ETag required for conditional update")
        // for an existing key; the wrappers answer Precondition. Both reject
        // and change nothing; only the error variant of a malformed request
        // differs.
        Op::Put { mode: Mode::Update(Tok::Missing), .. }
            if present && r.class == Class::Other && w.class == Class::Precondition =>
        {
            Some("update_without_etag_Precondition_vs_Generic")
        }
        _ => None,
    }
}

/// `lag_all`: the lagging instance is asked every get and every in-bounds
/// get_ranges of the battery; otherwise every get that carries a condition,
/// the plain get, head and the offset / suffix / empty ranges (not the plain
/// bounded pairs), and the in-bounds get_ranges calls of three ranges.
pub fn run_node(wrap: Wrap, hist: &[Op], clock: u64, want_sample: bool, lag_all: bool) -> NodeOut {
    let r = std::panic::catch_unwind(std::panic::AssertUnwindSafe(|| {
        util::block_on(run_node_async(wrap, hist, clock, want_sample, lag_all))
    }));
    match r {
        Ok(out) => out,
        Err(p) => {
            // the reference answers every call of the battery; a panic is not an answer
            let text = p
                .downcast_ref::<String>()
                .cloned()
                .or_else(|| p.downcast_ref::<&str>().map(|s| s.to_string()))
                .unwrap_or_default();
            let mut out = NodeOut::default();
            out.violations.push(viol(wrap, hist, clock, "panic", "during-history-or-battery", format!("panicked: {text}")));
            out
        }
    }
}

async fn run_node_async(wrap: Wrap, hist: &[Op], clock: u64, want_sample: bool, lag_all: bool) -> NodeOut {
    anda_db_utils::verif::set_clock(Some((clock, CLOCK_STEP_MS)));
    let mut out = NodeOut::default();
    let cs = wrap.cs();
    let reference: Arc<InMemory> = Arc::new(InMemory::new());
    let inner: Arc<InMemory> = Arc::new(InMemory::new());
    let warm = build(wrap, inner.clone());
    let mut rb = Book::default();
    let mut wb = Book::default();
    let mut seen: HashSet<String> = HashSet::new();
    let mut last_ok = false;
    // (last_modified, operation) of the latest commit so far
    let mut newest: Option<(chrono::DateTime<chrono::Utc>, String)> = None;
    // The backend content and the wrapper's book right before the last
    // operation: what a second instance over the same backend would have in
    // its metadata cache had it read the keys at that moment.
    let mut before: Option<(Arc<InMemory>, Book)> = None;

    for (i, op) in hist.iter().enumerate() {
        let upto = &hist[..=i];
        if i + 1 == hist.len() {
            before = Some((Arc::new(inner.fork()), wb.clone()));
        }
        let present = rb.present(op.target());
        // Reference quirk: the default `rename_opts` (copy, then delete the
        // source) destroys the object when from == to. The wrappers leave it
        // untouched and validate existence / target mode; the reference
        // model for a self-rename of a present key is therefore "nothing
        // changes; Overwrite succeeds".
        let self_rename_ow = matches!(op, Op::Rename { from, to, create: false } if from == to) && present;
        let r = if self_rename_ow {
            *out.tolerated.entry("self_rename_reference_would_destroy_object").or_insert(0) += 1;
            OpOut::synthetic(Class::Ok)
        } else {
            apply(reference.as_ref(), &rb, op).await
        };
        let w = apply(warm.as_ref(), &wb, op).await;
        out.ops += 1;
        out.last_class = Some(r.class);

        if r.class != w.class {
            if let Some(name) = tolerated_op(op, present, &r, &w) {
                *out.tolerated.entry(name).or_insert(0) += 1;
            } else {
                out.violations.push(viol(
                    wrap,
                    upto,
                    clock,
                    "op-class",
                    &format!("{}/ref={:?}/impl={:?}", op.kind(), r.class, w.class),
                    format!("{} answered {:?} ({}) but the reference answered {:?} ({})", op.short(), w.class, w.err, r.class, r.err),
                ));
                return out;
            }
        }
        // direct CAS / create oracle, independent of the reference's answer
        if let Op::Put { mode, .. } = op {
            let must_succeed = match mode {
                Mode::Create => Some(!present),
                Mode::Update(t) => Some(present && *t == Tok::Latest),
                Mode::Overwrite => None,
            };
            if let Some(exp) = must_succeed
                && (w.class == Class::Ok) != exp
            {
                out.violations.push(viol(
                    wrap,
                    upto,
                    clock,
                    "cas",
                    &format!("{}/expected-success={}/impl={:?}", op.kind(), exp, w.class),
                    format!("{} answered {:?}; key present={}, token role={:?}", op.short(), w.class, present, mode),
                ));
                return out;
            }
        }
        last_ok = r.class == Class::Ok;
        let w_ok = w.class == Class::Ok;
        // book keeping: what each store reports for the commit it just made
        let commit_key: Option<u8> = match op {
            Op::Put { key, .. } => Some(*key),
            Op::Multi { key, abort: false, .. } => Some(*key),
            Op::Multi { abort: true, .. } => None,
            Op::Copy { to, .. } => Some(*to),
            Op::Rename { from, to, .. } if from != to => Some(*to),
            Op::Rename { .. } => None,
            Op::Delete { .. } => None,
        };
        if last_ok && w_ok {
            if let Some(k) = commit_key {
                let rc = observe(reference.as_ref(), k).await.expect("reference head after commit");
                rb.commit(k, rc);
                match observe(warm.as_ref(), k).await {
                    Err(e) => {
                        out.violations.push(viol(
                            wrap,
                            upto,
                            clock,
                            "head-after-commit",
                            &op.kind(),
                            format!("head({}) right after a successful {} failed: {e}", KEYS[k as usize], op.short()),
                        ));
                        return out;
                    }
                    Ok(wc) => {
                        if matches!(op, Op::Put { .. } | Op::Multi { .. }) {
                            if w.etag.is_none() || w.etag != wc.token {
                                out.violations.push(viol(
                                    wrap,
                                    upto,
                                    clock,
                                    "put-result-token",
                                    &op.kind(),
                                    format!(
                                        "{} returned token {:?} but head reports {:?}",
                                        op.short(),
                                        w.etag,
                                        wc.token
                                    ),
                                ));
                                return out;
                            }
                            if w.version.is_some() {
                                out.violations.push(viol(
                                    wrap,
                                    upto,
                                    clock,
                                    "version-reported",
                                    &op.kind(),
                                    format!("{} returned version {:?}", op.short(), w.version),
                                ));
                                return out;
                            }
                        }
                        let tok = wc.token.clone().unwrap_or_default();
                        if wc.token.is_none() || !seen.insert(tok.clone()) {
                            out.violations.push(viol(
                                wrap,
                                upto,
                                clock,
                                "token-reuse",
                                &op.kind(),
                                format!(
                                    "commit of {} by {} carries token {:?}, which an earlier commit of this history already carried (or none)",
                                    KEYS[k as usize],
                                    op.short(),
                                    wc.token
                                ),
                            ));
                            return out;
                        }
                        out.tokens.push(h128(tok.as_bytes()));
                        // the reference stamps every commit (copies and renames
                        // included) with the time of the commit: no commit reports
                        // an earlier last_modified than any commit before it
                        if let Some((prev, by)) = &newest
                            && wc.lm < *prev
                        {
                            out.violations.push(viol(
                                wrap,
                                upto,
                                clock,
                                "last_modified-before-earlier-commit",
                                &op.kind(),
                                format!(
                                    "the commit of {} by {} reports last_modified {}, earlier than {} reported by the earlier commit {}",
                                    KEYS[k as usize],
                                    op.short(),
                                    wc.lm.timestamp_millis(),
                                    prev.timestamp_millis(),
                                    by
                                ),
                            ));
                            return out;
                        }
                        newest = Some((wc.lm, op.short()));
                        wb.commit(k, wc);
                    }
                }
            }
            match op {
                Op::Rename { from, to, .. } if from != to => {
                    rb.remove(*from);
                    wb.remove(*from);
                }
                Op::Delete { key } => {
                    rb.remove(*key);
                    wb.remove(*key);
                }
                _ => {}
            }
        }
    }

    // ---- read battery on warm and cold instance
    let lens: [Option<u64>; 3] = [0, 1, 2].map(|k: usize| rb.latest[k].as_ref().map(|c| c.size));
    let mut touched = [false; 3];
    if last_ok && let Some(op) = hist.last() {
        touched[op.target() as usize] = true;
    }
    if hist.is_empty() {
        touched = [true; 3];
    }
    let reads = battery::battery(cs, lens, touched);
    let cold = build(wrap, inner.clone());
    let mut warm_obs: Vec<Obs> = Vec::with_capacity(reads.len());
    let mut cold_obs: Vec<Obs> = Vec::with_capacity(reads.len());
    let mut class_hist: BTreeMap<String, u64> = BTreeMap::new();
    let mut lag_reads: Vec<Rd> = Vec::new();
    let mut lag_obs: Vec<Obs> = Vec::new();
    // keys that had a commit before the last operation which is not their latest commit any more
    let mut replaced = [false; 3];
    let lagging = before.as_ref().map(|(b, book_before)| {
        for k in 0..3usize {
            replaced[k] = match (&book_before.latest[k], &wb.latest[k]) {
                (Some(old), Some(new)) => old.token != new.token,
                (Some(_), None) => true,
                (None, _) => false,
            };
        }
        let then = crate::lag::Then::new(b.clone(), inner.clone());
        let l = build(wrap, then.clone());
        (then, l)
    });
    for rd in &reads {
        let ro = battery::exec(reference.as_ref(), &rb, rd).await;
        // Every get / head / ranged get with every condition on a key whose
        // commit the last operation replaced or removed, also through a
        // LAGGING instance: one whose metadata cache holds the key's previous
        // commit. It got there by reading the key (head) while the backend
        // showed the content before the last operation - again before every
        // request, since the first read that goes for the payload heals the
        // cache. It answers like the reference does now, or it refuses the
        // request exactly as the commit it has cached decides it
        // (preconditions, range validity: cache lag, by design). A request
        // it does not refuse goes for the payload, finds the cached
        // generation gone and must be answered - conditions included - from
        // the current commit.
        // Likewise get_ranges calls the reference answers with bytes (all
        // ranges inside the current object): refused only when a range is
        // invalid for the size of the cached commit.
        let lag_key: Option<u8> = match rd {
            Rd::Get(g)
                if lag_all
                    || g.im.is_some()
                    || g.inm.is_some()
                    || g.ims.is_some()
                    || g.ius.is_some()
                    || !matches!(g.range, Some(Rng::B(a, b)) if a < b) =>
            {
                Some(g.key)
            }
            Rd::Ranges { key: k, rs }
                if (lag_all || rs.len() >= 3)
                    && lens[*k as usize].is_some_and(|len| rs.iter().all(|(a, b)| a < b && *b <= len)) =>
            {
                Some(*k)
            }
            _ => None,
        };
        if let (Some(k), Some((then, l))) = (lag_key, &lagging)
            && replaced[k as usize]
        {
            then.show_before(true);
            let cached: Option<Commit> = observe(l.as_ref(), k).await.ok();
            then.show_before(false);
            let wo = battery::exec(l.as_ref(), &wb, rd).await;
            out.lag_reads += 1;
            if let Some(what) = battery::differs(&ro, &wo) {
                let on_cached = cached.as_ref().and_then(|c| match rd {
                    Rd::Get(g) => battery::decided_on_commit(&wb, g, c),
                    Rd::Ranges { rs, .. } if rs.iter().any(|(a, b)| *a >= c.size || *b > c.size) => Some(Class::Other),
                    _ => None,
                });
                if wo.class() != Class::Ok && on_cached == Some(wo.class()) {
                    out.lag_refused_on_cached_commit += 1;
                } else {
                    out.violations.push(viol(
                        wrap,
                        hist,
                        clock,
                        "lagging-read",
                        &format!("{}/{}/{}", rd.kind(), shape(rd, &lens), what),
                        format!(
                            "an instance that read {} before the last operation: {} differs from the reference in {what}: impl {:?} {} {:?} / ref {:?} {} {:?}; decided on the commit it had cached: {:?}",
                            KEYS[k as usize],
                            serde_json::to_string(rd).unwrap_or_default(),
                            wo.class(),
                            wo.err,
                            wo.bodies.iter().map(|b| b.len()).collect::<Vec<_>>(),
                            ro.class(),
                            ro.err,
                            ro.bodies.iter().map(|b| b.len()).collect::<Vec<_>>(),
                            on_cached
                        ),
                    ));
                }
            }
            lag_reads.push(rd.clone());
            lag_obs.push(wo);
        }
        for (name, store, sink) in [("warm", &warm, &mut warm_obs), ("cold", &cold, &mut cold_obs)] {
            let wo = battery::exec(store.as_ref(), &wb, rd).await;
            out.reads += 1;
            if let Some(what) = battery::differs(&ro, &wo) {
                let sh = shape(rd, &lens);
                out.violations.push(viol(
                    wrap,
                    hist,
                    clock,
                    "read",
                    &format!("{}/{}/{}", rd.kind(), sh, what),
                    format!(
                        "{name} cache: {} differs from the reference in {what}: impl {:?} {} {:?} / ref {:?} {} {:?}",
                        serde_json::to_string(rd).unwrap_or_default(),
                        wo.class(),
                        wo.err,
                        wo.bodies.iter().map(|b| b.len()).collect::<Vec<_>>(),
                        ro.class(),
                        ro.err,
                        ro.bodies.iter().map(|b| b.len()).collect::<Vec<_>>()
                    ),
                ));
            }
            sink.push(wo);
        }
        if want_sample {
            *class_hist.entry(format!("{:?}", ro.class())).or_insert(0) += 1;
        }
    }
    for (name, obs) in [("warm", &warm_obs), ("cold", &cold_obs)] {
        if let Some(bad) = battery::consistency(&wb, &reads, obs) {
            out.violations.push(viol(
                wrap,
                hist,
                clock,
                "commit-consistency",
                &format!("{}/{}", bad.read, bad.field),
                format!("{name} cache: {}", bad.text),
            ));
        }
    }

    // whatever the lagging instance answered with metadata describes the latest commit
    if let Some(bad) = battery::consistency(&wb, &lag_reads, &lag_obs) {
        out.violations.push(viol(
            wrap,
            hist,
            clock,
            "commit-consistency",
            &format!("lagging/{}/{}", bad.read, bad.field),
            format!("lagging instance: {}", bad.text),
        ));
    }

    // canonical state: reference content + shape of each key's token chain
    let mut sk = String::new();
    for k in 0..3u8 {
        let c = match reference.get(&key(k)).await {
            Ok(r) => match r.bytes().await {
                Ok(b) => format!("{}:{:016x}", b.len(), util::fnv64(&b)),
                Err(_) => "?".into(),
            },
            Err(_) => "-".into(),
        };
        sk.push_str(&format!("{}={}#{};", KEYS[k as usize], c, rb.chain[k as usize].len().min(2)));
    }
    out.state_key = sk;
    out.ok = true;
    // one violation per signature per history is enough (the first one)
    let mut sigs = HashSet::new();
    out.violations.retain(|v| sigs.insert(v.signature.clone()));
    if want_sample {
        out.sample = Some(json!({
            "wrapper": wrap.label(),
            "history": hist.iter().map(|o| o.short()).collect::<Vec<_>>(),
            "last_op_reference_class": out.last_class.map(|c| format!("{c:?}")),
            "reads_compared_warm_and_cold": out.reads,
            "reference_answer_classes": class_hist,
            "state_after": out.state_key,
        }));
    }
    out.book = rb;
    out
}

/// Applies `op` to one store and keeps that store's token book up to date
/// (used by the parts that run a wrapper without a reference next to it).
pub async fn apply_tracked(store: &dyn object_store::ObjectStore, book: &mut Book, op: &Op) -> OpOut {
    let out = apply(store, book, op).await;
    if out.class != Class::Ok {
        return out;
    }
    let commit_key: Option<u8> = match op {
        Op::Put { key, .. } => Some(*key),
        Op::Multi { key, abort: false, .. } => Some(*key),
        Op::Copy { to, .. } => Some(*to),
        Op::Rename { from, to, .. } if from != to => Some(*to),
        _ => None,
    };
    if let Some(k) = commit_key
        && let Ok(c) = observe(store, k).await
    {
        book.commit(k, c);
    }
    match op {
        Op::Rename { from, to, .. } if from != to => book.remove(*from),
        Op::Delete { key } => book.remove(*key),
        _ => {}
    }
    out
}

// ---------------------------------------------------------------------------
// light mode: long / two-instance histories without the read battery

#[derive(Default)]
pub struct LightOut {
    pub violations: Vec<Violation>,
    pub ops: u64,
    pub reads: u64,
    pub tokens: Vec<u128>,
    pub tolerated: BTreeMap<&'static str, u64>,
    /// (last op shape, its reference class, final reference content) for the distinct counter
    pub outcome: String,
}

/// Runs a history whose i-th operation is issued through wrapper instance
/// `who[i]` (0 or 1; both instances live over the same inner store for the
/// whole history and keep their own metadata cache), next to ONE reference
/// store receiving every operation. Checked: every mutation answers with the
/// reference's class (the write-side decisions — Update / Create / copy and
/// rename target modes — must never use a lagging cache), the direct CAS /
/// create rule, token freshness of every commit (observed through a fresh
/// instance, so the observation itself is never stale), and the final
/// content of every key read through a fresh instance. Reads through the two
/// long-lived instances are NOT compared: a second instance's cache may lag
/// by design (cache TTL, single-writer contract).
pub fn run_light(wrap: Wrap, hist: &[Op], who: &[u8], clock: u64) -> LightOut {
    let r = std::panic::catch_unwind(std::panic::AssertUnwindSafe(|| {
        util::block_on(run_light_async(wrap, hist, who, clock))
    }));
    match r {
        Ok(out) => out,
        Err(p) => {
            let text = p
                .downcast_ref::<String>()
                .cloned()
                .or_else(|| p.downcast_ref::<&str>().map(|s| s.to_string()))
                .unwrap_or_default();
            let mut out = LightOut::default();
            out.violations.push(lviol(wrap, hist, who, clock, "panic", "during-history", format!("panicked: {text}")));
            out
        }
    }
}

fn lviol(wrap: Wrap, hist: &[Op], who: &[u8], clock: u64, category: &str, detail: &str, text: String) -> Violation {
    let two = who.contains(&1);
    Violation {
        signature: format!(
            "C07/hist/{}/{}{}/{}",
            wrap.kind(),
            if two { "two-instances/" } else { "long/" },
            category,
            detail
        ),
        summary: format!(
            "{}: [{}]: {}",
            wrap.label(),
            hist.iter()
                .zip(who)
                .map(|(o, w)| if two { format!("{}.{}", ["A", "B"][*w as usize], o.short()) } else { o.short() })
                .collect::<Vec<_>>()
                .join("; "),
            text
        ),
        replay: json!({"wrap": wrap, "history": hist, "who": who, "clock": clock, "mode": "light"}),
    }
}

async fn run_light_async(wrap: Wrap, hist: &[Op], who: &[u8], clock: u64) -> LightOut {
    anda_db_utils::verif::set_clock(Some((clock, CLOCK_STEP_MS)));
    let mut out = LightOut::default();
    let reference: Arc<InMemory> = Arc::new(InMemory::new());
    let inner: Arc<InMemory> = Arc::new(InMemory::new());
    let inst = [build(wrap, inner.clone()), build(wrap, inner.clone())];
    let two = who.contains(&1);
    let mut rb = Book::default();
    let mut wb = Book::default();
    let mut seen: HashSet<String> = HashSet::new();
    let mut last = String::new();
    let mut newest: Option<(chrono::DateTime<chrono::Utc>, String)> = None;
    for (i, op) in hist.iter().enumerate() {
        let (upto, wupto) = (&hist[..=i], &who[..=i]);
        let present = rb.present(op.target());
        let store = &inst[who[i] as usize];
        let self_rename_ow = matches!(op, Op::Rename { from, to, create: false } if from == to) && present;
        let r = if self_rename_ow {
            *out.tolerated.entry("self_rename_reference_would_destroy_object").or_insert(0) += 1;
            OpOut::synthetic(Class::Ok)
        } else {
            apply(reference.as_ref(), &rb, op).await
        };
        let w = apply(store.as_ref(), &wb, op).await;
        out.ops += 1;
        last = format!("{}:{:?}", op.kind(), r.class);
        if r.class != w.class {
            if let Some(name) = tolerated_op(op, present, &r, &w) {
                *out.tolerated.entry(name).or_insert(0) += 1;
            } else {
                out.violations.push(lviol(
                    wrap,
                    upto,
                    wupto,
                    clock,
                    "op-class",
                    &format!("{}/ref={:?}/impl={:?}", op.kind(), r.class, w.class),
                    format!("{} answered {:?} ({}) but the reference answered {:?} ({})", op.short(), w.class, w.err, r.class, r.err),
                ));
                return out;
            }
        }
        if let Op::Put { mode, .. } = op {
            let must = match mode {
                Mode::Create => Some(!present),
                Mode::Update(t) => Some(present && *t == Tok::Latest),
                Mode::Overwrite => None,
            };
            if let Some(exp) = must
                && (w.class == Class::Ok) != exp
            {
                out.violations.push(lviol(
                    wrap,
                    upto,
                    wupto,
                    clock,
                    "cas",
                    &format!("{}/expected-success={}/impl={:?}", op.kind(), exp, w.class),
                    format!("{} answered {:?}; key present={}, token role={:?}", op.short(), w.class, present, mode),
                ));
                return out;
            }
        }
        if !(r.class == Class::Ok && w.class == Class::Ok) {
            continue;
        }
        let commit_key: Option<u8> = match op {
            Op::Put { key, .. } => Some(*key),
            Op::Multi { key, abort: false, .. } => Some(*key),
            Op::Copy { to, .. } => Some(*to),
            Op::Rename { from, to, .. } if from != to => Some(*to),
            _ => None,
        };
        if let Some(k) = commit_key {
            rb.commit(k, observe(reference.as_ref(), k).await.expect("reference head after commit"));
            // observe through a fresh instance: never a lagging cache
            let observer = if two { build(wrap, inner.clone()) } else { store.clone() };
            out.reads += 1;
            match observe(observer.as_ref(), k).await {
                Err(e) => {
                    out.violations.push(lviol(
                        wrap,
                        upto,
                        wupto,
                        clock,
                        "head-after-commit",
                        &op.kind(),
                        format!("head({}) right after a successful {} failed: {e}", KEYS[k as usize], op.short()),
                    ));
                    return out;
                }
                Ok(wc) => {
                    if matches!(op, Op::Put { .. } | Op::Multi { .. }) && (w.etag.is_none() || w.etag != wc.token) {
                        out.violations.push(lviol(
                            wrap,
                            upto,
                            wupto,
                            clock,
                            "put-result-token",
                            &op.kind(),
                            format!("{} returned token {:?} but head reports {:?}", op.short(), w.etag, wc.token),
                        ));
                        return out;
                    }
                    let tok = wc.token.clone().unwrap_or_default();
                    if wc.token.is_none() || !seen.insert(tok.clone()) {
                        out.violations.push(lviol(
                            wrap,
                            upto,
                            wupto,
                            clock,
                            "token-reuse",
                            &op.kind(),
                            format!(
                                "commit of {} by {} carries token {:?}, which an earlier commit of this history already carried (or none)",
                                KEYS[k as usize],
                                op.short(),
                                wc.token
                            ),
                        ));
                        return out;
                    }
                    out.tokens.push(h128(tok.as_bytes()));
                    if let Some((prev, by)) = &newest
                        && wc.lm < *prev
                    {
                        out.violations.push(lviol(
                            wrap,
                            upto,
                            wupto,
                            clock,
                            "last_modified-before-earlier-commit",
                            &op.kind(),
                            format!(
                                "the commit of {} by {} reports last_modified {}, earlier than {} reported by the earlier commit {}",
                                KEYS[k as usize],
                                op.short(),
                                wc.lm.timestamp_millis(),
                                prev.timestamp_millis(),
                                by
                            ),
                        ));
                        return out;
                    }
                    newest = Some((wc.lm, op.short()));
                    wb.commit(k, wc);
                }
            }
        }
        match op {
            Op::Rename { from, to, .. } if from != to => {
                rb.remove(*from);
                wb.remove(*from);
            }
            Op::Delete { key } => {
                rb.remove(*key);
                wb.remove(*key);
            }
            _ => {}
        }
    }
    // final content through a fresh instance
    let cold = build(wrap, inner.clone());
    let mut fin = String::new();
    for k in 0..3u8 {
        let get = |s: Arc<dyn object_store::ObjectStore>| async move {
            match s.get(&key(k)).await {
                Ok(r) => r.bytes().await.map(|b| Some(b.to_vec())).map_err(|e| e.to_string()),
                Err(object_store::Error::NotFound { .. }) => Ok(None),
                Err(e) => Err(e.to_string()),
            }
        };
        let r = get(reference.clone()).await;
        let w = get(cold.clone()).await;
        out.reads += 1;
        if r != w {
            out.violations.push(lviol(
                wrap,
                hist,
                who,
                clock,
                "final-content",
                "differs",
                format!(
                    "a fresh instance reads {} as {:?} but the reference holds {:?}",
                    KEYS[k as usize],
                    w.as_ref().map(|o| o.as_ref().map(|b| b.len())),
                    r.as_ref().map(|o| o.as_ref().map(|b| b.len()))
                ),
            ));
            break;
        }
        fin.push_str(&match r {
            Ok(Some(b)) => format!("{}:{:08x};", b.len(), util::fnv64(&b) as u32),
            _ => "-;".into(),
        });
    }
    out.outcome = format!("{last}|{fin}");
    out
}

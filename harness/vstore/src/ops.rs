//! The mutation alphabet of C07, the per-store token book and the code that
//! applies one operation to one store.

use crate::fix::{Class, class_res, err_text, key, payload};
use chrono::{DateTime, Utc};
use object_store::{
    CopyMode, CopyOptions, ObjectStore, ObjectStoreExt, PutMode, PutMultipartOptions, PutOptions, PutPayload,
    RenameOptions, RenameTargetMode, UpdateVersion,
};
use serde::{Deserialize, Serialize};

/// Which token a conditional update presents.
#[derive(Clone, Copy, Debug, PartialEq, Eq, Hash, Serialize, Deserialize)]
pub enum Tok {
    /// the token returned by the latest commit of this key (for an absent
    /// key: the token of the commit that was deleted, if any)
    Latest,
    /// a token an earlier commit of this key returned
    Stale,
    /// the latest token of another key
    Other,
    /// a string no commit ever returned
    Fab,
    /// `UpdateVersion { e_tag: None }`
    Missing,
    // ---- strings that are NOT the latest token but would match it under
    // looser-than-equality rules (the `if_match` header grammar, trimming,
    // validator quoting). A conditional update is a compare-and-swap on the
    // exact token: the reference store compares strings.
    /// the literal `*`
    Star,
    /// `"<stale>, <latest>"` (a comma list that contains the latest token)
    ListStaleLatest,
    /// `" <latest> "`
    Padded,
    /// `"<latest>,"`
    LatestComma,
    /// the empty string
    Empty,
    /// `"\"<latest>\""` (strong-validator spelling)
    Quoted,
    /// `W/"<latest>"` (weak-validator spelling)
    Weak,
}

/// The token roles of [`Tok`] beyond the basic five: near misses of the
/// latest token.
pub const ODD_TOKENS: [Tok; 7] =
    [Tok::Star, Tok::ListStaleLatest, Tok::Padded, Tok::LatestComma, Tok::Empty, Tok::Quoted, Tok::Weak];

#[derive(Clone, Copy, Debug, PartialEq, Eq, Hash, Serialize, Deserialize)]
pub enum Mode {
    Create,
    Overwrite,
    Update(Tok),
}

#[derive(Clone, Debug, PartialEq, Eq, Hash, Serialize, Deserialize)]
pub enum Op {
    Put { key: u8, size: u32, var: u8, mode: Mode },
    /// multipart upload of `payload(sum(parts), var)` split into `parts`
    Multi { key: u8, parts: Vec<u32>, var: u8, abort: bool },
    Copy { from: u8, to: u8, create: bool },
    Rename { from: u8, to: u8, create: bool },
    Delete { key: u8 },
}

impl Op {
    /// Stable shape label (no sizes, no keys) used in violation signatures.
    pub fn kind(&self) -> String {
        match self {
            Op::Put { mode, .. } => match mode {
                Mode::Create => "put-create".into(),
                Mode::Overwrite => "put-overwrite".into(),
                Mode::Update(t) => format!("put-update-{t:?}").to_lowercase(),
            },
            Op::Multi { abort, .. } => if *abort { "multipart-abort" } else { "multipart" }.into(),
            Op::Copy { from, to, create } => format!(
                "copy-{}{}",
                if *create { "create" } else { "overwrite" },
                if from == to { "-self" } else { "" }
            ),
            Op::Rename { from, to, create } => format!(
                "rename-{}{}",
                if *create { "create" } else { "overwrite" },
                if from == to { "-self" } else { "" }
            ),
            Op::Delete { .. } => "delete".into(),
        }
    }

    /// The key whose content a successful run of this op changes.
    pub fn target(&self) -> u8 {
        match self {
            Op::Put { key, .. } | Op::Multi { key, .. } | Op::Delete { key } => *key,
            Op::Copy { to, .. } | Op::Rename { to, .. } => *to,
        }
    }

    pub fn short(&self) -> String {
        use crate::fix::KEYS;
        match self {
            Op::Put { key, size, var, mode } => format!("put({}, {}B v{}, {:?})", KEYS[*key as usize], size, var, mode),
            Op::Multi { key, parts, var, abort } => format!(
                "multipart({}, parts {:?} v{}{})",
                KEYS[*key as usize],
                parts,
                var,
                if *abort { ", abort" } else { "" }
            ),
            Op::Copy { from, to, create } => format!(
                "copy({} -> {}, {})",
                KEYS[*from as usize],
                KEYS[*to as usize],
                if *create { "Create" } else { "Overwrite" }
            ),
            Op::Rename { from, to, create } => format!(
                "rename({} -> {}, {})",
                KEYS[*from as usize],
                KEYS[*to as usize],
                if *create { "Create" } else { "Overwrite" }
            ),
            Op::Delete { key } => format!("delete({})", KEYS[*key as usize]),
        }
    }
}

/// What a store reported for the latest commit of a key.
#[derive(Clone, Debug, PartialEq, Eq)]
pub struct Commit {
    pub token: Option<String>,
    pub size: u64,
    pub lm: DateTime<Utc>,
}

/// Per-store record of the tokens its commits returned. One book per store
/// (the reference has its own), so token *values* are never compared across
/// stores — only their roles (latest / stale / other key's).
#[derive(Clone, Debug, Default)]
pub struct Book {
    pub latest: [Option<Commit>; 3],
    /// every token each key ever had, oldest first (the latest is last while
    /// the key is present)
    pub chain: [Vec<String>; 3],
}

impl Book {
    pub fn present(&self, k: u8) -> bool {
        self.latest[k as usize].is_some()
    }
    pub fn tok_latest(&self, k: u8) -> Option<String> {
        self.chain[k as usize].last().cloned()
    }
    pub fn tok_stale(&self, k: u8) -> Option<String> {
        let c = &self.chain[k as usize];
        if c.len() >= 2 { Some(c[c.len() - 2].clone()) } else { None }
    }
    pub fn tok_other(&self, k: u8) -> Option<String> {
        (0..3u8)
            .filter(|o| *o != k)
            .find_map(|o| self.latest[o as usize].as_ref().and_then(|c| c.token.clone()))
    }
    /// Resolves a symbolic token to the string presented to the store;
    /// `None` = no e_tag in the request.
    pub fn resolve(&self, k: u8, t: Tok) -> Option<String> {
        match t {
            Tok::Latest => Some(self.tok_latest(k).unwrap_or_else(|| "never-had-a-token".into())),
            Tok::Stale => Some(self.tok_stale(k).unwrap_or_else(|| "no-stale-token".into())),
            Tok::Other => Some(self.tok_other(k).unwrap_or_else(|| "no-other-token".into())),
            Tok::Fab => Some("fabricated-token".into()),
            Tok::Missing => None,
            Tok::Star => Some("*".into()),
            Tok::Empty => Some(String::new()),
            Tok::ListStaleLatest | Tok::Padded | Tok::LatestComma | Tok::Quoted | Tok::Weak => {
                let latest = self.tok_latest(k).unwrap_or_else(|| "never-had-a-token".into());
                Some(match t {
                    Tok::ListStaleLatest => {
                        format!("{}, {latest}", self.tok_stale(k).unwrap_or_else(|| "no-stale-token".into()))
                    }
                    Tok::Padded => format!(" {latest} "),
                    Tok::LatestComma => format!("{latest},"),
                    Tok::Quoted => format!("\"{latest}\""),
                    _ => format!("W/\"{latest}\""),
                })
            }
        }
    }
    /// Records that key `k` got a new commit / was removed.
    pub fn commit(&mut self, k: u8, c: Commit) {
        if let Some(t) = &c.token {
            self.chain[k as usize].push(t.clone());
        }
        self.latest[k as usize] = Some(c);
    }
    pub fn remove(&mut self, k: u8) {
        self.latest[k as usize] = None;
    }
}

#[derive(Clone, Debug)]
pub struct OpOut {
    pub class: Class,
    pub err: String,
    /// e_tag / version of the PutResult (puts and multipart completes)
    pub etag: Option<String>,
    pub version: Option<String>,
}

impl OpOut {
    fn of<T>(r: &object_store::Result<T>) -> OpOut {
        OpOut { class: class_res(r), err: err_text(r), etag: None, version: None }
    }
    pub fn synthetic(class: Class) -> OpOut {
        OpOut { class, err: String::new(), etag: None, version: None }
    }
}

pub fn split_parts(total: &bytes::Bytes, parts: &[u32]) -> Vec<PutPayload> {
    let mut out = Vec::new();
    let mut at = 0usize;
    for p in parts {
        let end = at + *p as usize;
        out.push(PutPayload::from(total.slice(at..end)));
        at = end;
    }
    out
}

/// Applies one operation to one store. All calls go through the `*_opts`
/// trait methods of `ObjectStore`.
pub async fn apply(store: &dyn ObjectStore, book: &Book, op: &Op) -> OpOut {
    match op {
        Op::Put { key: k, size, var, mode } => {
            let mode = match mode {
                Mode::Create => PutMode::Create,
                Mode::Overwrite => PutMode::Overwrite,
                Mode::Update(t) => PutMode::Update(UpdateVersion { e_tag: book.resolve(*k, *t), version: None }),
            };
            let r = store
                .put_opts(
                    &key(*k),
                    PutPayload::from(payload(*size as usize, *var)),
                    PutOptions { mode, ..Default::default() },
                )
                .await;
            let mut out = OpOut::of(&r);
            if let Ok(p) = r {
                out.etag = p.e_tag;
                out.version = p.version;
            }
            out
        }
        Op::Multi { key: k, parts, var, abort } => {
            let total: u32 = parts.iter().sum();
            let data = payload(total as usize, *var);
            let up = store.put_multipart_opts(&key(*k), PutMultipartOptions::default()).await;
            let mut up = match up {
                Ok(u) => u,
                Err(e) => return OpOut::of::<()>(&Err(e)),
            };
            for p in split_parts(&data, parts) {
                if let Err(e) = up.put_part(p).await {
                    return OpOut::of::<()>(&Err(e));
                }
            }
            if *abort {
                let r = up.abort().await;
                return OpOut::of(&r);
            }
            let r = up.complete().await;
            let mut out = OpOut::of(&r);
            if let Ok(p) = r {
                out.etag = p.e_tag;
                out.version = p.version;
            }
            out
        }
        Op::Copy { from, to, create } => {
            let mode = if *create { CopyMode::Create } else { CopyMode::Overwrite };
            let r = store
                .copy_opts(&key(*from), &key(*to), CopyOptions { mode, ..Default::default() })
                .await;
            OpOut::of(&r)
        }
        Op::Rename { from, to, create } => {
            let target_mode = if *create { RenameTargetMode::Create } else { RenameTargetMode::Overwrite };
            let r = store
                .rename_opts(&key(*from), &key(*to), RenameOptions { target_mode, ..Default::default() })
                .await;
            OpOut::of(&r)
        }
        Op::Delete { key: k } => {
            let r = store.delete(&key(*k)).await;
            OpOut::of(&r)
        }
    }
}

fn dedup_sorted(mut v: Vec<u64>) -> Vec<u64> {
    v.sort();
    v.dedup();
    v
}

/// Payload sizes around the chunk boundaries.
pub fn sizes(cs: u64) -> Vec<u64> {
    dedup_sorted(vec![0, 1, cs - 1, cs, cs + 1, 2 * cs, 2 * cs + 1])
}

/// The operation alphabet for chunk size `cs`. The CORE alphabet (used at
/// every position of a history) holds every mode / token / copy / rename /
/// delete shape with two same-sized payloads A, B (plus the empty object);
/// FULL (used at the last position) adds every payload size and every
/// multipart split.
pub fn alphabet(cs: u64, full: bool) -> Vec<Op> {
    let c = cs as u32;
    let a = c + 1; // size of payloads A (var 0) and B (var 1)
    let mut out = Vec::new();
    for k in 0..3u8 {
        out.push(Op::Put { key: k, size: a, var: 0, mode: Mode::Create });
        out.push(Op::Put { key: k, size: a, var: 0, mode: Mode::Overwrite });
        out.push(Op::Put { key: k, size: a, var: 1, mode: Mode::Overwrite });
        out.push(Op::Put { key: k, size: 0, var: 0, mode: Mode::Overwrite });
        for t in [Tok::Latest, Tok::Stale, Tok::Other, Tok::Fab, Tok::Missing] {
            out.push(Op::Put { key: k, size: a, var: 1, mode: Mode::Update(t) });
        }
        out.push(Op::Multi { key: k, parts: vec![1, c - 1, c + 1], var: 0, abort: false });
        out.push(Op::Multi { key: k, parts: vec![c - 1, 2], var: 1, abort: true });
    }
    for create in [false, true] {
        for from in 0..3u8 {
            for to in 0..3u8 {
                out.push(Op::Copy { from, to, create });
            }
        }
    }
    for create in [false, true] {
        for from in 0..3u8 {
            for to in 0..3u8 {
                out.push(Op::Rename { from, to, create });
            }
        }
    }
    for k in 0..3u8 {
        out.push(Op::Delete { key: k });
    }
    if full {
        for k in 0..3u8 {
            for s in sizes(cs) {
                if s as u32 != a && s != 0 {
                    out.push(Op::Put { key: k, size: s as u32, var: 0, mode: Mode::Overwrite });
                }
            }
            out.push(Op::Put { key: k, size: 0, var: 0, mode: Mode::Create });
            out.push(Op::Put { key: k, size: 2 * c, var: 0, mode: Mode::Create });
            out.push(Op::Put { key: k, size: 0, var: 0, mode: Mode::Update(Tok::Latest) });
            out.push(Op::Put { key: k, size: 2 * c + 1, var: 1, mode: Mode::Update(Tok::Latest) });
            let splits: Vec<Vec<u32>> = vec![
                vec![c + 1],
                vec![c - 1, 2],
                vec![c, 1],
                vec![c + 1, c],
                vec![],
                vec![c - 1],
                vec![2 * c],
                vec![0, c + 1],
            ];
            for parts in splits {
                out.push(Op::Multi { key: k, parts, var: 0, abort: false });
            }
        }
    }
    let mut seen = std::collections::HashSet::new();
    out.retain(|o| seen.insert(o.clone()));
    out
}

/// Conditional updates presenting each near miss of the latest token
/// ([`ODD_TOKENS`]) on every key; used at the last position of a history
/// (on a conforming store they commit nothing, so nothing follows from them).
pub fn odd_token_updates(cs: u64) -> Vec<Op> {
    let a = cs as u32 + 1;
    let mut out = Vec::new();
    for k in 0..3u8 {
        for t in ODD_TOKENS {
            out.push(Op::Put { key: k, size: a, var: 1, mode: Mode::Update(t) });
        }
    }
    out
}

/// An op is skipped when its symbolic token cannot be told apart from the
/// fabricated one in the current state (no stale token yet / no other key).
pub fn applicable(op: &Op, book: &Book) -> bool {
    match op {
        Op::Put { key, mode: Mode::Update(Tok::Stale), .. } => book.tok_stale(*key).is_some(),
        Op::Put { key, mode: Mode::Update(Tok::Other), .. } => book.tok_other(*key).is_some(),
        _ => true,
    }
}

/// Observes what the store now reports for key `k` (head).
pub async fn observe(store: &dyn ObjectStore, k: u8) -> object_store::Result<Commit> {
    let m = store.head(&key(k)).await?;
    Ok(Commit { token: m.e_tag, size: m.size, lm: m.last_modified })
}

//! Shared helpers for the vstore check parts.

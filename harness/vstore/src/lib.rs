//! Shared helpers for the vstore check parts (C07, C09): fixtures over
//! `anda_object_store`'s two wrappers, the operation alphabet, the read
//! battery and the comparison with the plain `InMemory` reference store.

pub mod attrs;
pub mod battery;
pub mod config;
pub mod derive;
pub mod fix;
pub mod hist;
pub mod lag;
pub mod ops;
pub mod tamper;

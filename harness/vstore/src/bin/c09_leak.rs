//! C09 / leak — nothing the encrypted store writes to the backend contains
//! the plaintext, and no chunk nonce is used for two different chunks under
//! the one encryption key.
//!
//! Every operation history CORE* . FULL+ (C07's alphabet plus larger
//! payloads) is run through an `EncryptedStore` over a journalling backend;
//! every object the backend ever received (payload generations and metadata
//! documents, replaced ones included) is scanned for 8-byte windows of every
//! plaintext written, and the nonce of every chunk is re-derived from the
//! metadata documents (`n` + chunk index) and collected in one set for the
//! whole run. A last phase scripts the entropy draws of every nonce-drawing
//! writer and decides that each chunk and seal nonce is a function of one
//! full 96-bit draw (see `entropy_phase`).
//!
//! Public derivability (`vstore::derive`): every field of every metadata
//! document the backend receives is a size, a clock value, a constant, an
//! entropy draw, or is recomputed by the harness from bytes the backend
//! holds (`e` from n and the STORED ciphertext, the seal from the key path
//! and the other fields); under a fixed clock and scripted entropy two runs
//! that differ only in plaintext content differ only in ciphertext, tags and
//! the fields recomputed from those; no digest of a plaintext stretch occurs
//! anywhere in the backend.

use object_store::ObjectStore;
use serde_json::json;
use std::collections::{BTreeMap, HashMap};
use std::sync::Arc;
use vcore::ctlstore::{Content, CtlStore, Mutation, apply as apply_mutation};
use vcore::{Run, Tier, Violation, util};
use vstore::fix::{Wrap, build, payload};
use vstore::hist::apply_tracked;
use vstore::ops::{Book, Mode, Op, alphabet, applicable};
use vstore::derive::{self, Basis, DigestNet, DocInput};
use vstore::tamper::{chunk_nonce, get_field, harness_cipher, open_chunk_under, open_chunk_with};

const WINDOW: usize = 8;

#[derive(Default)]
struct HistOut {
    /// (chunk nonce, hash of ciphertext chunk + tag)
    nonces: Vec<(u128, u64)>,
    seal_nonces: Vec<u128>,
    objects_scanned: u64,
    bytes_scanned: u64,
    windows_checked: u64,
    meta_docs: u64,
    chunks: u64,
    chunks_opened: u64,
    violations: Vec<Violation>,
    sample: Option<serde_json::Value>,
    /// every metadata document version the backend received, in journal order
    docs: Vec<DocSeen>,
    /// scripted entropy answers still queued when the history ended
    entropy_left: usize,
    /// every mutation the backend received, in order
    journal: Vec<Mutation>,
    /// metadata fields found publicly derivable, by what they derive from
    fields_by_basis: BTreeMap<Basis, u64>,
    /// digests of plaintext stretches searched for (each in 5 spellings)
    digests_searched: u64,
    /// journal length after each operation of the history
    op_end: Vec<usize>,
}

/// The nonces one metadata document version carries.
#[derive(Clone, Debug, PartialEq, Eq)]
struct DocSeen {
    path: String,
    /// base nonce `n` of the chunks
    n: Vec<u8>,
    /// seal nonce `an`
    an: Option<Vec<u8>>,
    chunks: u64,
}

fn plaintexts(hist: &[Op]) -> Vec<bytes::Bytes> {
    let mut out = Vec::new();
    for op in hist {
        match op {
            Op::Put { size, var, .. } => out.push(payload(*size as usize, *var)),
            Op::Multi { parts, var, .. } => out.push(payload(parts.iter().sum::<u32>() as usize, *var)),
            _ => {}
        }
    }
    out.retain(|p| p.len() >= WINDOW);
    out
}

/// The document without its `at` field (the tag is an output of the seal).
fn strip_seal_tag(doc: &[u8]) -> cbor2::Value {
    let mut v = vstore::tamper::decode(doc);
    if let cbor2::Value::Map(m) = &mut v {
        m.retain(|(k, _)| !matches!(k, cbor2::Value::Text(t) if t == "at"));
    }
    v
}

fn bytes_of(v: Option<cbor2::Value>) -> Option<Vec<u8>> {
    match v {
        Some(cbor2::Value::Bytes(b)) => Some(b),
        _ => None,
    }
}

fn run_history(wrap: Wrap, hist: &[Op], clock: u64, want_sample: bool) -> HistOut {
    run_history_scripted(wrap, hist, clock, want_sample, &[])
}

/// [`run_history_scripted`] that also hands back the backend journal.
fn run_history_journalled(wrap: Wrap, hist: &[Op], clock: u64, script: &[Vec<u8>]) -> HistOut {
    KEEP_JOURNAL.with(|k| k.set(true));
    let out = run_history_scripted(wrap, hist, clock, false, script);
    KEEP_JOURNAL.with(|k| k.set(false));
    out
}

thread_local! {
    static KEEP_JOURNAL: std::cell::Cell<bool> = const { std::cell::Cell::new(false) };
}

/// `script`: answers for the 12-byte entropy draws of the store, in order
/// (hook `anda_db_utils::verif::push_entropy`; an exhausted or empty script
/// means the real generator).
fn run_history_scripted(wrap: Wrap, hist: &[Op], clock: u64, want_sample: bool, script: &[Vec<u8>]) -> HistOut {
    anda_db_utils::verif::set_clock(Some((clock, 1000)));
    anda_db_utils::verif::clear_entropy();
    for e in script {
        anda_db_utils::verif::push_entropy(e.clone());
    }
    let mut out = HistOut::default();
    let (ctl_store, ctl) = CtlStore::new();
    let inner: Arc<dyn ObjectStore> = ctl_store.clone();
    let store = build(wrap, inner);
    let mut book = Book::default();
    // journal length after each operation: which operation issued which mutation
    let mut op_end: Vec<usize> = Vec::new();
    util::block_on(async {
        for op in hist {
            apply_tracked(store.as_ref(), &mut book, op).await;
            op_end.push(ctl.journal_len());
        }
    });
    let clock_reads = anda_db_utils::verif::peek_clock().map(|now| (now.saturating_sub(clock)) / 1000).unwrap_or(0);
    while anda_db_utils::verif::take_entropy(12).is_some() {
        out.entropy_left += 1;
    }
    anda_db_utils::verif::clear_entropy();
    let cipher = harness_cipher();
    let plains = plaintexts(hist);
    // every 8-byte window of every plaintext, built once per history
    let window_sets: Vec<std::collections::HashSet<&[u8]>> = plains.iter().map(|p| p.windows(WINDOW).collect()).collect();
    let all_plains: Vec<bytes::Bytes> = hist
        .iter()
        .filter_map(|op| match op {
            Op::Put { size, var, .. } => Some(payload(*size as usize, *var)),
            Op::Multi { parts, var, .. } => Some(payload(parts.iter().sum::<u32>() as usize, *var)),
            _ => None,
        })
        .collect();
    let viol = |what: &str, text: String| Violation {
        signature: format!("C09/leak/{what}"),
        summary: format!(
            "{}: after [{}]: {}",
            wrap.label(),
            hist.iter().map(|o| o.short()).collect::<Vec<_>>().join("; "),
            text
        ),
        replay: json!({"wrap": wrap, "history": hist, "clock": clock}),
    };
    let journal = ctl.journal();
    // secondary net: digests of plaintext stretches, bare or salted with any
    // nonce / generation name the backend holds, in any usual spelling
    let mut salts: Vec<Vec<u8>> = Vec::new();
    for e in &journal {
        if let Mutation::Put { path, data } = &e.mutation
            && path.starts_with("meta/")
        {
            for s in derive::public_salts(data) {
                if !salts.contains(&s) {
                    salts.push(s);
                }
            }
        }
    }
    // (objects of tens of thousands of one-byte chunks: whole plaintext, own salts only)
    let net = DigestNet::new(&all_plains, &salts, wrap.cs());
    out.digests_searched = net.digests;
    // replay the journal: everything the backend ever held
    let mut content = Content::new();
    for (ji, e) in journal.iter().enumerate() {
        let writer = op_end.iter().position(|end| ji < *end).map(|i| hist[i].kind()).unwrap_or_else(|| "unknown".into());
        let other_docs: Vec<bytes::Bytes> = match &e.mutation {
            Mutation::Put { path, .. } if path.starts_with("meta/") => {
                content.iter().filter(|(p, _)| p.starts_with("meta/")).map(|(_, d)| d.clone()).collect()
            }
            _ => vec![],
        };
        apply_mutation(&mut content, &e.mutation);
        let (path, data) = match &e.mutation {
            Mutation::Put { path, data } => (path.clone(), data.clone()),
            Mutation::Copy { to, .. } | Mutation::Rename { to, .. } => match content.get(to) {
                Some(d) => (to.clone(), d.clone()),
                None => continue,
            },
            Mutation::Delete { .. } => continue,
        };
        out.objects_scanned += 1;
        out.bytes_scanned += data.len() as u64;
        for (p, set) in plains.iter().zip(&window_sets) {
            out.windows_checked += (p.len() + 1 - WINDOW) as u64;
            if data.len() >= WINDOW && data.windows(WINDOW).any(|x| set.contains(x)) {
                out.violations.push(viol(
                    if path.starts_with("meta/") { "plaintext-in-metadata" } else { "plaintext-in-payload-object" },
                    format!("backend object {path} ({} bytes) contains {WINDOW} consecutive plaintext bytes", data.len()),
                ));
            }
        }
        if !net.is_empty() {
            for (hay, place) in [(data.as_ref(), if path.starts_with("meta/") { "metadata" } else { "payload-object" }), (path.as_bytes(), "object-name")] {
                if let Some(found) = net.scan(hay) {
                    out.violations.push(viol(
                        &format!("plaintext-digest-in-{place}/{writer}"),
                        format!("backend object {path}: its {place} contains the {found}: a key-less verifier of plaintext guesses"),
                    ));
                }
            }
        }
        if let Some(key) = path.strip_prefix("meta/")
            && matches!(e.mutation, Mutation::Put { .. })
        {
            // public derivability: every field is a size / clock value / constant /
            // entropy draw, or recomputable from bytes the backend holds
            let (ok, bad) = derive::check_doc(
                &DocInput {
                    key,
                    doc: &data,
                    other_docs: &other_docs,
                    after: &content,
                    cs: wrap.cs(),
                    clock: (clock, 1000, clock_reads),
                    script: if script.is_empty() { None } else { Some(script) },
                },
                &cipher,
            );
            for (_, b) in ok {
                *out.fields_by_basis.entry(b).or_insert(0) += 1;
            }
            for (field, why) in bad {
                out.violations.push(viol(
                    &format!("not-publicly-derivable/{field}/{writer}"),
                    format!("field `{field}` of {path}: {why}: it is not a size, clock value, constant or entropy draw and does not follow from bytes the backend holds"),
                ));
            }
        }
        if let Some(key) = path.strip_prefix("meta/") {
            out.meta_docs += 1;
            let n = bytes_of(get_field(&data, "n"));
            let tags = match get_field(&data, "t") {
                Some(cbor2::Value::Array(a)) => a,
                _ => vec![],
            };
            let cs = match get_field(&data, "c") {
                Some(cbor2::Value::Integer(i)) => u64::try_from(i).unwrap_or(wrap.cs()),
                _ => wrap.cs(),
            };
            let g = match get_field(&data, "g") {
                Some(cbor2::Value::Text(t)) => t,
                _ => String::new(),
            };
            let Some(n) = n else {
                out.violations.push(viol("metadata-without-nonce", format!("{path} carries no base nonce")));
                continue;
            };
            out.docs.push(DocSeen {
                path: path.clone(),
                n: n.clone(),
                an: bytes_of(get_field(&data, "an")),
                chunks: tags.len() as u64,
            });
            // the seal (GMAC over path + fields) runs under the same key: its
            // nonce joins the same set, identified by what it authenticates
            if let Some(an) = bytes_of(get_field(&data, "an"))
                && an.len() == 12
            {
                let mut x = [0u8; 16];
                x[..12].copy_from_slice(&an[..12]);
                out.seal_nonces.push(u128::from_le_bytes(x));
                // everything but the seal tag itself identifies the sealed message
                let mut sealed = b"seal:".to_vec();
                sealed.extend_from_slice(path.as_bytes());
                sealed.push(0);
                sealed.extend_from_slice(&vstore::tamper::encode(&strip_seal_tag(&data)));
                out.nonces.push((u128::from_le_bytes(x), util::fnv64(&sealed)));
            }
            let gen_path = format!("gen/{key}/{g}");
            let Some(ct) = content.get(&gen_path) else {
                out.violations.push(viol(
                    "commit-points-at-missing-payload",
                    format!("{path} was committed while {gen_path} is not in the backend"),
                ));
                continue;
            };
            let n_chunks = (ct.len() as u64).div_ceil(cs);
            if n_chunks != tags.len() as u64 {
                out.violations.push(viol(
                    "tag-count",
                    format!("{path}: {} tags for {} chunks of {cs} bytes", tags.len(), n_chunks),
                ));
            }
            for (i, tag) in tags.iter().enumerate() {
                let a = (i as u64 * cs) as usize;
                let b = ((i as u64 + 1) * cs).min(ct.len() as u64) as usize;
                if a > ct.len() {
                    break;
                }
                let mut h = ct[a..b].to_vec();
                if let cbor2::Value::Bytes(t) = tag {
                    h.extend_from_slice(t);
                }
                // the re-derived nonce must be the one the chunk was really
                // encrypted under: open it with the harness' own cipher
                let tag_bytes: &[u8] = if let cbor2::Value::Bytes(t) = tag { t } else { &[] };
                let mut real_nonce_idx = i as u64;
                match open_chunk_with(&cipher, &ct[a..b], &n, cs, i as u64, tag_bytes) {
                    None => {
                        // which counter value was it really encrypted under? try the
                        // index truncated to 8 / 16 / 32 bits, so that the nonce that
                        // was REALLY used enters the set and a repeat shows there too
                        let i64_ = i as u64;
                        for alt in [i64_ & 0xff, i64_ & 0xffff, i64_ & 0xffff_ffff] {
                            if alt != i64_ && open_chunk_under(&cipher, &ct[a..b], &n, cs, i64_, alt, tag_bytes).is_some() {
                                real_nonce_idx = alt;
                                break;
                            }
                        }
                        out.violations.push(viol(
                            "chunk-not-under-derived-nonce",
                            format!(
                                "{path}: chunk {i} of {gen_path} does not open under nonce n+{i} and the documented chunk AAD{}",
                                if real_nonce_idx != i64_ { format!("; it opens under n+{real_nonce_idx}") } else { String::new() }
                            ),
                        ));
                    }
                    Some(plain) => {
                        out.chunks_opened += 1;
                        if !all_plains.iter().any(|p| p.len() == ct.len() && p[a..b] == plain[..]) {
                            out.violations.push(viol(
                                "chunk-opens-to-unknown-plaintext",
                                format!("{path}: chunk {i} of {gen_path} opens to bytes no operation of the history wrote at that offset"),
                            ));
                        }
                    }
                }
                let nonce = chunk_nonce(&n, real_nonce_idx);
                let mut x = [0u8; 16];
                x[..12].copy_from_slice(&nonce);
                out.nonces.push((u128::from_le_bytes(x), util::fnv64(&h)));
                out.chunks += 1;
            }
        }
    }
    if KEEP_JOURNAL.with(|k| k.get()) {
        out.journal = journal.into_iter().map(|e| e.mutation).collect();
        out.op_end = op_end;
    }
    // one violation per signature per history is enough
    let mut sigs = std::collections::HashSet::new();
    out.violations.retain(|v| sigs.insert(v.signature.clone()));
    if want_sample {
        out.sample = Some(json!({
            "wrapper": wrap.label(),
            "history": hist.iter().map(|o| o.short()).collect::<Vec<_>>(),
            "backend_objects_scanned": out.objects_scanned,
            "metadata_documents_decoded": out.meta_docs,
            "chunk_nonces_derived": out.chunks,
            "plaintext_windows_searched": out.windows_checked,
        }));
    }
    out
}

// ---------------------------------------------------------------------------
// entropy use: which bits of every 96-bit draw reach which nonce

#[derive(Default)]
struct EntropyOut {
    runs: u64,
    draws_scripted: u64,
    nonces_determined: u64,
    bit_flips: u64,
    disjointness_checks: u64,
    violations: Vec<Violation>,
    table: Vec<serde_json::Value>,
}

/// The writers that draw a nonce, as one-commit-per-operation histories over
/// chunk size 16: single-chunk and three-chunk objects.
fn entropy_writers() -> Vec<(&'static str, Vec<Op>)> {
    let put = |k: u8, size: u32, mode: Mode| Op::Put { key: k, size, var: 7, mode };
    vec![
        ("put-1-chunk", vec![put(0, 9, Mode::Overwrite)]),
        ("put-3-chunks", vec![put(0, 35, Mode::Overwrite)]),
        ("put-create-then-update", vec![put(0, 9, Mode::Create), Op::Put { key: 0, size: 35, var: 8, mode: Mode::Update(vstore::ops::Tok::Latest) }]),
        ("multipart-1-chunk", vec![Op::Multi { key: 0, parts: vec![4, 5], var: 7, abort: false }]),
        ("multipart-3-chunks", vec![Op::Multi { key: 0, parts: vec![15, 2, 18], var: 7, abort: false }]),
        ("put-then-copy", vec![put(2, 35, Mode::Overwrite), Op::Copy { from: 2, to: 0, create: false }]),
        ("put-then-rename", vec![put(2, 35, Mode::Overwrite), Op::Rename { from: 2, to: 0, create: true }]),
    ]
}

/// Scripted answer of draw `j` under filler `f`: f = 0 low values (no carry
/// anywhere), f = 1 counter bytes all ones (the chunk counter wraps inside
/// the object), draws distinct from one another in the salt.
fn filler(f: u8, j: usize) -> Vec<u8> {
    (0..12usize)
        .map(|k| match f {
            0 => ((0x11 * (j + 1) + 7 * k) & 0x7f) as u8,
            _ => if k == 0 { 0xf0 + j as u8 } else { 0xff },
        })
        .collect()
}

fn chunk_nonce_set(d: &DocSeen) -> Vec<[u8; 12]> {
    if d.n.len() != 12 {
        return vec![];
    }
    (0..d.chunks).map(|i| chunk_nonce(&d.n, i)).collect()
}

/// Exhaustive entropy-use enumeration. For every nonce-drawing writer the
/// 12-byte draws it makes are scripted (hook: `push_entropy`); the nonces are
/// read off the metadata documents the backend received (every chunk was
/// opened under base + index by `run_history`):
///  - control: the same script twice gives the same nonces — a nonce that
///    still varies does not come from 96-bit draws (the assumption "the
///    generator does not repeat 96-bit values" would not cover it);
///  - every single bit of every draw, flipped alone, changes some nonce, and
///    every nonce is reached by at least 96 script bits;
///  - two commits whose draws differ only in the top bit of one byte (far
///    enough apart that the counter ranges of three-chunk objects cannot
///    overlap by plain arithmetic) have disjoint chunk-nonce sets.
fn entropy_phase() -> EntropyOut {
    const CLOCK: u64 = 1_500_000_000_000;
    const PROBE: usize = 8;
    let wrap = Wrap::Enc(16);
    let mut out = EntropyOut::default();
    let mut any_consumed = false;
    for (name, hist) in entropy_writers() {
        let viol = |what: String, text: String| Violation {
            signature: format!("C09/leak/entropy/{what}"),
            summary: format!(
                "{}: [{}] with scripted entropy: {}",
                wrap.label(),
                hist.iter().map(|o| o.short()).collect::<Vec<_>>().join("; "),
                text
            ),
            replay: json!({"entropy": name}),
        };
        for f in 0..2u8 {
            // how many 12-byte draws does the history make?
            let probe: Vec<Vec<u8>> = (0..PROBE).map(|j| filler(f, j)).collect();
            let r = run_history_scripted(wrap, &hist, CLOCK, false, &probe);
            out.runs += 1;
            let draws = PROBE - r.entropy_left;
            out.draws_scripted += draws as u64;
            any_consumed |= draws > 0;
            for v in r.violations {
                out.violations.push(v);
            }
            let script: Vec<Vec<u8>> = (0..draws).map(|j| filler(f, j)).collect();
            let base = run_history_scripted(wrap, &hist, CLOCK, false, &script);
            let again = run_history_scripted(wrap, &hist, CLOCK, false, &script);
            out.runs += 2;
            // nonce slots: (document index, false = chunk base nonce / true = seal nonce)
            let mut slots: Vec<(usize, bool)> = Vec::new();
            let mut undetermined: Vec<(usize, bool)> = Vec::new();
            if base.docs.len() != hist.len() || again.docs.len() != hist.len() {
                vcore::report::machinery(&format!(
                    "entropy phase: history {name} wrote {} metadata documents, expected one per operation ({})",
                    base.docs.len(),
                    hist.len()
                ));
            }
            for (i, op) in hist.iter().enumerate() {
                let (a, b) = (&base.docs[i], &again.docs[i]);
                // a copy carries the source's ciphertext and base nonce over verbatim: not a draw of its own
                let own_chunks = matches!(op, Op::Put { .. } | Op::Multi { .. });
                for seal in [false, true] {
                    if !seal && !own_chunks {
                        continue;
                    }
                    let (x, y) = if seal { (a.an.clone(), b.an.clone()) } else { (Some(a.n.clone()), Some(b.n.clone())) };
                    let what = if seal { "seal-nonce" } else { "chunk-nonce" };
                    if x.is_none() || x.as_ref().map(|v| v.len()) != Some(12) {
                        out.violations.push(viol(
                            format!("{}/{what}/missing", op.kind()),
                            format!("{} written by {} carries no 12-byte {what}", a.path, op.short()),
                        ));
                        continue;
                    }
                    if x != y {
                        undetermined.push((i, seal));
                        out.violations.push(viol(
                            format!("{}/{what}/not-determined-by-96-bit-draws", op.kind()),
                            format!(
                                "the {what} of {} written by {} differs between two runs in which every 12-byte entropy draw was answered identically ({:02x?} vs {:02x?}; {draws} draws of 12 bytes were consumed): it is not (only) a function of 96-bit draws, so uniqueness does not follow from a generator that never repeats a 96-bit value",
                                a.path,
                                op.short(),
                                x.unwrap_or_default(),
                                y.unwrap_or_default()
                            ),
                        ));
                    } else {
                        slots.push((i, seal));
                        out.nonces_determined += 1;
                    }
                }
            }
            let slot_val = |r: &HistOut, s: &(usize, bool)| -> Option<Vec<u8>> {
                let d = r.docs.get(s.0)?;
                if s.1 { d.an.clone() } else { Some(d.n.clone()) }
            };
            let mut reach: Vec<u32> = vec![0; slots.len()];
            for d in 0..draws {
                for bit in 0..96usize {
                    let mut sc = script.clone();
                    sc[d][bit / 8] ^= 1 << (bit % 8);
                    let r = run_history_scripted(wrap, &hist, CLOCK, false, &sc);
                    out.runs += 1;
                    out.bit_flips += 1;
                    if r.docs.len() != hist.len() {
                        continue;
                    }
                    let mut reached_any = false;
                    for (si, s) in slots.iter().enumerate() {
                        if slot_val(&r, s) != slot_val(&base, s) {
                            reach[si] += 1;
                            reached_any = true;
                        }
                    }
                    if !reached_any && undetermined.is_empty() {
                        out.violations.push(viol(
                            "draw-bit-reaches-no-nonce".into(),
                            format!("flipping bit {} of byte {} of entropy draw {d} (of {draws}) changed no chunk or seal nonce of any document written", bit % 8, bit / 8),
                        ));
                    }
                    // far apart by plain arithmetic: the chunk-nonce sets must not meet
                    if bit % 8 == 7 {
                        for s in slots.iter().filter(|s| !s.1) {
                            if slot_val(&r, s) == slot_val(&base, s) {
                                continue; // this draw does not feed this object
                            }
                            out.disjointness_checks += 1;
                            let (a, b) = (chunk_nonce_set(&base.docs[s.0]), chunk_nonce_set(&r.docs[s.0]));
                            if a.iter().any(|x| b.contains(x)) {
                                out.violations.push(viol(
                                    format!("{}/chunk-nonce/sets-of-two-commits-overlap", hist[s.0].kind()),
                                    format!(
                                        "two commits of {} chunks whose draws differ only in the top bit of byte {} share a chunk nonce (base nonces {:02x?} and {:02x?})",
                                        base.docs[s.0].chunks,
                                        bit / 8,
                                        base.docs[s.0].n,
                                        r.docs[s.0].n
                                    ),
                                ));
                            }
                        }
                    }
                    for v in r.violations {
                        out.violations.push(v);
                    }
                }
            }
            for (si, s) in slots.iter().enumerate() {
                let what = if s.1 { "seal-nonce" } else { "chunk-nonce" };
                if reach[si] < 96 {
                    out.violations.push(viol(
                        format!("{}/{what}/fewer-than-96-entropy-bits", hist[s.0].kind()),
                        format!(
                            "only {} of the {} scripted entropy bits change the {what} of {} written by {}",
                            reach[si],
                            draws * 96,
                            base.docs[s.0].path,
                            hist[s.0].short()
                        ),
                    ));
                }
            }
            out.table.push(json!({
                "writer": name,
                "filler": if f == 0 { "low bytes" } else { "counter all ones (wraps inside the object)" },
                "draws_of_12_bytes": draws,
                "nonces": slots.iter().enumerate().map(|(si, s)| json!({
                    "document": base.docs[s.0].path,
                    "written_by": hist[s.0].short(),
                    "nonce": if s.1 { "seal" } else { "chunk base" },
                    "script_bits_that_change_it": reach[si],
                })).collect::<Vec<_>>(),
                "nonces_not_determined_by_the_script": undetermined.len(),
            }));
            for v in base.violations.into_iter().chain(again.violations) {
                out.violations.push(v);
            }
        }
    }
    if !any_consumed {
        vcore::report::machinery("entropy phase: no scripted 12-byte draw was consumed by any writer (hook `push_entropy` not compiled in?)");
    }
    if out.nonces_determined == 0 {
        vcore::report::machinery("entropy phase: no nonce followed the scripted draws (the control case never held; the hook is not live)");
    }
    let mut sigs = std::collections::HashSet::new();
    out.violations.retain(|v| sigs.insert(v.signature.clone()));
    out
}

// ---------------------------------------------------------------------------
// public derivability under scripted entropy, and its differential form

/// Every writer of metadata documents at chunk size `c`: put in three modes,
/// multipart with EVERY split into one, two and three parts (empty parts
/// included), copy and rename in both target modes after a put and after a
/// multipart upload, onto an existing target, a copy of a copy, a self-copy.
fn derivability_histories(c: u32, four_parts: bool) -> Vec<Vec<Op>> {
    let mut sizes = vec![0, 1, c - 1, c, c + 1, 2 * c + 3, 11, 24];
    sizes.sort();
    sizes.dedup();
    let put = |key: u8, size: u32, mode: Mode| Op::Put { key, size, var: 7, mode };
    let multi = |key: u8, parts: Vec<u32>| Op::Multi { key, parts, var: 7, abort: false };
    let mut out: Vec<Vec<Op>> = Vec::new();
    for &size in &sizes {
        out.push(vec![put(0, size, Mode::Overwrite)]);
        out.push(vec![put(0, size, Mode::Create)]);
        out.push(vec![Op::Put { key: 0, size: c + 1, var: 3, mode: Mode::Overwrite }, put(0, size, Mode::Update(vstore::ops::Tok::Latest))]);
        out.push(vec![multi(0, vec![size])]);
        for a in 0..=size {
            out.push(vec![multi(0, vec![a, size - a])]);
            for b in 0..=size - a {
                out.push(vec![multi(0, vec![a, b, size - a - b])]);
                if four_parts && size == 2 * c + 3 {
                    for d in 0..=size - a - b {
                        out.push(vec![multi(0, vec![a, b, d, size - a - b - d])]);
                    }
                }
            }
        }
        for create in [false, true] {
            out.push(vec![put(2, size, Mode::Overwrite), Op::Copy { from: 2, to: 0, create }]);
            out.push(vec![put(2, size, Mode::Overwrite), Op::Rename { from: 2, to: 0, create }]);
            out.push(vec![multi(2, vec![size / 2, size - size / 2]), Op::Copy { from: 2, to: 0, create }]);
            out.push(vec![multi(2, vec![size / 2, size - size / 2]), Op::Rename { from: 2, to: 0, create }]);
        }
        out.push(vec![put(2, size, Mode::Overwrite), Op::Put { key: 0, size: 5, var: 4, mode: Mode::Overwrite }, Op::Copy { from: 2, to: 0, create: false }]);
        out.push(vec![put(2, size, Mode::Overwrite), Op::Put { key: 0, size: 5, var: 4, mode: Mode::Overwrite }, Op::Rename { from: 2, to: 0, create: false }]);
        out.push(vec![put(2, size, Mode::Overwrite), Op::Copy { from: 2, to: 0, create: true }, Op::Copy { from: 0, to: 1, create: true }]);
        out.push(vec![put(0, size, Mode::Overwrite), Op::Copy { from: 0, to: 0, create: false }]);
    }
    out
}

/// The same history writing other bytes of the same lengths.
fn other_content(hist: &[Op]) -> Vec<Op> {
    hist.iter()
        .map(|op| match op {
            Op::Put { key, size, var, mode } => Op::Put { key: *key, size: *size, var: var.wrapping_add(100), mode: *mode },
            Op::Multi { key, parts, var, abort } => Op::Multi { key: *key, parts: parts.clone(), var: var.wrapping_add(100), abort: *abort },
            other => other.clone(),
        })
        .collect()
}

#[derive(Default)]
struct DerivOut {
    runs: u64,
    docs: u64,
    draws_consumed: u64,
    payload_objects_with_other_bytes: u64,
    fields_by_basis: BTreeMap<Basis, u64>,
    digests_searched: u64,
    violations: Vec<Violation>,
}

/// One history, run twice under the same logical clock and the same script
/// of 12-byte entropy draws, the second time writing other bytes of the same
/// lengths: in both runs every field of every document the backend receives
/// must be publicly derivable (scripted draws must be found verbatim), and
/// the two backend journals may differ only in ciphertext bytes, chunk tags
/// and the fields recomputable from those (`e`, `at`), generation salts aside.
fn derivability_case(wrap: Wrap, hist: &[Op]) -> DerivOut {
    const CLOCK: u64 = 1_400_000_000_000;
    const DRAWS: usize = 16;
    let script: Vec<Vec<u8>> = (0..DRAWS).map(|j| (0..12usize).map(|k| (0x21 + 13 * j + k) as u8).collect()).collect();
    let mut out = DerivOut::default();
    let a = run_history_journalled(wrap, hist, CLOCK, &script);
    let b = run_history_journalled(wrap, &other_content(hist), CLOCK, &script);
    out.runs = 2;
    let replay = json!({"derivability": {"wrap": wrap, "history": hist}});
    let text = |t: String| format!("{}: [{}] under a fixed clock and scripted entropy: {t}", wrap.label(), hist.iter().map(|o| o.short()).collect::<Vec<_>>().join("; "));
    if a.entropy_left == 0 || b.entropy_left == 0 {
        vcore::report::machinery(&format!("derivability phase: history {hist:?} consumed all {DRAWS} scripted draws"));
    }
    if a.entropy_left != b.entropy_left {
        out.violations.push(Violation {
            signature: "C09/leak/plaintext-dependent/number-of-entropy-draws".into(),
            summary: text(format!("{} vs {} draws consumed by two runs that differ only in plaintext content", DRAWS - a.entropy_left, DRAWS - b.entropy_left)),
            replay: replay.clone(),
        });
    }
    out.draws_consumed = (DRAWS - a.entropy_left) as u64;
    let (diffs, differing) = derive::diff_journals(&a.journal, &b.journal);
    out.payload_objects_with_other_bytes = differing;
    for (what, idx, why) in diffs {
        let writer = a.op_end.iter().position(|end| idx < *end).map(|i| hist[i].kind()).unwrap_or_else(|| "unknown".into());
        out.violations.push(Violation { signature: format!("C09/leak/plaintext-dependent/{what}/{writer}"), summary: text(why), replay: replay.clone() });
    }
    for r in [a, b] {
        out.docs += r.meta_docs;
        out.digests_searched += r.digests_searched;
        for (k, v) in r.fields_by_basis {
            *out.fields_by_basis.entry(k).or_insert(0) += v;
        }
        for mut v in r.violations {
            v.replay = replay.clone();
            out.violations.push(v);
        }
    }
    let mut sigs = std::collections::HashSet::new();
    out.violations.retain(|v| sigs.insert(v.signature.clone()));
    out
}

fn leak_alphabet(cs: u64) -> Vec<Op> {
    let mut full = alphabet(cs, true);
    // payloads long enough to have 8-byte windows at every chunk size
    for k in 0..3u8 {
        for size in [8u32, 24, 40] {
            full.push(Op::Put { key: k, size, var: 3, mode: Mode::Overwrite });
        }
        full.push(Op::Multi { key: k, parts: vec![5, 11, 9], var: 3, abort: false });
    }
    full
}

fn main() {
    let mut run = Run::from_args("C09", "leak", "fault_enumeration");
    if let Some(file) = run.replay_file.clone() {
        let doc: serde_json::Value = serde_json::from_slice(&std::fs::read(&file).expect("read replay")).expect("json");
        let r = &doc["replay"];
        if r.get("entropy").is_some() {
            // cheap: the whole entropy-use enumeration is re-run
            let e = entropy_phase();
            run.add("evaluations", e.runs);
            for v in e.violations {
                println!("  -> {}", v.summary);
                run.violation(v);
            }
            run.finish();
        }
        if let Some(d) = r.get("derivability") {
            let wrap: Wrap = serde_json::from_value(d["wrap"].clone()).expect("wrap");
            let hist: Vec<Op> = serde_json::from_value(d["history"].clone()).expect("history");
            let out = derivability_case(wrap, &hist);
            run.add("evaluations", out.docs);
            for v in out.violations {
                println!("  -> {}", v.summary);
                run.violation(v);
            }
            run.finish();
        }
        let wrap: Wrap = serde_json::from_value(r["wrap"].clone()).expect("wrap");
        let hist: Vec<Op> = serde_json::from_value(r["history"].clone()).expect("history");
        let out = run_history(wrap, &hist, r["clock"].as_u64().unwrap_or(1_700_000_000_000), true);
        run.add("evaluations", out.windows_checked + out.chunks);
        for v in out.violations {
            println!("  -> {}", v.summary);
            run.violation(v);
        }
        run.finish();
    }
    let threads = util::n_threads();
    let mut fields_by_basis: BTreeMap<Basis, u64> = BTreeMap::new();
    // public derivability of every field under scripted entropy + differential form
    {
        let mut work: Vec<(Wrap, Vec<Op>)> = Vec::new();
        let css: &[u32] = match run.tier {
            Tier::Quick => &[1, 7, 16],
            Tier::Thorough => &[1, 2, 5, 7, 16, 33],
        };
        for &c in css {
            for h in derivability_histories(c, run.tier == Tier::Thorough && c <= 7) {
                work.push((Wrap::Enc(c as u64), h));
            }
        }
        run.set("derivability_histories", json!(work.len()));
        let outs: Vec<DerivOut> = util::par_map(work, threads, |(wrap, h)| derivability_case(wrap, &h));
        for o in outs {
            run.add("evaluations", o.docs);
            run.add("derivability_runs_under_scripted_entropy", o.runs);
            run.add("derivability_documents_checked", o.docs);
            run.add("derivability_scripted_draws_consumed", o.draws_consumed);
            run.add("differential_pairs", 1);
            run.add("differential_payload_objects_with_other_bytes", o.payload_objects_with_other_bytes);
            run.add("plaintext_digests_searched", o.digests_searched);
            for (k, v) in o.fields_by_basis {
                *fields_by_basis.entry(k).or_insert(0) += v;
            }
            for v in o.violations {
                run.violation(v);
            }
        }
    }
    let cfgs: Vec<(Wrap, usize)> = match run.tier {
        Tier::Quick => vec![(Wrap::Enc(1), 2), (Wrap::Enc(7), 2), (Wrap::Enc(16), 2)],
        Tier::Thorough => vec![(Wrap::Enc(1), 3), (Wrap::Enc(7), 3), (Wrap::Enc(16), 3), (Wrap::Enc(65536), 2)],
    };
    // work item = (config, prefix of CORE ops); the item runs prefix . x for every x in FULL+
    let mut items: Vec<(usize, Vec<Op>)> = Vec::new();
    for (ci, (wrap, depth)) in cfgs.iter().enumerate() {
        let core = alphabet(wrap.cs(), false);
        let mut prefixes: Vec<Vec<Op>> = vec![vec![]];
        items.push((ci, vec![]));
        for _ in 1..*depth {
            let mut next = Vec::new();
            for p in &prefixes {
                for op in &core {
                    let mut q = p.clone();
                    q.push(op.clone());
                    next.push(q);
                }
            }
            for q in &next {
                items.push((ci, q.clone()));
            }
            prefixes = next;
        }
    }
    let alphas: Vec<Vec<Op>> = cfgs.iter().map(|(w, _)| leak_alphabet(w.cs())).collect();
    let mut all_nonces: Vec<(u128, u64)> = Vec::new();
    let mut seal_nonces: Vec<u128> = Vec::new();
    let total = items.len();
    let mut done = 0usize;
    let mut seq = 0u64;
    for batch in items.chunks(2048) {
        if !run.in_budget() {
            run.cap_hit(&format!("time budget: stopped after {done}/{total} history prefixes"));
            break;
        }
        let numbered: Vec<(u64, usize, Vec<Op>)> = batch
            .iter()
            .map(|(ci, p)| {
                seq += 1;
                (seq, *ci, p.clone())
            })
            .collect();
        let results: Vec<Vec<HistOut>> = util::par_map(numbered, threads, |(seq, ci, prefix)| {
            let wrap = cfgs[ci].0;
            // applicability (stale / other tokens) from a dry run of the prefix
            let mut book = Book::default();
            {
                let inner: Arc<dyn ObjectStore> = Arc::new(object_store::memory::InMemory::new());
                let s = build(wrap, inner);
                util::block_on(async {
                    for op in &prefix {
                        apply_tracked(s.as_ref(), &mut book, op).await;
                    }
                });
            }
            let mut outs = Vec::new();
            for (j, op) in alphas[ci].iter().enumerate() {
                if !applicable(op, &book) {
                    continue;
                }
                let mut h = prefix.clone();
                h.push(op.clone());
                let clock = 1_700_000_000_000 + (seq * 256 + j as u64) * 64_000;
                outs.push(run_history(wrap, &h, clock, seq % 23 == 3 && j % 41 == 7));
            }
            outs
        });
        for outs in results {
            done += 1;
            for o in outs {
                run.add("histories", 1);
                run.add("evaluations", o.windows_checked + o.chunks);
                run.add("plaintext_windows_searched", o.windows_checked);
                run.add("backend_objects_scanned", o.objects_scanned);
                run.add("backend_bytes_scanned", o.bytes_scanned);
                run.add("metadata_documents_decoded", o.meta_docs);
                run.add("chunk_nonces_derived", o.chunks);
                run.add("chunks_opened_with_harness_cipher_under_derived_nonce", o.chunks_opened);
                run.add("plaintext_digests_searched", o.digests_searched);
                for (k, v) in &o.fields_by_basis {
                    *fields_by_basis.entry(*k).or_insert(0) += v;
                }
                if let Some(s) = o.sample
                    && o.windows_checked > 0
                    && o.chunks > 1
                {
                    run.sample(s);
                }
                for v in o.violations {
                    run.violation(v);
                }
                all_nonces.extend_from_slice(&o.nonces);
                seal_nonces.extend_from_slice(&o.seal_nonces);
            }
        }
    }
    // chunk-counter width: single objects with more than 2^8 and more than 2^16
    // chunks (chunk size 1), by put and by a multipart upload split inside the
    // object; every chunk nonce joins the run-wide set and every chunk is
    // opened under base + index computed by the harness in full 64-bit
    // arithmetic
    let mut big: Vec<Vec<Op>> = Vec::new();
    for n in [255u32, 256, 257, 65_535, 65_536, 65_537, 70_000] {
        big.push(vec![Op::Put { key: 0, size: n, var: 5, mode: Mode::Overwrite }]);
        big.push(vec![Op::Multi { key: 2, parts: vec![n / 2 + 1, n - (n / 2 + 1)], var: 6, abort: false }]);
    }
    if run.in_budget() {
        let numbered: Vec<(usize, Vec<Op>)> = big.into_iter().enumerate().collect();
        let outs: Vec<HistOut> = util::par_map(numbered, threads, |(i, h)| {
            run_history(Wrap::Enc(1), &h, 1_600_000_000_000 + i as u64 * 64_000, i == 12)
        });
        for o in outs {
            run.add("histories", 1);
            run.add("many_chunk_objects", 1);
            run.add("evaluations", o.windows_checked + o.chunks);
            run.add("plaintext_windows_searched", o.windows_checked);
            run.add("backend_objects_scanned", o.objects_scanned);
            run.add("backend_bytes_scanned", o.bytes_scanned);
            run.add("metadata_documents_decoded", o.meta_docs);
            run.add("chunk_nonces_derived", o.chunks);
            run.add("chunks_opened_with_harness_cipher_under_derived_nonce", o.chunks_opened);
            run.add("plaintext_digests_searched", o.digests_searched);
            for (k, v) in &o.fields_by_basis {
                *fields_by_basis.entry(*k).or_insert(0) += v;
            }
            if let Some(s) = o.sample {
                run.sample(s);
            }
            for v in o.violations {
                run.violation(v);
            }
            all_nonces.extend_from_slice(&o.nonces);
            seal_nonces.extend_from_slice(&o.seal_nonces);
        }
    } else {
        run.cap_hit("time budget: many-chunk objects not run");
    }

    // entropy use of every nonce-drawing writer
    {
        let e = entropy_phase();
        run.add("evaluations", e.runs);
        run.add("entropy_scripted_runs", e.runs);
        run.add("entropy_draws_scripted", e.draws_scripted);
        run.add("entropy_nonces_following_the_script", e.nonces_determined);
        run.add("entropy_single_bit_flips", e.bit_flips);
        run.add("entropy_far_apart_pairs_checked_disjoint", e.disjointness_checks);
        run.set("entropy_use", json!(e.table));
        for v in e.violations {
            run.violation(v);
        }
    }

    // one set for the whole run: a nonce may recur only for the very same
    // chunk (a copy carries ciphertext, nonce and tags over verbatim)
    all_nonces.sort_unstable();
    all_nonces.dedup();
    let mut distinct_nonces = 0u64;
    let mut reused = 0u64;
    let mut by_nonce: HashMap<u128, u64> = HashMap::new();
    for w in all_nonces.chunk_by(|a, b| a.0 == b.0) {
        distinct_nonces += 1;
        if w.len() > 1 {
            reused += 1;
            by_nonce.insert(w[0].0, w.len() as u64);
        }
    }
    if reused > 0 {
        run.violation(Violation {
            signature: "C09/leak/nonce-used-for-two-different-chunks".into(),
            summary: format!(
                "{reused} of {distinct_nonces} nonces (chunk nonces re-derived from, and seal nonces read from, all metadata documents written in the run) were used for two or more different messages (ciphertext chunks / sealed documents) under the one key"
            ),
            replay: json!({"note": "run-wide nonce set; rerun the tier"}),
        });
    }
    for n in &all_nonces {
        run.distinct(util::fnv64(&n.0.to_le_bytes()));
        if run.distinct_count() >= 200_000 {
            break;
        }
    }
    let n_seal = seal_nonces.len();
    seal_nonces.sort_unstable();
    seal_nonces.dedup();
    run.set(
        "metadata_fields_publicly_derivable_by_basis",
        json!(fields_by_basis.iter().map(|(k, v)| (format!("{k:?}"), *v)).collect::<BTreeMap<_, _>>()),
    );
    run.set("distinct_chunk_nonces", json!(distinct_nonces));
    run.set("chunk_nonces_used_for_two_different_chunks", json!(reused));
    run.set("metadata_seal_nonces", json!({"collected": n_seal, "distinct": seal_nonces.len(), "note": "in the same set as the chunk nonces"}));
    run.rule(
        "public derivability = every field of every metadata document version the backend receives (all histories below) is classified: s = length of the stored ciphertext; e = base64url(SHA3-256(n || STORED ciphertext)) for writers of ciphertext, base64url(SHA3-256(g || e of a document the backend holds)) for copies / renames; o, v null; c, av the configured constants; t one 16-byte tag per stored chunk (each chunk opened by the harness); at = GMAC by the harness' own cipher under nonce an over the v1 metadata AAD of the key path and the document's other fields; g = <logical clock value>-<salt> naming a stored object; m a logical clock value; n, an 12 bytes (under a script: verbatim one of the scripted draws, or the copied source's n); any other field, or a value that does not follow, is a violation; \
         scripted + differential form: chunk sizes {1, 7, 16} (thorough + 2, 5, 33), sizes {0, 1, cs-1, cs, cs+1, 2cs+3, 11, 24}: put Overwrite / Create / Update, multipart with EVERY split into 1, 2 and 3 parts incl. empty parts (thorough: 4 parts at the largest size), copy and rename in both target modes after put and after multipart, onto an existing target, copy of a copy, self-copy - each history run twice under the same logical clock and the same 16 scripted entropy draws, the second time writing other bytes of the same lengths: the two backend journals must have the same mutations on the same paths (generation salts masked) with the same lengths, and documents may differ only in e, t, at (each recomputed from ciphertext / tags above); \
         digest net: SHA3-256 and SHA-256 of every written plaintext of >= 8 bytes, whole and per chunk (chunks >= 8 bytes), bare and prefixed by every n / an / g the backend holds (per chunk also n + index), searched raw, in hex (both cases), base64url and base64 in every object version and object name the backend received; \
         histories = CORE* . FULL+ over keys {a, a/b, c} (C07's alphabet plus 8/24/40-byte puts and a 25-byte three-part upload), EncryptedStore over a journalling backend; \
         every object version the backend ever received is scanned for every 8-byte window of every plaintext of the history; every metadata document written is decoded and the nonce of each chunk re-derived as n[0..4] || LE64(LE64(n[4..12]) + index), and the chunk is opened with the harness' own AES-256-GCM instance under that nonce and the documented chunk AAD (so the derived nonce is the one really used) and must yield bytes the history wrote at that offset; \
         the seal nonce `an` of every metadata document version joins the same set (identified by path + document without its tag); one nonce set for the whole run (one encryption key), a repeat is a violation unless it is the very same message (the same ciphertext chunk and tag, as in copies); plus 14 single objects of 255 / 256 / 257 / 65,535 / 65,536 / 65,537 / 70,000 chunks at chunk size 1 (put, and multipart split inside the object) for the width of the chunk counter; distinct = distinct chunk nonces (capped at 200000 in the evidence counter); \
         entropy use: for every nonce-drawing writer (put in Overwrite / Create / Update mode, multipart upload, and the seal of put / multipart / copy / rename; one- and three-chunk objects at chunk size 16) every 12-byte entropy draw is scripted, under two fillers (low bytes; counter bytes all ones so the chunk counter wraps inside the object): the same script twice must give the same chunk base nonce and seal nonce in every metadata document the backend received (a nonce that still varies is not a function of 96-bit draws), each of the 96 bits of each draw flipped alone must change some nonce, every nonce must be changed by at least 96 script bits, and two commits whose draws differ only in the top bit of one byte must have disjoint chunk-nonce sets",
    );
    run.assume("the OS random generator behind rand::rng() does not repeat 96-bit values (real collision probability is not checked); the entropy-use enumeration shows that every chunk and seal nonce is a function of one full 96-bit draw, which is what makes that assumption sufficient");
    run.assume("the generation salt (8 hex digits of g, drawn outside the scripted hook) is not judged: it differs between any two runs; everything derived from g (copy tokens, the seal) is recomputed from the stored g");
    run.assume("the v1 metadata AAD layout used to recompute `at` is transcribed from the persistent format (domain string, length-prefixed path, s, e, o, v, n, c, av, tags, .g, .m)");
    run.assume("plaintexts are high-entropy (an accidental 8-byte match with ciphertext has probability 2^-64 per position)");
    run.finish();
}

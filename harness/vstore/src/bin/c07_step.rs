//! C07 / STEP — concurrent callers on one key through one wrapper instance:
//! every interleaving at inner-store-call granularity (preemption bounded)
//! must be equivalent to a serial order (of the tasks' atomic steps: a
//! rename is documented as copy-then-delete) run on a plain `InMemory`
//! store: exactly one of two same-token CAS writers wins, exactly one Create
//! wins, the final content is the winner's, a concurrent get answers a
//! value the key held, reads afterwards agree (on the live instance and on a
//! fresh one). One `get_ranges` call racing an overwrite must answer all its
//! ranges from ONE commit. A conditional get overtaken by a commit answers
//! as in one serial order (never the new bytes under a condition that only
//! the old token satisfies). A listing (all three variants) racing the
//! removal of a key it has enumerated but not yet fetched succeeds and
//! reports every location as the reference does before or after the removal.
//! Along the commit order of a key (the backend
//! journal) `last_modified` never decreases and date conditions built from
//! the previous commit's timestamp answer as the reference would (logical
//! clock, every commit observed through a fresh instance over the journal
//! prefix).

use object_store::{ObjectStore, ObjectStoreExt, memory::InMemory};
use serde_json::json;
use std::cell::RefCell;
use std::collections::{BTreeMap, BTreeSet};
use std::sync::Arc;
use std::time::{Duration, Instant};
use vcore::choice::{Chooser, explore};
use vcore::ctlstore::{CtlStore, Mutation, apply as apply_mutation, restore, snapshot};
use vcore::step::{RunEnd, Sched};
use vcore::{Run, Violation, util};
use vstore::fix::{Class, KEYS, Wrap, build, class_of, key, payload};
use vstore::hist::apply_tracked;
use vstore::ops::{Book, Mode, Op, Tok, apply};

/// One action of a task: a mutation, or a full get of a key.
#[derive(Clone)]
enum Act {
    M(Op),
    Get(u8),
    /// one `get_ranges` call: all bodies of one call must come from one commit
    /// (the reference slices one entry under its lock)
    Ranges(u8, Vec<(u64, u64)>),
    /// list(None), drained; while it overlaps a commit it may report either
    /// version: its class is part of the answer, its entries are judged key
    /// by key (see `listing_check`)
    List,
    /// list_with_offset(None, "0") (an offset below every key), drained
    ListOff,
    /// list_with_delimiter(None): objects and common prefixes
    ListDelim,
    /// full get with `if_match` = the token of the key's setup commit
    GetIfMatch(u8),
    /// full get with `if_none_match` = the token of the key's setup commit
    GetIfNoneMatch(u8),
}

impl Act {
    /// The key a read action reads (None for mutations and listings).
    fn is_listing(&self) -> bool {
        matches!(self, Act::List | Act::ListOff | Act::ListDelim)
    }

    fn read_key(&self) -> Option<u8> {
        match self {
            Act::Get(k) | Act::Ranges(k, _) | Act::GetIfMatch(k) | Act::GetIfNoneMatch(k) => Some(*k),
            _ => None,
        }
    }
}

#[derive(Clone)]
struct Scn {
    name: &'static str,
    setup: Vec<Op>,
    tasks: Vec<Vec<Act>>,
    /// the setup goes through another wrapper instance: the instance under
    /// test starts with a cold metadata cache
    cold: bool,
}

/// What one action answered: class, body of a get, token of a put.
#[derive(Clone, Debug)]
struct ActOut {
    class: Class,
    body: Option<Vec<u8>>,
    /// bodies of a `get_ranges` call, one per requested range
    parts: Vec<Vec<u8>>,
    /// entries of a listing: (location, size), common prefixes as ("<p>/", u64::MAX).
    /// Not part of the equality (a listing that overlaps a commit is not a
    /// snapshot); judged by `listing_check`.
    listing: Option<Vec<(String, u64)>>,
}

impl PartialEq for ActOut {
    fn eq(&self, o: &ActOut) -> bool {
        self.class == o.class && self.body == o.body && self.parts == o.parts
    }
}

impl ActOut {
    fn new(class: Class, body: Option<Vec<u8>>) -> ActOut {
        ActOut { class, body, parts: Vec::new(), listing: None }
    }
}

fn put(k: u8, var: u8, mode: Mode) -> Op {
    Op::Put { key: k, size: 17, var, mode }
}

fn scenarios() -> Vec<Scn> {
    let init = |k: u8| put(k, 0, Mode::Overwrite);
    let two =
        |name, setup: Vec<Op>, a: Op, b: Op| Scn { name, setup, tasks: vec![vec![Act::M(a)], vec![Act::M(b)]], cold: false };
    let list_vs = |name, setup: Vec<Op>, b: Op| Scn { name, setup, tasks: vec![vec![Act::List], vec![Act::M(b)]], cold: true };
    let upd = |var| put(0, var, Mode::Update(Tok::Latest));
    let list_kind_vs = |name, kind: Act, setup: Vec<Op>, b: Op| Scn { name, setup, tasks: vec![vec![kind], vec![Act::M(b)]], cold: true };
    let cond_get_vs = |name, get: Act, setup: Vec<Op>, b: Op, cold: bool| Scn { name, setup, tasks: vec![vec![get], vec![Act::M(b)]], cold };
    vec![
        two("update-vs-update-same-token", vec![init(0)], upd(1), upd(2)),
        two("create-vs-create", vec![], put(0, 1, Mode::Create), put(0, 2, Mode::Create)),
        two("update-vs-delete", vec![init(0)], upd(1), Op::Delete { key: 0 }),
        two(
            "put-vs-copy-onto",
            vec![init(0), put(2, 3, Mode::Overwrite)],
            put(0, 1, Mode::Overwrite),
            Op::Copy { from: 2, to: 0, create: false },
        ),
        // unconditional overwrites racing each other and every writer that
        // commits through another entry point (commit order vs timestamps)
        two("put-vs-put", vec![init(0)], put(0, 1, Mode::Overwrite), put(0, 2, Mode::Overwrite)),
        two(
            "put-vs-multipart",
            vec![init(0)],
            put(0, 1, Mode::Overwrite),
            Op::Multi { key: 0, parts: vec![15, 2, 16], var: 2, abort: false },
        ),
        two(
            "put-vs-rename-onto",
            vec![init(0), put(2, 3, Mode::Overwrite)],
            put(0, 1, Mode::Overwrite),
            Op::Rename { from: 2, to: 0, create: false },
        ),
        two(
            "multipart-vs-copy-onto",
            vec![init(0), put(2, 3, Mode::Overwrite)],
            Op::Multi { key: 0, parts: vec![15, 2, 16], var: 2, abort: false },
            Op::Copy { from: 2, to: 0, create: false },
        ),
        two(
            "multipart-vs-multipart",
            vec![init(0)],
            Op::Multi { key: 0, parts: vec![15, 2, 16], var: 1, abort: false },
            Op::Multi { key: 0, parts: vec![16, 1], var: 2, abort: false },
        ),
        two(
            "copy-onto-vs-copy-onto",
            vec![init(0), put(1, 4, Mode::Overwrite), put(2, 3, Mode::Overwrite)],
            Op::Copy { from: 1, to: 0, create: false },
            Op::Copy { from: 2, to: 0, create: false },
        ),
        two(
            "rename-onto-vs-multipart",
            vec![init(0), put(2, 3, Mode::Overwrite)],
            Op::Rename { from: 2, to: 0, create: false },
            Op::Multi { key: 0, parts: vec![15, 2, 16], var: 2, abort: false },
        ),
        two(
            "update-vs-copy-onto",
            vec![init(0), put(2, 3, Mode::Overwrite)],
            upd(1),
            Op::Copy { from: 2, to: 0, create: false },
        ),
        two(
            "create-vs-copy-create",
            vec![put(2, 3, Mode::Overwrite)],
            put(0, 1, Mode::Create),
            Op::Copy { from: 2, to: 0, create: true },
        ),
        two(
            "update-vs-multipart",
            vec![init(0)],
            upd(1),
            Op::Multi { key: 0, parts: vec![15, 2, 16], var: 2, abort: false },
        ),
        two(
            "update-vs-rename-onto",
            vec![init(0), put(2, 3, Mode::Overwrite)],
            upd(1),
            Op::Rename { from: 2, to: 0, create: false },
        ),
        two("update-vs-rename-away", vec![init(0)], upd(1), Op::Rename { from: 0, to: 2, create: false }),
        Scn {
            name: "update-vs-update-vs-update",
            setup: vec![init(0)],
            tasks: vec![vec![Act::M(upd(1))], vec![Act::M(upd(2))], vec![Act::M(upd(3))]],
            cold: false,
        },
        Scn {
            name: "update-vs-get",
            setup: vec![init(0)],
            tasks: vec![vec![Act::M(upd(1))], vec![Act::Get(0)]],
            cold: false,
        },
        Scn {
            // one writer (put, an unrelated read, put again) and one reader:
            // inside the documented single-writer contract
            name: "writer-put-read-put-vs-get",
            setup: vec![init(0), put(2, 3, Mode::Overwrite)],
            tasks: vec![
                vec![Act::M(put(0, 1, Mode::Overwrite)), Act::Get(2), Act::M(put(0, 2, Mode::Overwrite))],
                vec![Act::Get(0)],
            ],
            cold: false,
        },
        // a listing overlapping a commit of a key this instance has never read
        list_vs("list-vs-put-cold-key", vec![init(0), put(2, 3, Mode::Overwrite)], Op::Put { key: 0, size: 35, var: 1, mode: Mode::Overwrite }),
        list_vs("list-vs-copy-onto-cold-key", vec![init(0), Op::Put { key: 2, size: 35, var: 3, mode: Mode::Overwrite }], Op::Copy { from: 2, to: 0, create: false }),
        list_vs("list-vs-multipart-cold-key", vec![init(0), put(2, 3, Mode::Overwrite)], Op::Multi { key: 0, parts: vec![15, 2, 16], var: 2, abort: false }),
        list_vs("list-vs-update-cold-key", vec![init(0)], Op::Put { key: 0, size: 35, var: 1, mode: Mode::Update(Tok::Latest) }),
        // every list variant racing the removal (delete; rename away = copy,
        // then delete) of a key this instance has never read: the commit point
        // can vanish between the backend enumeration and the per-entry fetch
        list_kind_vs("list-vs-delete-cold-key", Act::List, vec![init(0), put(2, 3, Mode::Overwrite)], Op::Delete { key: 0 }),
        list_kind_vs("list_with_offset-vs-delete-cold-key", Act::ListOff, vec![init(0), put(2, 3, Mode::Overwrite)], Op::Delete { key: 0 }),
        list_kind_vs("list_with_delimiter-vs-delete-cold-key", Act::ListDelim, vec![init(0), put(2, 3, Mode::Overwrite)], Op::Delete { key: 0 }),
        list_kind_vs(
            "list-vs-rename-away-cold-key",
            Act::List,
            vec![init(0), put(2, 3, Mode::Overwrite)],
            Op::Rename { from: 0, to: 1, create: false },
        ),
        list_kind_vs(
            "list_with_offset-vs-rename-away-cold-key",
            Act::ListOff,
            vec![init(0), put(2, 3, Mode::Overwrite)],
            Op::Rename { from: 0, to: 1, create: true },
        ),
        list_kind_vs(
            "list_with_delimiter-vs-rename-away-cold-key",
            Act::ListDelim,
            vec![init(0), put(2, 3, Mode::Overwrite)],
            Op::Rename { from: 0, to: 1, create: false },
        ),
        // a conditional get overtaken by a commit between resolving the commit
        // point and fetching the payload: the condition holds for whatever
        // commit the answer comes from
        cond_get_vs("get-if_match-vs-put", Act::GetIfMatch(0), vec![init(0)], put(0, 1, Mode::Overwrite), false),
        cond_get_vs("get-if_match-vs-update-cold-key", Act::GetIfMatch(0), vec![init(0)], upd(1), true),
        cond_get_vs(
            "get-if_match-vs-copy-onto",
            Act::GetIfMatch(0),
            vec![init(0), put(2, 3, Mode::Overwrite)],
            Op::Copy { from: 2, to: 0, create: false },
            false,
        ),
        cond_get_vs("get-if_none_match-vs-put", Act::GetIfNoneMatch(0), vec![init(0)], put(0, 1, Mode::Overwrite), false),
    ]
    .into_iter()
    .chain(ranges_scenarios())
    .collect()
}

/// One `get_ranges` call (ranges in different chunk spans of a three-chunk
/// object at chunk size 16, in and out of order, one range repeated inside an
/// earlier span) racing one overwrite of the same key by every kind of
/// writer, the new object as long as the old one (so every serial order
/// answers bytes). The reader's instance is warm, or cold for the key.
fn ranges_scenarios() -> Vec<Scn> {
    let big = |k: u8, var: u8, mode: Mode| Op::Put { key: k, size: 35, var, mode };
    let fwd = vec![(1u64, 3u64), (17, 20), (33, 35)];
    let mixed = vec![(17u64, 20u64), (1, 3), (18, 19), (33, 35), (2, 5)];
    let scn = |name, setup: Vec<Op>, rs: &Vec<(u64, u64)>, w: Op, cold: bool| Scn {
        name,
        setup,
        tasks: vec![vec![Act::Ranges(0, rs.clone())], vec![Act::M(w)]],
        cold,
    };
    let init = || big(0, 0, Mode::Overwrite);
    let src = || big(2, 3, Mode::Overwrite);
    vec![
        scn("get_ranges-vs-put", vec![init()], &fwd, big(0, 1, Mode::Overwrite), false),
        scn("get_ranges-mixed-vs-put", vec![init()], &mixed, big(0, 1, Mode::Overwrite), false),
        scn("get_ranges-vs-put-cold-key", vec![init()], &fwd, big(0, 1, Mode::Overwrite), true),
        scn("get_ranges-vs-update", vec![init()], &mixed, big(0, 1, Mode::Update(Tok::Latest)), false),
        scn(
            "get_ranges-vs-multipart",
            vec![init()],
            &mixed,
            Op::Multi { key: 0, parts: vec![15, 2, 18], var: 2, abort: false },
            false,
        ),
        scn("get_ranges-vs-copy-onto", vec![init(), src()], &mixed, Op::Copy { from: 2, to: 0, create: false }, false),
        scn("get_ranges-vs-rename-onto", vec![init(), src()], &fwd, Op::Rename { from: 2, to: 0, create: false }, false),
    ]
}

type Content = [Option<Vec<u8>>; 3];

fn norm(op: &Op, c: Class) -> Class {
    // deleting a missing key: Ok or NotFound, store-dependent (object_store docs)
    if matches!(op, Op::Delete { .. }) && c == Class::NotFound { Class::Ok } else { c }
}

async fn get_act(store: &dyn ObjectStore, k: u8) -> ActOut {
    match store.get(&key(k)).await {
        Ok(r) => match r.bytes().await {
            Ok(b) => ActOut::new(Class::Ok, Some(b.to_vec())),
            Err(e) => ActOut::new(class_of(&e), None),
        },
        Err(e) => ActOut::new(class_of(&e), None),
    }
}

async fn ranges_act(store: &dyn ObjectStore, k: u8, rs: &[(u64, u64)]) -> ActOut {
    let ranges: Vec<std::ops::Range<u64>> = rs.iter().map(|(a, b)| *a..*b).collect();
    match store.get_ranges(&key(k), &ranges).await {
        Ok(v) => ActOut { class: Class::Ok, body: None, parts: v.iter().map(|b| b.to_vec()).collect(), listing: None },
        Err(e) => ActOut::new(class_of(&e), None),
    }
}

async fn list_act(store: &dyn ObjectStore, kind: &Act) -> ActOut {
    use futures::TryStreamExt;
    let entries = |v: &[object_store::ObjectMeta]| v.iter().map(|m| (m.location.to_string(), m.size)).collect::<Vec<_>>();
    let r = match kind {
        Act::ListOff => store
            .list_with_offset(None, &object_store::path::Path::from("0"))
            .try_collect::<Vec<_>>()
            .await
            .map(|v| entries(&v)),
        Act::ListDelim => store.list_with_delimiter(None).await.map(|r| {
            let mut l = entries(&r.objects);
            l.extend(r.common_prefixes.iter().map(|p| (format!("{p}/"), u64::MAX)));
            l
        }),
        _ => store.list(None).try_collect::<Vec<_>>().await.map(|v| entries(&v)),
    };
    match r {
        Ok(mut l) => {
            l.sort();
            ActOut { listing: Some(l), ..ActOut::new(Class::Ok, None) }
        }
        Err(e) => ActOut::new(class_of(&e), None),
    }
}

/// Full get of `k` with `if_match` / `if_none_match` = `token`.
async fn get_if_act(store: &dyn ObjectStore, k: u8, token: Option<String>, none_match: bool) -> ActOut {
    let opts = if none_match {
        object_store::GetOptions { if_none_match: token, ..Default::default() }
    } else {
        object_store::GetOptions { if_match: token, ..Default::default() }
    };
    match store.get_opts(&key(k), opts).await {
        Ok(r) => match r.bytes().await {
            Ok(b) => ActOut::new(Class::Ok, Some(b.to_vec())),
            Err(e) => ActOut::new(class_of(&e), None),
        },
        Err(e) => ActOut::new(class_of(&e), None),
    }
}

/// After all tasks returned: everything the LIVE instance answers must
/// reflect the last completed commit of every key — compared with what a
/// fresh instance reports. Runs before any plain get / head (those heal a
/// stale cached pointer and would hide it). Returns the first disagreement.
async fn post_race(live: &dyn ObjectStore, fresh: &dyn ObjectStore) -> Option<(&'static str, String)> {
    use futures::TryStreamExt;
    use object_store::GetOptions;
    let truth: Vec<object_store::ObjectMeta> = match fresh.list(None).try_collect::<Vec<_>>().await {
        Ok(v) => v,
        Err(e) => return Some(("fresh-list-failed", e.to_string())),
    };
    let same = |a: &object_store::ObjectMeta, b: &object_store::ObjectMeta| {
        a.size == b.size && a.e_tag == b.e_tag && a.last_modified == b.last_modified
    };
    let show = |m: &object_store::ObjectMeta| format!("({}B, {:?}, {})", m.size, m.e_tag, m.last_modified.timestamp_millis());
    let mut listed = match live.list(None).try_collect::<Vec<_>>().await {
        Ok(v) => v,
        Err(e) => return Some(("list-failed", e.to_string())),
    };
    let delim = match live.list_with_delimiter(None).await {
        Ok(r) => r.objects,
        Err(e) => return Some(("list_with_delimiter-failed", e.to_string())),
    };
    listed.sort_by(|a, b| a.location.cmp(&b.location));
    let mut t_sorted = truth.clone();
    t_sorted.sort_by(|a, b| a.location.cmp(&b.location));
    if listed.len() != t_sorted.len() || listed.iter().zip(&t_sorted).any(|(a, b)| a.location != b.location) {
        return Some(("list-keys", format!("live list reports {:?}", listed.iter().map(|m| m.location.to_string()).collect::<Vec<_>>())));
    }
    for t in &t_sorted {
        let loc = &t.location;
        let l = listed.iter().find(|m| m.location == *loc).unwrap();
        if !same(l, t) {
            return Some(("list-entry", format!("list reports {} for {loc}, the last commit is {}", show(l), show(t))));
        }
        if let Some(d) = delim.iter().find(|m| m.location == *loc)
            && !same(d, t)
        {
            return Some(("list_with_delimiter-entry", format!("list_with_delimiter reports {} for {loc}, the last commit is {}", show(d), show(t))));
        }
        let want = match fresh.get(loc).await {
            Ok(r) => match r.bytes().await {
                Ok(b) => b,
                Err(e) => return Some(("fresh-get-failed", e.to_string())),
            },
            Err(e) => return Some(("fresh-get-failed", e.to_string())),
        };
        let len = t.size;
        if len > 0 {
            let ranges = [0..len, len - 1..len];
            match live.get_ranges(loc, &ranges).await {
                Ok(v) => {
                    if v[0] != want || v[1][..] != want[(len - 1) as usize..] {
                        return Some(("get_ranges-bytes", format!("get_ranges({loc}, [0..{len}, {}..{len}]) answered other bytes than the last commit", len - 1)));
                    }
                }
                Err(e) => return Some(("get_ranges", format!("get_ranges({loc}, [0..{len}, ..]) of the last commit's length failed: {e}"))),
            }
        }
        let opts = GetOptions { if_match: t.e_tag.clone(), ..Default::default() };
        match live.get_opts(loc, opts).await {
            Ok(r) => match r.bytes().await {
                Ok(b) if b == want => {}
                Ok(_) => return Some(("if_match-bytes", format!("get({loc}, if_match = latest token) answered other bytes"))),
                Err(e) => return Some(("if_match", format!("get({loc}, if_match = latest token) body failed: {e}"))),
            },
            Err(e) => return Some(("if_match", format!("get({loc}, if_match = latest token) failed: {e}"))),
        }
        match live.head(loc).await {
            Ok(h) if same(&h, t) => {}
            Ok(h) => return Some(("head", format!("head reports {} for {loc}, the last commit is {}", show(&h), show(t)))),
            Err(e) => return Some(("head", format!("head({loc}) failed: {e}"))),
        }
    }
    None
}

/// What one commit of a key reports, read through a fresh wrapper over the
/// backend content right after that commit's metadata put landed.
#[derive(Clone, Debug)]
struct CommitSeen {
    lm: chrono::DateTime<chrono::Utc>,
    e_tag: Option<String>,
    task: usize,
}

/// The reference stamps `last_modified` under its write lock, so along the
/// commit order of one key timestamps never decrease, and a date condition
/// built from commit N's timestamp, evaluated after commit N+1, answers
/// accordingly: `if_modified_since(T_N)` returns the new object (NotModified
/// only when both commits carry the very same instant),
/// `if_unmodified_since(T_N)` is refused (passes only for the same instant).
///
/// Commit order = order of the `meta/<key>` puts in the backend journal; each
/// commit is observed through a FRESH wrapper over `start` + journal prefix
/// (API level: head, get with date conditions). The last pair of every key
/// is also evaluated through the live instance. Returns (what, text, commits).
fn commit_order_check(
    wrap: Wrap,
    start: &BackendContent,
    entries: &[vcore::ctlstore::JournalEntry],
    live: &dyn ObjectStore,
) -> (Option<(&'static str, String)>, u64) {
    use object_store::GetOptions;
    let mut content = start.clone();
    let mut last: [Option<CommitSeen>; 3] = [None, None, None];
    // (previous, latest) commit of each key, for the live-instance check
    let mut pair: [Option<(CommitSeen, CommitSeen)>; 3] = [None, None, None];
    let mut commits = 0u64;
    // the commit each key starts with
    {
        let fresh = build(wrap, restore(&content));
        for k in 0..3u8 {
            if let Ok(m) = util::block_on(fresh.head(&key(k))) {
                last[k as usize] = Some(CommitSeen { lm: m.last_modified, e_tag: m.e_tag, task: usize::MAX });
            }
        }
    }
    let who = |t: usize| if t == usize::MAX { "the setup".to_string() } else { format!("task {t}") };
    for e in entries {
        apply_mutation(&mut content, &e.mutation);
        let Mutation::Put { path, .. } = &e.mutation else { continue };
        let Some(k) = (0..3u8).find(|k| *path == format!("meta/{}", KEYS[*k as usize])) else { continue };
        let loc = key(k);
        let fresh = build(wrap, restore(&content));
        let Ok(m) = util::block_on(fresh.head(&loc)) else { continue };
        commits += 1;
        let now = CommitSeen { lm: m.last_modified, e_tag: m.e_tag.clone(), task: e.task };
        if let Some(prev) = &last[k as usize]
            && prev.e_tag != now.e_tag
        {
            if now.lm < prev.lm {
                return (
                    Some((
                        "last_modified-decreases-along-commit-order",
                        format!(
                            "{}: the commit of {} reports last_modified {} although the commit before it (of {}) reports {}",
                            KEYS[k as usize],
                            who(now.task),
                            now.lm.timestamp_millis(),
                            who(prev.task),
                            prev.lm.timestamp_millis()
                        ),
                    )),
                    commits,
                );
            }
            // date conditions built from the previous commit's timestamp
            let same_instant = now.lm == prev.lm;
            let ims = GetOptions { if_modified_since: Some(prev.lm), ..Default::default() };
            let r = util::block_on(fresh.get_opts(&loc, ims));
            let ok = match &r {
                Ok(_) => true,
                Err(object_store::Error::NotModified { .. }) => same_instant,
                Err(_) => false,
            };
            if !ok {
                return (
                    Some((
                        "if_modified_since-misses-later-commit",
                        format!(
                            "{}: get(if_modified_since = last_modified of the previous commit) after the commit of {} answered {:?}",
                            KEYS[k as usize],
                            who(now.task),
                            r.as_ref().err().map(class_of)
                        ),
                    )),
                    commits,
                );
            }
            let ius = GetOptions { if_unmodified_since: Some(prev.lm), ..Default::default() };
            let r = util::block_on(fresh.get_opts(&loc, ius));
            let ok = match &r {
                Err(object_store::Error::Precondition { .. }) => true,
                Ok(_) => same_instant,
                Err(_) => false,
            };
            if !ok {
                return (
                    Some((
                        "if_unmodified_since-passes-after-later-commit",
                        format!(
                            "{}: get(if_unmodified_since = last_modified of the previous commit) after the commit of {} answered {}",
                            KEYS[k as usize],
                            who(now.task),
                            match &r {
                                Ok(_) => "Ok".to_string(),
                                Err(e) => format!("{:?}", class_of(e)),
                            }
                        ),
                    )),
                    commits,
                );
            }
        }
        pair[k as usize] = last[k as usize].take().filter(|p| p.e_tag != now.e_tag).map(|p| (p, now.clone()));
        last[k as usize] = Some(now);
    }
    // the same two questions to the LIVE instance about each key's final commit
    for k in 0..3u8 {
        let Some((prev, now)) = &pair[k as usize] else { continue };
        let loc = key(k);
        match util::block_on(live.head(&loc)) {
            Ok(m) if m.e_tag == now.e_tag => {}
            _ => continue, // deleted or renamed away afterwards
        }
        let same_instant = now.lm == prev.lm;
        let ims = GetOptions { if_modified_since: Some(prev.lm), ..Default::default() };
        let r = util::block_on(live.get_opts(&loc, ims));
        if !matches!(&r, Ok(_)) && !(same_instant && matches!(&r, Err(object_store::Error::NotModified { .. }))) {
            return (
                Some((
                    "live/if_modified_since-misses-later-commit",
                    format!(
                        "{}: the live instance answered {:?} to get(if_modified_since = last_modified of the previous commit)",
                        KEYS[k as usize],
                        r.as_ref().err().map(class_of)
                    ),
                )),
                commits,
            );
        }
        let ius = GetOptions { if_unmodified_since: Some(prev.lm), ..Default::default() };
        let r = util::block_on(live.get_opts(&loc, ius));
        if !matches!(&r, Err(object_store::Error::Precondition { .. })) && !(same_instant && r.is_ok()) {
            return (
                Some((
                    "live/if_unmodified_since-passes-after-later-commit",
                    format!(
                        "{}: the live instance answered {} to get(if_unmodified_since = last_modified of the previous commit)",
                        KEYS[k as usize],
                        match &r {
                            Ok(_) => "Ok".to_string(),
                            Err(e) => format!("{:?}", class_of(e)),
                        }
                    ),
                )),
                commits,
            );
        }
    }
    (None, commits)
}

type BackendContent = vcore::ctlstore::Content;

async fn content_of(store: &dyn ObjectStore) -> Result<Content, String> {
    let mut out: Content = [None, None, None];
    for k in 0..3u8 {
        match store.get(&key(k)).await {
            Ok(r) => match r.bytes().await {
                Ok(b) => out[k as usize] = Some(b.to_vec()),
                Err(e) => return Err(format!("get({}) body failed: {e}", KEYS[k as usize])),
            },
            Err(object_store::Error::NotFound { .. }) => {}
            Err(e) => return Err(format!("get({}) failed: {e}", KEYS[k as usize])),
        }
    }
    Ok(out)
}

fn tag(b: &[u8]) -> String {
    format!("{}B#{:08x}", b.len(), util::fnv64(b) as u32)
}

fn describe(c: &Content) -> String {
    c.iter()
        .enumerate()
        .map(|(i, v)| match v {
            None => format!("{}=absent", KEYS[i]),
            Some(b) => format!("{}={}", KEYS[i], tag(b)),
        })
        .collect::<Vec<_>>()
        .join(" ")
}

fn describe_outs(o: &[Vec<ActOut>]) -> String {
    o.iter()
        .map(|t| {
            t.iter()
                .map(|a| match &a.body {
                    Some(b) => format!("{:?}:{}", a.class, tag(b)),
                    None if !a.parts.is_empty() => {
                        format!("{:?}:[{}]", a.class, a.parts.iter().map(|b| tag(b)).collect::<Vec<_>>().join(","))
                    }
                    None => match &a.listing {
                        Some(l) => format!(
                            "{:?}:{{{}}}",
                            a.class,
                            l.iter()
                                .map(|(n, s)| if *s == u64::MAX { n.clone() } else { format!("{n}={s}B") })
                                .collect::<Vec<_>>()
                                .join(",")
                        ),
                        None => format!("{:?}", a.class),
                    },
                })
                .collect::<Vec<_>>()
                .join("+")
        })
        .collect::<Vec<_>>()
        .join(" / ")
}

/// `rename` is documented (object_store default, and the wrappers' docs:
/// "rename_opts is not atomic. It is copy-then-delete at the commit level")
/// as two commits; every other action is one atomic step.
fn atomic_steps(task: &[Act]) -> Vec<(usize, Act)> {
    let mut out = Vec::new();
    for (i, a) in task.iter().enumerate() {
        match a {
            Act::M(Op::Rename { from, to, create }) if from != to => {
                out.push((i, Act::M(Op::Copy { from: *from, to: *to, create: *create })));
                out.push((i, Act::M(Op::Delete { key: *from })));
            }
            other => out.push((i, other.clone())),
        }
    }
    out
}

/// All interleavings of sequences with the given lengths.
fn merges(lens: &[usize]) -> Vec<Vec<usize>> {
    fn rec(left: &mut Vec<usize>, cur: &mut Vec<usize>, out: &mut Vec<Vec<usize>>) {
        if left.iter().all(|x| *x == 0) {
            out.push(cur.clone());
            return;
        }
        for t in 0..left.len() {
            if left[t] > 0 {
                left[t] -= 1;
                cur.push(t);
                rec(left, cur, out);
                cur.pop();
                left[t] += 1;
            }
        }
    }
    let mut out = Vec::new();
    rec(&mut lens.to_vec(), &mut Vec::new(), &mut out);
    out
}

type Serial = (Vec<Vec<ActOut>>, Content, Vec<usize>);

/// Every serial order of the atomic steps of the tasks, run on the
/// reference store. An action whose step fails skips its remaining steps.
fn serial_outcomes(scn: &Scn) -> Vec<Serial> {
    let steps: Vec<Vec<(usize, Act)>> = scn.tasks.iter().map(|t| atomic_steps(t)).collect();
    let lens: Vec<usize> = steps.iter().map(|s| s.len()).collect();
    let mut out: Vec<Serial> = Vec::new();
    for order in merges(&lens) {
        let store = InMemory::new();
        let r = util::block_on(async {
            let mut book = Book::default();
            for op in &scn.setup {
                apply_tracked(&store, &mut book, op).await;
            }
            let frozen = book.clone();
            let mut outs: Vec<Vec<Option<ActOut>>> = scn.tasks.iter().map(|t| vec![None; t.len()]).collect();
            let mut at = vec![0usize; steps.len()];
            for t in &order {
                let t = *t;
                let (ai, act) = &steps[t][at[t]];
                at[t] += 1;
                if matches!(&outs[t][*ai], Some(o) if o.class != Class::Ok) {
                    continue; // this action already failed and stopped
                }
                let o = match act {
                    Act::M(op) => ActOut::new(norm(op, apply(&store, &frozen, op).await.class), None),
                    Act::Get(k) => get_act(&store, *k).await,
                    Act::Ranges(k, rs) => ranges_act(&store, *k, rs).await,
                    Act::List | Act::ListOff | Act::ListDelim => list_act(&store, act).await,
                    Act::GetIfMatch(k) => get_if_act(&store, *k, frozen.tok_latest(*k), false).await,
                    Act::GetIfNoneMatch(k) => get_if_act(&store, *k, frozen.tok_latest(*k), true).await,
                };
                outs[t][*ai] = Some(o);
            }
            let outs: Vec<Vec<ActOut>> =
                outs.into_iter().map(|t| t.into_iter().map(|o| o.expect("every action ran")).collect()).collect();
            (outs, content_of(&store).await.expect("reference content"))
        });
        let listings = |o: &Vec<Vec<ActOut>>| -> Vec<Option<Vec<(String, u64)>>> {
            o.iter().flat_map(|t| t.iter().map(|a| a.listing.clone())).collect()
        };
        if !out.iter().any(|(c, f, _)| *c == r.0 && *f == r.1 && listings(c) == listings(&r.0)) {
            out.push((r.0, r.1, order));
        }
    }
    out
}

/// A listing that overlaps commits is not a snapshot (the backend is
/// enumerated, then every commit point is read), so it need not equal the
/// listing of one serial order as a whole. Judged key by key: what it reports
/// for a location (absent, or present with a size; a common prefix present or
/// not) must be what the reference listing reports for that location in SOME
/// serial order. Locations the racing tasks do not touch read the same in
/// every order, so they must all be there, with their size; for a listing
/// racing one delete this is exactly "the reference listing before or after
/// the delete".
fn listing_check(scn: &Scn, serial: &[Serial], outs: &[Vec<ActOut>], not_a_snapshot: &mut u64) -> Option<String> {
    for (t, acts) in scn.tasks.iter().enumerate() {
        for (i, act) in acts.iter().enumerate() {
            if !act.is_listing() {
                continue;
            }
            let Some(mine) = &outs[t][i].listing else { continue };
            let legal: Vec<&Vec<(String, u64)>> = serial.iter().filter_map(|(so, _, _)| so[t][i].listing.as_ref()).collect();
            if !legal.contains(&mine) {
                *not_a_snapshot += 1; // fits key by key (below) or not at all
            }
            let mut names: BTreeSet<&str> = mine.iter().map(|(n, _)| n.as_str()).collect();
            for l in &legal {
                names.extend(l.iter().map(|(n, _)| n.as_str()));
            }
            let at = |l: &Vec<(String, u64)>, n: &str| l.iter().find(|(x, _)| x == n).map(|(_, s)| *s);
            for n in names {
                let got = at(mine, n);
                if !legal.iter().any(|l| at(l, n) == got) {
                    let show = |v: Option<u64>| match v {
                        None => "absent".to_string(),
                        Some(u64::MAX) => "a common prefix".to_string(),
                        Some(s) => format!("{s} bytes"),
                    };
                    let mut want: Vec<String> = legal.iter().map(|l| show(at(l, n))).collect();
                    want.sort();
                    want.dedup();
                    return Some(format!(
                        "task {t}: the listing reports {n} as {}, the reference listing reports it as {} (over all serial orders); listing = {:?}",
                        show(got),
                        want.join(" or "),
                        mine
                    ));
                }
            }
        }
    }
    None
}

struct ExecOut {
    outcome: String,
    violation: Option<Violation>,
    steps: usize,
    labels: Vec<String>,
    /// commits whose timestamp was compared with their predecessor's
    commits_checked: u64,
    /// listings that equal the reference listing of no single serial order
    /// (judged key by key)
    listings_not_a_snapshot: u64,
}

fn canon_labels(labels: &[vcore::ctlstore::Label]) -> Vec<String> {
    // generation names carry a random salt: number them by first appearance
    let mut names: BTreeMap<String, usize> = BTreeMap::new();
    labels
        .iter()
        .map(|l| {
            let path = if l.path.starts_with("gen/") {
                match l.path.rsplit_once('/') {
                    Some((k, g)) => {
                        let n = names.len();
                        let id = *names.entry(g.to_string()).or_insert(n);
                        format!("{k}/G{id}")
                    }
                    None => l.path.clone(),
                }
            } else {
                l.path.clone()
            };
            format!("t{}:{}:{}", l.task, l.op, path)
        })
        .collect()
}

/// Names the kind of non-serializable outcome (the signature suffix).
///
/// `not-serializable` is reserved for the one recorded deviation: every
/// mutation answer and the final content fit a serial order, and the only
/// misfit is a get answering NotFound after being overtaken by TWO OR MORE
/// commits of the key (the read paths re-resolve a stale pointer once). A
/// get failing after a single overtake, a get answering bytes, or misfitting
/// mutation answers / final content get their own names.
fn classify(
    scn: &Scn,
    serial: &[Serial],
    outs: &[Vec<ActOut>],
    fin: &Content,
    labels: &[vcore::ctlstore::Label],
) -> &'static str {
    // do the answers fit a serial order once the gets are ignored?
    let strip = |o: &[Vec<ActOut>]| -> Vec<Vec<Option<ActOut>>> {
        o.iter()
            .zip(&scn.tasks)
            .map(|(t, acts)| t.iter().zip(acts).map(|(a, act)| if act.read_key().is_some() { None } else { Some(a.clone()) }).collect())
            .collect()
    };
    // a listing that fails although it succeeds in every serial order
    for (t, acts) in scn.tasks.iter().enumerate() {
        for (i, act) in acts.iter().enumerate() {
            if act.is_listing() && outs[t][i].class != Class::Ok && serial.iter().all(|(so, _, _)| so[t][i].class == Class::Ok) {
                return "listing-failed";
            }
        }
    }
    let mine = strip(outs);
    if !serial.iter().any(|(so, sf, _)| strip(so) == mine && sf == fin) {
        return "mutation-answers-or-final-content";
    }
    let mut worst = "get-answered-unserializable-value";
    for (t, acts) in scn.tasks.iter().enumerate() {
        for (i, act) in acts.iter().enumerate() {
            let Some(k) = act.read_key() else { continue };
            let k = &k;
            let a = &outs[t][i];
            // values this get answers in some serial order
            let legal: Vec<&ActOut> = serial.iter().map(|(so, _, _)| &so[t][i]).collect();
            if legal.contains(&a) {
                continue;
            }
            if matches!(act, Act::GetIfMatch(_) | Act::GetIfNoneMatch(_)) {
                // e.g. bytes of a commit whose token the condition rules out
                return "conditional-get-answered-as-in-no-serial-order";
            }
            if matches!(act, Act::Ranges(..)) && a.class == Class::Ok {
                // every body taken alone is what some serial order answers for
                // that range, but no single order answers all of them: one call
                // returned bytes of two commits
                let each_held = a.parts.iter().enumerate().all(|(j, b)| legal.iter().any(|l| l.parts.get(j) == Some(b)));
                return if each_held && a.parts.len() == legal.iter().map(|l| l.parts.len()).max().unwrap_or(0) {
                    "get_ranges-answered-bytes-of-two-commits"
                } else {
                    "get_ranges-answered-bytes-never-written"
                };
            }
            if let Some(b) = &a.body {
                let ever_held = legal.iter().any(|l| l.body.as_ref() == Some(b));
                if !ever_held {
                    return "get-answered-bytes-never-written";
                }
                continue;
            }
            if a.class != Class::NotFound {
                return "get-failed-with-other-error";
            }
            // NotFound although every serial order answers. The documented
            // design re-resolves a stale pointer once: if this task read the
            // payload of two DIFFERENT generations of the key and both were
            // gone, two commits overtook it (the recorded deviation). If it
            // gave up after one payload read, or read the same generation
            // twice, a single overtake was enough: a different defect.
            let prefix = format!("gen/{}/", KEYS[*k as usize]);
            let mut gens: Vec<&str> = labels
                .iter()
                .filter(|l| l.task == t && l.path.starts_with(&prefix) && !l.path[prefix.len()..].contains('/'))
                .map(|l| l.path.as_str())
                .collect();
            gens.sort();
            gens.dedup();
            let overtakes = gens.len();
            if overtakes >= 2 {
                worst = "not-serializable";
            } else {
                return "get-NotFound-after-single-overtake";
            }
        }
    }
    worst
}

fn run_one(wrap: Wrap, scn: &Scn, serial: &[Serial], ch: &mut Chooser) -> ExecOut {
    anda_db_utils::verif::set_clock(Some((1_700_000_000_000, 1000)));
    let (ctl_store, ctl) = CtlStore::new();
    let inner: Arc<dyn ObjectStore> = ctl_store.clone();
    let store = build(wrap, inner.clone());
    let mut book = Book::default();
    util::block_on(async {
        // cold scenarios: the setup goes through another instance
        let setup_store = if scn.cold { build(wrap, inner.clone()) } else { store.clone() };
        for op in &scn.setup {
            let o = apply_tracked(setup_store.as_ref(), &mut book, op).await;
            assert_eq!(o.class, Class::Ok, "setup op failed: {}", o.err);
        }
    });
    let frozen = book.clone();
    let start_content = snapshot(ctl_store.inner());
    let journal_start = ctl.journal_len();
    ctl.set_gate(true);
    // responses in flight are scheduling points too
    ctl.set_post_gate(true);
    ctl.keep_labels(true);
    // per task: results of its actions, and the token each successful put returned
    let results: Vec<RefCell<Vec<(ActOut, Option<String>)>>> = scn.tasks.iter().map(|_| RefCell::new(Vec::new())).collect();
    let end;
    let steps;
    // (task polled, journal length at that moment), one entry per poll
    let switches: RefCell<Vec<(usize, usize)>> = RefCell::new(Vec::new());
    {
        let mut sched = Sched::new();
        let store_ref: &dyn ObjectStore = store.as_ref();
        for (t, acts) in scn.tasks.iter().enumerate() {
            let cell = &results[t];
            let fz = &frozen;
            sched.spawn(&format!("t{t}"), async move {
                for a in acts {
                    let r = match a {
                        Act::M(op) => {
                            let o = apply(store_ref, fz, op).await;
                            (ActOut::new(norm(op, o.class), None), o.etag)
                        }
                        Act::Get(k) => (get_act(store_ref, *k).await, None),
                        Act::Ranges(k, rs) => (ranges_act(store_ref, *k, rs).await, None),
                        Act::List | Act::ListOff | Act::ListDelim => (list_act(store_ref, a).await, None),
                        Act::GetIfMatch(k) => (get_if_act(store_ref, *k, fz.tok_latest(*k), false).await, None),
                        Act::GetIfNoneMatch(k) => (get_if_act(store_ref, *k, fz.tok_latest(*k), true).await, None),
                    };
                    cell.borrow_mut().push(r);
                }
            });
        }
        let ctl2 = ctl.clone();
        let sw = &switches;
        sched.on_switch = Some(Box::new(move |t| {
            ctl2.set_task(t);
            sw.borrow_mut().push((t, ctl2.journal_len()));
        }));
        end = sched.run(ch, 10_000);
        steps = sched.steps.len();
    }
    ctl.set_gate(false);
    let race_journal = ctl.journal_from(journal_start);
    // only the calls of the tasks: the checks below read through the same store
    ctl.keep_labels(false);
    let raw_labels = ctl.labels();
    let labels = canon_labels(&raw_labels);
    let replay = json!({"wrap": wrap, "scenario": scn.name, "choices": ch.choices()});
    let viol = |what: &str, text: String| {
        Some(Violation {
            signature: format!("C07/step/{}/{}/{}", if wrap == Wrap::Enc(7) { "enc7" } else { wrap.kind() }, scn.name, what),
            summary: format!("{} {}: {} [schedule {:?}]", wrap.label(), scn.name, text, ch.choices()),
            replay: replay.clone(),
        })
    };
    if end != RunEnd::AllDone {
        return ExecOut { outcome: format!("{end:?}"), violation: viol("not-finished", format!("{end:?}")), steps, labels, commits_checked: 0, listings_not_a_snapshot: 0 };
    }
    let raw: Vec<Vec<(ActOut, Option<String>)>> = results.iter().map(|c| c.borrow().clone()).collect();
    let outs: Vec<Vec<ActOut>> = raw.iter().map(|t| t.iter().map(|(a, _)| a.clone()).collect()).collect();
    // reads afterwards: the live instance and a fresh one must agree
    let cold = build(wrap, ctl_store.clone());
    if let Some((what, text)) = util::block_on(post_race(store.as_ref(), cold.as_ref())) {
        let v = viol(&format!("post-race/{what}"), text);
        return ExecOut { outcome: format!("{} -> post-race {what}", describe_outs(&outs)), violation: v, steps, labels, commits_checked: 0, listings_not_a_snapshot: 0 };
    }
    let (warm_c, cold_c) = util::block_on(async { (content_of(store.as_ref()).await, content_of(cold.as_ref()).await) });
    let outcome;
    let mut violation = None;
    let mut commits_checked = 0u64;
    let mut listings_not_a_snapshot = 0u64;
    match (&warm_c, &cold_c) {
        (Ok(w), Ok(c)) => {
            outcome = format!("{} -> {}", describe_outs(&outs), describe(w));
            if w != c {
                violation = viol(
                    "warm-cold-disagree",
                    format!("live instance reads {} but a fresh instance reads {}", describe(w), describe(c)),
                );
            } else if !serial.iter().any(|(so, sf, _)| *so == outs && sf == w) {
                let what = classify(scn, serial, &outs, w, &raw_labels);
                violation = viol(
                    what,
                    format!(
                        "answers {} with final content {} match no serial order: {}",
                        describe_outs(&outs),
                        describe(w),
                        serial
                            .iter()
                            .map(|(o, f, ord)| format!("order {ord:?}: {} -> {}", describe_outs(o), describe(f)))
                            .collect::<Vec<_>>()
                            .join(" | ")
                    ),
                );
            } else {
                // head / list agree with the content and the winner's token
                let check = util::block_on(async {
                    for (name, s) in [("live", &store), ("fresh", &cold)] {
                        let listed: BTreeSet<String> = {
                            use futures::TryStreamExt;
                            match s.list(None).try_collect::<Vec<_>>().await {
                                Ok(v) => v.into_iter().map(|m| m.location.to_string()).collect(),
                                Err(e) => return Some(format!("{name} list failed: {e}")),
                            }
                        };
                        for k in 0..3u8 {
                            let present = w[k as usize].is_some();
                            if listed.contains(KEYS[k as usize]) != present {
                                return Some(format!("{name} list and get disagree on {}", KEYS[k as usize]));
                            }
                            let Some(b) = &w[k as usize] else { continue };
                            let m = match s.head(&key(k)).await {
                                Ok(m) => m,
                                Err(e) => return Some(format!("{name} head({}) failed: {e}", KEYS[k as usize])),
                            };
                            if m.size != b.len() as u64 {
                                return Some(format!("{name} head size {} != {} bytes read", m.size, b.len()));
                            }
                            // a put that reported success and whose bytes survive owns the token
                            for (t, acts) in scn.tasks.iter().enumerate() {
                                for (i, a) in acts.iter().enumerate() {
                                    if let Act::M(Op::Put { key: pk, size, var, .. }) = a
                                        && *pk == k
                                        && raw[t][i].0.class == Class::Ok
                                        && payload(*size as usize, *var).as_ref() == b.as_slice()
                                        && m.e_tag != raw[t][i].1
                                    {
                                        return Some(format!(
                                            "{name} head token {:?} is not the one the winning put returned {:?}",
                                            m.e_tag, raw[t][i].1
                                        ));
                                    }
                                }
                            }
                        }
                    }
                    None
                });
                if let Some(text) = check {
                    violation = viol("reads-inconsistent", text);
                }
            }
            if violation.is_none()
                && let Some(text) = listing_check(scn, serial, &outs, &mut listings_not_a_snapshot)
            {
                violation = viol("listing-entry-from-no-serial-order", text);
            }
            if violation.is_none() {
                let (bad, n) = commit_order_check(wrap, &start_content, &race_journal, store.as_ref());
                commits_checked = n;
                if let Some((what, text)) = bad {
                    violation = viol(&format!("commit-order/{what}"), text);
                }
            }
        }
        (Err(e), _) | (_, Err(e)) => {
            outcome = format!("{} -> unreadable", describe_outs(&outs));
            violation = viol("unreadable-after", e.clone());
        }
    }
    ExecOut { outcome, violation, steps, labels, commits_checked, listings_not_a_snapshot }
}

fn main() {
    let mut run = Run::from_args("C07", "step", "model_checking");
    let scns = scenarios();
    if let Some(file) = run.replay_file.clone() {
        let doc: serde_json::Value = serde_json::from_slice(&std::fs::read(&file).expect("read replay")).expect("json");
        let r = &doc["replay"];
        let wrap: Wrap = serde_json::from_value(r["wrap"].clone()).expect("wrap");
        let name = r["scenario"].as_str().expect("scenario");
        let choices: Vec<u32> = serde_json::from_value(r["choices"].clone()).expect("choices");
        let scn = scns.iter().find(|s| s.name == name).expect("known scenario");
        let serial = serial_outcomes(scn);
        let mut ch = Chooser::new(choices);
        let out = run_one(wrap, scn, &serial, &mut ch);
        println!("replayed {} {}: {} ({} steps)", wrap.label(), name, out.outcome, out.steps);
        for l in &out.labels {
            println!("   {l}");
        }
        run.add("traces_validated_against_impl", 1);
        if let Some(v) = out.violation {
            println!("  -> {}", v.summary);
            run.violation(v);
        }
        run.finish();
    }
    let bound = run.tier.pick(3u32, 8u32);
    let threads = util::n_threads();
    let mut table = Vec::new();
    // the multi-range scenarios also at chunk size 7 (five chunks, spans 0, 2, 4)
    for wrap in [Wrap::Meta, Wrap::Enc(16), Wrap::Enc(7)] {
        for scn in &scns {
            if wrap == Wrap::Enc(7) && !scn.name.starts_with("get_ranges") {
                continue;
            }
            let serial = serial_outcomes(scn);
            // the multi-range reader has 2-3 times the scheduling points of the
            // other tasks: its thorough bound is 6 (the others run empty by 8)
            let bound = if scn.name.starts_with("get_ranges") { bound.min(6) } else { bound };
            // determinism of the harness: the default schedule twice
            let a = run_one(wrap, scn, &serial, &mut Chooser::new(vec![]));
            let b = run_one(wrap, scn, &serial, &mut Chooser::new(vec![]));
            if a.labels != b.labels || a.outcome != b.outcome {
                vcore::report::machinery(&format!(
                    "nondeterministic harness {} {}: {:?} vs {:?}",
                    wrap.label(),
                    scn.name,
                    a.labels,
                    b.labels
                ));
            }
            let deadline = Instant::now() + Duration::from_secs_f64(run.remaining_s().max(1.0));
            let mut outcomes: BTreeMap<String, u64> = BTreeMap::new();
            let mut viols: Vec<Violation> = Vec::new();
            let mut steps_total = 0u64;
            let mut commits_total = 0u64;
            let mut not_snapshot_total = 0u64;
            let stats = explore(
                bound,
                threads,
                deadline,
                3_000_000,
                |ch| run_one(wrap, scn, &serial, ch),
                |_choices, out: ExecOut| {
                    *outcomes.entry(out.outcome.clone()).or_insert(0) += 1;
                    steps_total += out.steps as u64;
                    commits_total += out.commits_checked;
                    not_snapshot_total += out.listings_not_a_snapshot;
                    if let Some(v) = out.violation {
                        viols.push(v);
                    }
                    true
                },
            );
            run.add("executions", stats.executions);
            run.add("traces_validated_against_impl", stats.executions);
            run.add("transitions", steps_total);
            run.add("commits_compared_with_their_predecessor", commits_total);
            run.add("listings_equal_to_no_single_serial_order_but_legal_key_by_key", not_snapshot_total);
            run.add("evaluations", stats.executions);
            run.add("states", outcomes.len() as u64);
            for o in outcomes.keys() {
                run.distinct(util::fnv64(format!("{}|{}|{o}", wrap.kind(), scn.name).as_bytes()));
            }
            if stats.capped || stats.completed_bound != Some(bound) {
                run.cap_hit(&format!(
                    "{} {}: stopped at preemption bound {:?} of {bound} ({} schedules pending)",
                    wrap.label(),
                    scn.name,
                    stats.completed_bound,
                    stats.pending_left
                ));
            }
            let row = json!({
                "wrapper": wrap.label(),
                "scenario": scn.name,
                "schedules": stats.executions,
                "per_preemption_level": stats.per_level,
                "max_choice_points": stats.max_depth,
                "preemption_bound_completed": stats.completed_bound,
                "serial_outcomes": serial.iter().map(|(o, f, ord)| format!("{ord:?}: {} -> {}", describe_outs(o), describe(f))).collect::<Vec<_>>(),
                "observed_outcomes": outcomes,
            });
            if table.len() % 5 == 0 {
                run.sample(row.clone());
            }
            table.push(row);
            // sorted by schedule so the reported one does not depend on thread timing
            viols.sort_by(|a, b| a.summary.cmp(&b.summary));
            for v in viols {
                run.violation(v);
            }
        }
    }
    run.set("harnesses", json!(table));
    run.set("preemption_bound", json!(bound));
    run.rule(
        "per wrapper {MetaStore, EncryptedStore(cs=16); the get_ranges scenarios also EncryptedStore(cs=7)} and scenario (two or three tasks on one key through one wrapper instance over a gated backend; a task is a mutation, a full get, a full get with if_match / if_none_match = the token of the key's setup commit (racing put / Update / copy-onto: the condition must hold for the commit the answer comes from), a listing (list / list_with_offset / list_with_delimiter; each racing delete and rename-away of a key the instance never read, list also racing put / copy-onto / multipart / Update), or ONE get_ranges call of 3-5 ranges in different chunk spans of a three-chunk object racing an equally long overwrite by put / Update / multipart / copy-onto / rename-onto, warm and cold): every schedule of inner-store calls with at most `preemption_bound` preemptions (the get_ranges scenarios: at most 6 in the thorough tier; per-harness bounds are in `harnesses`); \
         oracle = answers of every action (for get_ranges: all bodies of the one call, so they must come from one commit) and final content of all keys equal some serial order of the tasks' atomic steps run on InMemory (a rename is two steps, copy then delete of the source, as documented; everything else is one); a listing must answer with the class of that serial order, and what it reports for each location (absent / size / common prefix) must be what the reference listing reports for that location in some serial order - untouched locations all present with their size; for a listing racing one delete that is the reference listing before or after the delete; a listing overlapping a two-step rename need not be a snapshot, counted in listings_equal_to_no_single_serial_order_but_legal_key_by_key; after all tasks returned the live instance's list / list_with_delimiter entries, get_ranges at the length boundaries, get with if_match = latest token and head must reflect the last completed commit as a fresh instance reports it (checked before any plain get, which would heal a stale pointer; a listing that overlaps a commit may itself report either version), live and fresh instance read the same, head/list agree, a surviving put's token is the one it returned; \
         commit order (under a logical clock that advances on every reading): every commit of a key = every meta/<key> put in the backend journal, observed through a fresh instance over the journal prefix: last_modified never decreases from one commit of a key to the next, and get(if_modified_since = T of the previous commit) answers the new object, get(if_unmodified_since = that T) is refused (the other answer only for the very same instant), on the fresh instance at every commit and on the live instance at the end; \
         distinct = distinct observed (answers, final content) outcomes per harness; states = same; transitions = task polls",
    );
    run.assume("code between two backend calls runs atomically (single-threaded executor); one scheduling point before every backend call takes effect and one after it, before its result is delivered (responses in flight), plus wherever a task blocks on the per-key section");
    run.finish();
}

//! C07 / STEP — concurrent callers on one key through one wrapper instance:
//! every interleaving at inner-store-call granularity (preemption bounded)
//! must be equivalent to a serial order (of the tasks' atomic steps: a
//! rename is documented as copy-then-delete) run on a plain `InMemory`
//! store: exactly one of two same-token CAS writers wins, exactly one Create
//! wins, the final content is the winner's, a concurrent get answers a
//! value the key held, reads afterwards agree (on the live instance and on a
//! fresh one).

use object_store::{ObjectStore, ObjectStoreExt, memory::InMemory};
use serde_json::json;
use std::cell::RefCell;
use std::collections::{BTreeMap, BTreeSet};
use std::sync::Arc;
use std::time::{Duration, Instant};
use vcore::choice::{Chooser, explore};
use vcore::ctlstore::CtlStore;
use vcore::step::{RunEnd, Sched};
use vcore::{Run, Violation, util};
use vstore::fix::{Class, KEYS, Wrap, build, class_of, key, payload};
use vstore::hist::apply_tracked;
use vstore::ops::{Book, Mode, Op, Tok, apply};

/// One action of a task: a mutation, or a full get of a key.
#[derive(Clone)]
enum Act {
    M(Op),
    Get(u8),
    /// list(None), drained; while it overlaps a commit it may report either
    /// version, so only its class is part of the answer
    List,
}

#[derive(Clone)]
struct Scn {
    name: &'static str,
    setup: Vec<Op>,
    tasks: Vec<Vec<Act>>,
    /// the setup goes through another wrapper instance: the instance under
    /// test starts with a cold metadata cache
    cold: bool,
}

/// What one action answered: class, body of a get, token of a put.
#[derive(Clone, Debug, PartialEq, Eq)]
struct ActOut {
    class: Class,
    body: Option<Vec<u8>>,
}

fn put(k: u8, var: u8, mode: Mode) -> Op {
    Op::Put { key: k, size: 17, var, mode }
}

fn scenarios() -> Vec<Scn> {
    let init = |k: u8| put(k, 0, Mode::Overwrite);
    let two =
        |name, setup: Vec<Op>, a: Op, b: Op| Scn { name, setup, tasks: vec![vec![Act::M(a)], vec![Act::M(b)]], cold: false };
    let list_vs = |name, setup: Vec<Op>, b: Op| Scn { name, setup, tasks: vec![vec![Act::List], vec![Act::M(b)]], cold: true };
    let upd = |var| put(0, var, Mode::Update(Tok::Latest));
    vec![
        two("update-vs-update-same-token", vec![init(0)], upd(1), upd(2)),
        two("create-vs-create", vec![], put(0, 1, Mode::Create), put(0, 2, Mode::Create)),
        two("update-vs-delete", vec![init(0)], upd(1), Op::Delete { key: 0 }),
        two(
            "put-vs-copy-onto",
            vec![init(0), put(2, 3, Mode::Overwrite)],
            put(0, 1, Mode::Overwrite),
            Op::Copy { from: 2, to: 0, create: false },
        ),
        two(
            "update-vs-copy-onto",
            vec![init(0), put(2, 3, Mode::Overwrite)],
            upd(1),
            Op::Copy { from: 2, to: 0, create: false },
        ),
        two(
            "create-vs-copy-create",
            vec![put(2, 3, Mode::Overwrite)],
            put(0, 1, Mode::Create),
            Op::Copy { from: 2, to: 0, create: true },
        ),
        two(
            "update-vs-multipart",
            vec![init(0)],
            upd(1),
            Op::Multi { key: 0, parts: vec![15, 2, 16], var: 2, abort: false },
        ),
        two(
            "update-vs-rename-onto",
            vec![init(0), put(2, 3, Mode::Overwrite)],
            upd(1),
            Op::Rename { from: 2, to: 0, create: false },
        ),
        two("update-vs-rename-away", vec![init(0)], upd(1), Op::Rename { from: 0, to: 2, create: false }),
        Scn {
            name: "update-vs-update-vs-update",
            setup: vec![init(0)],
            tasks: vec![vec![Act::M(upd(1))], vec![Act::M(upd(2))], vec![Act::M(upd(3))]],
            cold: false,
        },
        Scn {
            name: "update-vs-get",
            setup: vec![init(0)],
            tasks: vec![vec![Act::M(upd(1))], vec![Act::Get(0)]],
            cold: false,
        },
        Scn {
            // one writer (put, an unrelated read, put again) and one reader:
            // inside the documented single-writer contract
            name: "writer-put-read-put-vs-get",
            setup: vec![init(0), put(2, 3, Mode::Overwrite)],
            tasks: vec![
                vec![Act::M(put(0, 1, Mode::Overwrite)), Act::Get(2), Act::M(put(0, 2, Mode::Overwrite))],
                vec![Act::Get(0)],
            ],
            cold: false,
        },
        // a listing overlapping a commit of a key this instance has never read
        list_vs("list-vs-put-cold-key", vec![init(0), put(2, 3, Mode::Overwrite)], Op::Put { key: 0, size: 35, var: 1, mode: Mode::Overwrite }),
        list_vs("list-vs-copy-onto-cold-key", vec![init(0), Op::Put { key: 2, size: 35, var: 3, mode: Mode::Overwrite }], Op::Copy { from: 2, to: 0, create: false }),
        list_vs("list-vs-multipart-cold-key", vec![init(0), put(2, 3, Mode::Overwrite)], Op::Multi { key: 0, parts: vec![15, 2, 16], var: 2, abort: false }),
        list_vs("list-vs-update-cold-key", vec![init(0)], Op::Put { key: 0, size: 35, var: 1, mode: Mode::Update(Tok::Latest) }),
    ]
}

type Content = [Option<Vec<u8>>; 3];

fn norm(op: &Op, c: Class) -> Class {
    // deleting a missing key: Ok or NotFound, store-dependent (object_store docs)
    if matches!(op, Op::Delete { .. }) && c == Class::NotFound { Class::Ok } else { c }
}

async fn get_act(store: &dyn ObjectStore, k: u8) -> ActOut {
    match store.get(&key(k)).await {
        Ok(r) => match r.bytes().await {
            Ok(b) => ActOut { class: Class::Ok, body: Some(b.to_vec()) },
            Err(e) => ActOut { class: class_of(&e), body: None },
        },
        Err(e) => ActOut { class: class_of(&e), body: None },
    }
}

async fn list_act(store: &dyn ObjectStore) -> ActOut {
    use futures::TryStreamExt;
    match store.list(None).try_collect::<Vec<_>>().await {
        Ok(_) => ActOut { class: Class::Ok, body: None },
        Err(e) => ActOut { class: class_of(&e), body: None },
    }
}

/// After all tasks returned: everything the LIVE instance answers must
/// reflect the last completed commit of every key — compared with what a
/// fresh instance reports. Runs before any plain get / head (those heal a
/// stale cached pointer and would hide it). Returns the first disagreement.
async fn post_race(live: &dyn ObjectStore, fresh: &dyn ObjectStore) -> Option<(&'static str, String)> {
    use futures::TryStreamExt;
    use object_store::GetOptions;
    let truth: Vec<object_store::ObjectMeta> = match fresh.list(None).try_collect::<Vec<_>>().await {
        Ok(v) => v,
        Err(e) => return Some(("fresh-list-failed", e.to_string())),
    };
    let same = |a: &object_store::ObjectMeta, b: &object_store::ObjectMeta| {
        a.size == b.size && a.e_tag == b.e_tag && a.last_modified == b.last_modified
    };
    let show = |m: &object_store::ObjectMeta| format!("({}B, {:?}, {})", m.size, m.e_tag, m.last_modified.timestamp_millis());
    let mut listed = match live.list(None).try_collect::<Vec<_>>().await {
        Ok(v) => v,
        Err(e) => return Some(("list-failed", e.to_string())),
    };
    let delim = match live.list_with_delimiter(None).await {
        Ok(r) => r.objects,
        Err(e) => return Some(("list_with_delimiter-failed", e.to_string())),
    };
    listed.sort_by(|a, b| a.location.cmp(&b.location));
    let mut t_sorted = truth.clone();
    t_sorted.sort_by(|a, b| a.location.cmp(&b.location));
    if listed.len() != t_sorted.len() || listed.iter().zip(&t_sorted).any(|(a, b)| a.location != b.location) {
        return Some(("list-keys", format!("live list reports {:?}", listed.iter().map(|m| m.location.to_string()).collect::<Vec<_>>())));
    }
    for t in &t_sorted {
        let loc = &t.location;
        let l = listed.iter().find(|m| m.location == *loc).unwrap();
        if !same(l, t) {
            return Some(("list-entry", format!("list reports {} for {loc}, the last commit is {}", show(l), show(t))));
        }
        if let Some(d) = delim.iter().find(|m| m.location == *loc)
            && !same(d, t)
        {
            return Some(("list_with_delimiter-entry", format!("list_with_delimiter reports {} for {loc}, the last commit is {}", show(d), show(t))));
        }
        let want = match fresh.get(loc).await {
            Ok(r) => match r.bytes().await {
                Ok(b) => b,
                Err(e) => return Some(("fresh-get-failed", e.to_string())),
            },
            Err(e) => return Some(("fresh-get-failed", e.to_string())),
        };
        let len = t.size;
        if len > 0 {
            let ranges = [0..len, len - 1..len];
            match live.get_ranges(loc, &ranges).await {
                Ok(v) => {
                    if v[0] != want || v[1][..] != want[(len - 1) as usize..] {
                        return Some(("get_ranges-bytes", format!("get_ranges({loc}, [0..{len}, {}..{len}]) answered other bytes than the last commit", len - 1)));
                    }
                }
                Err(e) => return Some(("get_ranges", format!("get_ranges({loc}, [0..{len}, ..]) of the last commit's length failed: {e}"))),
            }
        }
        let opts = GetOptions { if_match: t.e_tag.clone(), ..Default::default() };
        match live.get_opts(loc, opts).await {
            Ok(r) => match r.bytes().await {
                Ok(b) if b == want => {}
                Ok(_) => return Some(("if_match-bytes", format!("get({loc}, if_match = latest token) answered other bytes"))),
                Err(e) => return Some(("if_match", format!("get({loc}, if_match = latest token) body failed: {e}"))),
            },
            Err(e) => return Some(("if_match", format!("get({loc}, if_match = latest token) failed: {e}"))),
        }
        match live.head(loc).await {
            Ok(h) if same(&h, t) => {}
            Ok(h) => return Some(("head", format!("head reports {} for {loc}, the last commit is {}", show(&h), show(t)))),
            Err(e) => return Some(("head", format!("head({loc}) failed: {e}"))),
        }
    }
    None
}

async fn content_of(store: &dyn ObjectStore) -> Result<Content, String> {
    let mut out: Content = [None, None, None];
    for k in 0..3u8 {
        match store.get(&key(k)).await {
            Ok(r) => match r.bytes().await {
                Ok(b) => out[k as usize] = Some(b.to_vec()),
                Err(e) => return Err(format!("get({}) body failed: {e}", KEYS[k as usize])),
            },
            Err(object_store::Error::NotFound { .. }) => {}
            Err(e) => return Err(format!("get({}) failed: {e}", KEYS[k as usize])),
        }
    }
    Ok(out)
}

fn tag(b: &[u8]) -> String {
    format!("{}B#{:08x}", b.len(), util::fnv64(b) as u32)
}

fn describe(c: &Content) -> String {
    c.iter()
        .enumerate()
        .map(|(i, v)| match v {
            None => format!("{}=absent", KEYS[i]),
            Some(b) => format!("{}={}", KEYS[i], tag(b)),
        })
        .collect::<Vec<_>>()
        .join(" ")
}

fn describe_outs(o: &[Vec<ActOut>]) -> String {
    o.iter()
        .map(|t| {
            t.iter()
                .map(|a| match &a.body {
                    Some(b) => format!("{:?}:{}", a.class, tag(b)),
                    None => format!("{:?}", a.class),
                })
                .collect::<Vec<_>>()
                .join("+")
        })
        .collect::<Vec<_>>()
        .join(" / ")
}

/// `rename` is documented (object_store default, and the wrappers' docs:
/// "rename_opts is not atomic. It is copy-then-delete at the commit level")
/// as two commits; every other action is one atomic step.
fn atomic_steps(task: &[Act]) -> Vec<(usize, Act)> {
    let mut out = Vec::new();
    for (i, a) in task.iter().enumerate() {
        match a {
            Act::M(Op::Rename { from, to, create }) if from != to => {
                out.push((i, Act::M(Op::Copy { from: *from, to: *to, create: *create })));
                out.push((i, Act::M(Op::Delete { key: *from })));
            }
            other => out.push((i, other.clone())),
        }
    }
    out
}

/// All interleavings of sequences with the given lengths.
fn merges(lens: &[usize]) -> Vec<Vec<usize>> {
    fn rec(left: &mut Vec<usize>, cur: &mut Vec<usize>, out: &mut Vec<Vec<usize>>) {
        if left.iter().all(|x| *x == 0) {
            out.push(cur.clone());
            return;
        }
        for t in 0..left.len() {
            if left[t] > 0 {
                left[t] -= 1;
                cur.push(t);
                rec(left, cur, out);
                cur.pop();
                left[t] += 1;
            }
        }
    }
    let mut out = Vec::new();
    rec(&mut lens.to_vec(), &mut Vec::new(), &mut out);
    out
}

type Serial = (Vec<Vec<ActOut>>, Content, Vec<usize>);

/// Every serial order of the atomic steps of the tasks, run on the
/// reference store. An action whose step fails skips its remaining steps.
fn serial_outcomes(scn: &Scn) -> Vec<Serial> {
    let steps: Vec<Vec<(usize, Act)>> = scn.tasks.iter().map(|t| atomic_steps(t)).collect();
    let lens: Vec<usize> = steps.iter().map(|s| s.len()).collect();
    let mut out: Vec<Serial> = Vec::new();
    for order in merges(&lens) {
        let store = InMemory::new();
        let r = util::block_on(async {
            let mut book = Book::default();
            for op in &scn.setup {
                apply_tracked(&store, &mut book, op).await;
            }
            let frozen = book.clone();
            let mut outs: Vec<Vec<Option<ActOut>>> = scn.tasks.iter().map(|t| vec![None; t.len()]).collect();
            let mut at = vec![0usize; steps.len()];
            for t in &order {
                let t = *t;
                let (ai, act) = &steps[t][at[t]];
                at[t] += 1;
                if matches!(&outs[t][*ai], Some(o) if o.class != Class::Ok) {
                    continue; // this action already failed and stopped
                }
                let o = match act {
                    Act::M(op) => ActOut { class: norm(op, apply(&store, &frozen, op).await.class), body: None },
                    Act::Get(k) => get_act(&store, *k).await,
                    Act::List => list_act(&store).await,
                };
                outs[t][*ai] = Some(o);
            }
            let outs: Vec<Vec<ActOut>> =
                outs.into_iter().map(|t| t.into_iter().map(|o| o.expect("every action ran")).collect()).collect();
            (outs, content_of(&store).await.expect("reference content"))
        });
        if !out.iter().any(|(c, f, _)| *c == r.0 && *f == r.1) {
            out.push((r.0, r.1, order));
        }
    }
    out
}

struct ExecOut {
    outcome: String,
    violation: Option<Violation>,
    steps: usize,
    labels: Vec<String>,
}

fn canon_labels(labels: &[vcore::ctlstore::Label]) -> Vec<String> {
    // generation names carry a random salt: number them by first appearance
    let mut names: BTreeMap<String, usize> = BTreeMap::new();
    labels
        .iter()
        .map(|l| {
            let path = if l.path.starts_with("gen/") {
                match l.path.rsplit_once('/') {
                    Some((k, g)) => {
                        let n = names.len();
                        let id = *names.entry(g.to_string()).or_insert(n);
                        format!("{k}/G{id}")
                    }
                    None => l.path.clone(),
                }
            } else {
                l.path.clone()
            };
            format!("t{}:{}:{}", l.task, l.op, path)
        })
        .collect()
}

/// Names the kind of non-serializable outcome (the signature suffix).
///
/// `not-serializable` is reserved for the one recorded deviation: every
/// mutation answer and the final content fit a serial order, and the only
/// misfit is a get answering NotFound after being overtaken by TWO OR MORE
/// commits of the key (the read paths re-resolve a stale pointer once). A
/// get failing after a single overtake, a get answering bytes, or misfitting
/// mutation answers / final content get their own names.
fn classify(
    scn: &Scn,
    serial: &[Serial],
    outs: &[Vec<ActOut>],
    fin: &Content,
    labels: &[vcore::ctlstore::Label],
) -> &'static str {
    // do the answers fit a serial order once the gets are ignored?
    let strip = |o: &[Vec<ActOut>]| -> Vec<Vec<Option<ActOut>>> {
        o.iter()
            .zip(&scn.tasks)
            .map(|(t, acts)| t.iter().zip(acts).map(|(a, act)| if matches!(act, Act::Get(_)) { None } else { Some(a.clone()) }).collect())
            .collect()
    };
    let mine = strip(outs);
    if !serial.iter().any(|(so, sf, _)| strip(so) == mine && sf == fin) {
        return "mutation-answers-or-final-content";
    }
    let mut worst = "get-answered-unserializable-value";
    for (t, acts) in scn.tasks.iter().enumerate() {
        for (i, act) in acts.iter().enumerate() {
            let Act::Get(k) = act else { continue };
            let a = &outs[t][i];
            // values this get answers in some serial order
            let legal: Vec<&ActOut> = serial.iter().map(|(so, _, _)| &so[t][i]).collect();
            if legal.contains(&a) {
                continue;
            }
            if let Some(b) = &a.body {
                let ever_held = legal.iter().any(|l| l.body.as_ref() == Some(b));
                if !ever_held {
                    return "get-answered-bytes-never-written";
                }
                continue;
            }
            if a.class != Class::NotFound {
                return "get-failed-with-other-error";
            }
            // NotFound although every serial order answers. The documented
            // design re-resolves a stale pointer once: if this task read the
            // payload of two DIFFERENT generations of the key and both were
            // gone, two commits overtook it (the recorded deviation). If it
            // gave up after one payload read, or read the same generation
            // twice, a single overtake was enough: a different defect.
            let prefix = format!("gen/{}/", KEYS[*k as usize]);
            let mut gens: Vec<&str> = labels
                .iter()
                .filter(|l| l.task == t && l.path.starts_with(&prefix) && !l.path[prefix.len()..].contains('/'))
                .map(|l| l.path.as_str())
                .collect();
            gens.sort();
            gens.dedup();
            let overtakes = gens.len();
            if overtakes >= 2 {
                worst = "not-serializable";
            } else {
                return "get-NotFound-after-single-overtake";
            }
        }
    }
    worst
}

fn run_one(wrap: Wrap, scn: &Scn, serial: &[Serial], ch: &mut Chooser) -> ExecOut {
    anda_db_utils::verif::set_clock(Some((1_700_000_000_000, 1000)));
    let (ctl_store, ctl) = CtlStore::new();
    let inner: Arc<dyn ObjectStore> = ctl_store.clone();
    let store = build(wrap, inner.clone());
    let mut book = Book::default();
    util::block_on(async {
        // cold scenarios: the setup goes through another instance
        let setup_store = if scn.cold { build(wrap, inner.clone()) } else { store.clone() };
        for op in &scn.setup {
            let o = apply_tracked(setup_store.as_ref(), &mut book, op).await;
            assert_eq!(o.class, Class::Ok, "setup op failed: {}", o.err);
        }
    });
    let frozen = book.clone();
    ctl.set_gate(true);
    // responses in flight are scheduling points too
    ctl.set_post_gate(true);
    ctl.keep_labels(true);
    // per task: results of its actions, and the token each successful put returned
    let results: Vec<RefCell<Vec<(ActOut, Option<String>)>>> = scn.tasks.iter().map(|_| RefCell::new(Vec::new())).collect();
    let end;
    let steps;
    // (task polled, journal length at that moment), one entry per poll
    let switches: RefCell<Vec<(usize, usize)>> = RefCell::new(Vec::new());
    {
        let mut sched = Sched::new();
        let store_ref: &dyn ObjectStore = store.as_ref();
        for (t, acts) in scn.tasks.iter().enumerate() {
            let cell = &results[t];
            let fz = &frozen;
            sched.spawn(&format!("t{t}"), async move {
                for a in acts {
                    let r = match a {
                        Act::M(op) => {
                            let o = apply(store_ref, fz, op).await;
                            (ActOut { class: norm(op, o.class), body: None }, o.etag)
                        }
                        Act::Get(k) => (get_act(store_ref, *k).await, None),
                        Act::List => (list_act(store_ref).await, None),
                    };
                    cell.borrow_mut().push(r);
                }
            });
        }
        let ctl2 = ctl.clone();
        let sw = &switches;
        sched.on_switch = Some(Box::new(move |t| {
            ctl2.set_task(t);
            sw.borrow_mut().push((t, ctl2.journal_len()));
        }));
        end = sched.run(ch, 10_000);
        steps = sched.steps.len();
    }
    ctl.set_gate(false);
    // only the calls of the tasks: the checks below read through the same store
    ctl.keep_labels(false);
    let raw_labels = ctl.labels();
    let labels = canon_labels(&raw_labels);
    let replay = json!({"wrap": wrap, "scenario": scn.name, "choices": ch.choices()});
    let viol = |what: &str, text: String| {
        Some(Violation {
            signature: format!("C07/step/{}/{}/{}", wrap.kind(), scn.name, what),
            summary: format!("{} {}: {} [schedule {:?}]", wrap.label(), scn.name, text, ch.choices()),
            replay: replay.clone(),
        })
    };
    if end != RunEnd::AllDone {
        return ExecOut { outcome: format!("{end:?}"), violation: viol("not-finished", format!("{end:?}")), steps, labels };
    }
    let raw: Vec<Vec<(ActOut, Option<String>)>> = results.iter().map(|c| c.borrow().clone()).collect();
    let outs: Vec<Vec<ActOut>> = raw.iter().map(|t| t.iter().map(|(a, _)| a.clone()).collect()).collect();
    // reads afterwards: the live instance and a fresh one must agree
    let cold = build(wrap, ctl_store.clone());
    if let Some((what, text)) = util::block_on(post_race(store.as_ref(), cold.as_ref())) {
        let v = viol(&format!("post-race/{what}"), text);
        return ExecOut { outcome: format!("{} -> post-race {what}", describe_outs(&outs)), violation: v, steps, labels };
    }
    let (warm_c, cold_c) = util::block_on(async { (content_of(store.as_ref()).await, content_of(cold.as_ref()).await) });
    let outcome;
    let mut violation = None;
    match (&warm_c, &cold_c) {
        (Ok(w), Ok(c)) => {
            outcome = format!("{} -> {}", describe_outs(&outs), describe(w));
            if w != c {
                violation = viol(
                    "warm-cold-disagree",
                    format!("live instance reads {} but a fresh instance reads {}", describe(w), describe(c)),
                );
            } else if !serial.iter().any(|(so, sf, _)| *so == outs && sf == w) {
                let what = classify(scn, serial, &outs, w, &raw_labels);
                violation = viol(
                    what,
                    format!(
                        "answers {} with final content {} match no serial order: {}",
                        describe_outs(&outs),
                        describe(w),
                        serial
                            .iter()
                            .map(|(o, f, ord)| format!("order {ord:?}: {} -> {}", describe_outs(o), describe(f)))
                            .collect::<Vec<_>>()
                            .join(" | ")
                    ),
                );
            } else {
                // head / list agree with the content and the winner's token
                let check = util::block_on(async {
                    for (name, s) in [("live", &store), ("fresh", &cold)] {
                        let listed: BTreeSet<String> = {
                            use futures::TryStreamExt;
                            match s.list(None).try_collect::<Vec<_>>().await {
                                Ok(v) => v.into_iter().map(|m| m.location.to_string()).collect(),
                                Err(e) => return Some(format!("{name} list failed: {e}")),
                            }
                        };
                        for k in 0..3u8 {
                            let present = w[k as usize].is_some();
                            if listed.contains(KEYS[k as usize]) != present {
                                return Some(format!("{name} list and get disagree on {}", KEYS[k as usize]));
                            }
                            let Some(b) = &w[k as usize] else { continue };
                            let m = match s.head(&key(k)).await {
                                Ok(m) => m,
                                Err(e) => return Some(format!("{name} head({}) failed: {e}", KEYS[k as usize])),
                            };
                            if m.size != b.len() as u64 {
                                return Some(format!("{name} head size {} != {} bytes read", m.size, b.len()));
                            }
                            // a put that reported success and whose bytes survive owns the token
                            for (t, acts) in scn.tasks.iter().enumerate() {
                                for (i, a) in acts.iter().enumerate() {
                                    if let Act::M(Op::Put { key: pk, size, var, .. }) = a
                                        && *pk == k
                                        && raw[t][i].0.class == Class::Ok
                                        && payload(*size as usize, *var).as_ref() == b.as_slice()
                                        && m.e_tag != raw[t][i].1
                                    {
                                        return Some(format!(
                                            "{name} head token {:?} is not the one the winning put returned {:?}",
                                            m.e_tag, raw[t][i].1
                                        ));
                                    }
                                }
                            }
                        }
                    }
                    None
                });
                if let Some(text) = check {
                    violation = viol("reads-inconsistent", text);
                }
            }
        }
        (Err(e), _) | (_, Err(e)) => {
            outcome = format!("{} -> unreadable", describe_outs(&outs));
            violation = viol("unreadable-after", e.clone());
        }
    }
    ExecOut { outcome, violation, steps, labels }
}

fn main() {
    let mut run = Run::from_args("C07", "step", "model_checking");
    let scns = scenarios();
    if let Some(file) = run.replay_file.clone() {
        let doc: serde_json::Value = serde_json::from_slice(&std::fs::read(&file).expect("read replay")).expect("json");
        let r = &doc["replay"];
        let wrap: Wrap = serde_json::from_value(r["wrap"].clone()).expect("wrap");
        let name = r["scenario"].as_str().expect("scenario");
        let choices: Vec<u32> = serde_json::from_value(r["choices"].clone()).expect("choices");
        let scn = scns.iter().find(|s| s.name == name).expect("known scenario");
        let serial = serial_outcomes(scn);
        let mut ch = Chooser::new(choices);
        let out = run_one(wrap, scn, &serial, &mut ch);
        println!("replayed {} {}: {} ({} steps)", wrap.label(), name, out.outcome, out.steps);
        for l in &out.labels {
            println!("   {l}");
        }
        run.add("traces_validated_against_impl", 1);
        if let Some(v) = out.violation {
            println!("  -> {}", v.summary);
            run.violation(v);
        }
        run.finish();
    }
    let bound = run.tier.pick(3u32, 8u32);
    let threads = util::n_threads();
    let mut table = Vec::new();
    for wrap in [Wrap::Meta, Wrap::Enc(16)] {
        for scn in &scns {
            let serial = serial_outcomes(scn);
            // determinism of the harness: the default schedule twice
            let a = run_one(wrap, scn, &serial, &mut Chooser::new(vec![]));
            let b = run_one(wrap, scn, &serial, &mut Chooser::new(vec![]));
            if a.labels != b.labels || a.outcome != b.outcome {
                vcore::report::machinery(&format!(
                    "nondeterministic harness {} {}: {:?} vs {:?}",
                    wrap.label(),
                    scn.name,
                    a.labels,
                    b.labels
                ));
            }
            let deadline = Instant::now() + Duration::from_secs_f64(run.remaining_s().max(1.0));
            let mut outcomes: BTreeMap<String, u64> = BTreeMap::new();
            let mut viols: Vec<Violation> = Vec::new();
            let mut steps_total = 0u64;
            let stats = explore(
                bound,
                threads,
                deadline,
                3_000_000,
                |ch| run_one(wrap, scn, &serial, ch),
                |_choices, out: ExecOut| {
                    *outcomes.entry(out.outcome.clone()).or_insert(0) += 1;
                    steps_total += out.steps as u64;
                    if let Some(v) = out.violation {
                        viols.push(v);
                    }
                    true
                },
            );
            run.add("executions", stats.executions);
            run.add("traces_validated_against_impl", stats.executions);
            run.add("transitions", steps_total);
            run.add("evaluations", stats.executions);
            run.add("states", outcomes.len() as u64);
            for o in outcomes.keys() {
                run.distinct(util::fnv64(format!("{}|{}|{o}", wrap.kind(), scn.name).as_bytes()));
            }
            if stats.capped || stats.completed_bound != Some(bound) {
                run.cap_hit(&format!(
                    "{} {}: stopped at preemption bound {:?} of {bound} ({} schedules pending)",
                    wrap.label(),
                    scn.name,
                    stats.completed_bound,
                    stats.pending_left
                ));
            }
            let row = json!({
                "wrapper": wrap.label(),
                "scenario": scn.name,
                "schedules": stats.executions,
                "per_preemption_level": stats.per_level,
                "max_choice_points": stats.max_depth,
                "preemption_bound_completed": stats.completed_bound,
                "serial_outcomes": serial.iter().map(|(o, f, ord)| format!("{ord:?}: {} -> {}", describe_outs(o), describe(f))).collect::<Vec<_>>(),
                "observed_outcomes": outcomes,
            });
            if table.len() % 5 == 0 {
                run.sample(row.clone());
            }
            table.push(row);
            // sorted by schedule so the reported one does not depend on thread timing
            viols.sort_by(|a, b| a.summary.cmp(&b.summary));
            for v in viols {
                run.violation(v);
            }
        }
    }
    run.set("harnesses", json!(table));
    run.set("preemption_bound", json!(bound));
    run.rule(
        "per wrapper {MetaStore, EncryptedStore(cs=16)} and scenario (two or three tasks on one key through one wrapper instance over a gated backend): every schedule of inner-store calls with at most `preemption_bound` preemptions; \
         oracle = answers of every action and final content of all keys equal some serial order of the tasks' atomic steps run on InMemory (a rename is two steps, copy then delete of the source, as documented; everything else is one), after all tasks returned the live instance's list / list_with_delimiter entries, get_ranges at the length boundaries, get with if_match = latest token and head must reflect the last completed commit as a fresh instance reports it (checked before any plain get, which would heal a stale pointer; a listing that overlaps a commit may itself report either version), live and fresh instance read the same, head/list agree, a surviving put's token is the one it returned; \
         distinct = distinct observed (answers, final content) outcomes per harness; states = same; transitions = task polls",
    );
    run.assume("code between two backend calls runs atomically (single-threaded executor); one scheduling point before every backend call takes effect and one after it, before its result is delivered (responses in flight), plus wherever a task blocks on the per-key section");
    run.finish();
}

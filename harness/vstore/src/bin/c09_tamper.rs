//! C09 / tamper — every single-site modification of what the backend holds
//! is either invisible or detected: a read through a fresh `EncryptedStore`
//! answers exactly the written bytes / size, or fails.
//!
//! SCOPE enumeration: objects of sizes {0,1,cs-1,cs,cs+1,2cs+3} (cs = 16)
//! written by put / multipart / copy / rename, two keys plus the replaced
//! older generation of one key; every bit flip, truncation, extension, chunk
//! swap, object swap / replacement and CBOR-level edit of a metadata
//! document, each applied alone; after each one the whole read battery.
//!
//! Readers: a fresh instance (every site); an instance with a warm but stale
//! cache entry for `a` (its previous commit, generation reclaimed by another
//! instance's overwrite) reading, or copying and then reading the target;
//! a fresh instance that copies / renames the touched keys and reads the
//! targets (default and strict mode).
//!
//! Two enumerations run before the site sweep: every ORDER (and subset) of
//! the builder's option methods, from both constructors, against a battery
//! that discriminates each option (`vstore::config`); and a key universe
//! that is adversarial for string handling (same characters with the `/`
//! elsewhere, prefixes, case variants, percent-encoded segments), same-size
//! objects, every cross-key transplant of metadata / payload / both between
//! every ordered pair of keys (`tamper::build_universe`).

use serde_json::json;
use std::collections::{BTreeMap, HashSet};
use vcore::{Run, Tier, Violation, util};
use vstore::config::{self, Ctor, Opt};
use vstore::tamper::{
    Read, Reader, Scenario, Tamper, WRITERS, Writer, apply_tamper, build_scenario, build_universe, check_content, check_content_stale,
    check_content_stale_copy, check_content_via_copy, cross_key_sites, looks_legacy, looks_legacy_lenient, sites, sizes, stale_applicable,
};

fn scenario_label(sc: &Scenario) -> String {
    if is_universe(sc) {
        format!("{} keys with colliding names, a {}-byte object each, written by {:?}", sc.original.len(), sc.size, sc.writer)
    } else {
        format!("{}-byte object written by {:?}", sc.size, sc.writer)
    }
}

/// The adversarial key universe has no replaced older generation.
fn is_universe(sc: &Scenario) -> bool {
    sc.old_gen_path.is_empty()
}

// ---------------------------------------------------------------------------
// builder call orders

fn seq_text(ctor: Ctor, seq: &[Opt]) -> String {
    let mut s = match ctor {
        Ctor::WithSecret => "EncryptedStoreBuilder::with_secret(..)".to_string(),
        Ctor::New => "EncryptedStoreBuilder::new(.., cipher)".to_string(),
    };
    for o in seq {
        s.push_str(&match o {
            Opt::ChunkSize(n) => format!(".with_chunk_size({n})"),
            Opt::Strict => ".with_strict_metadata_auth()".into(),
            Opt::ConditionalPut => ".with_conditional_put()".into(),
            Opt::MetaCache => ".with_meta_cache(cache)".into(),
            Opt::MetaCacheTtlZero => ".with_meta_cache_ttl(0 s)".into(),
            Opt::MetaCacheTtlHour => ".with_meta_cache_ttl(1 h)".into(),
        });
    }
    s + ".build()"
}

/// One (constructor, call sequence): battery against the effective
/// configuration, then against the canonical order's observations.
fn builder_case(w: &config::World, ctor: Ctor, seq: &[Opt], canon: Option<&Vec<config::Obs>>) -> (Vec<Violation>, usize, Option<Vec<config::Obs>>) {
    let r = std::panic::catch_unwind(std::panic::AssertUnwindSafe(|| config::run_sequence(w, ctor, seq)));
    let Ok((obs, devs)) = r else {
        return (vec![], 0, None);
    };
    let replay = json!({"builder": {"ctor": ctor, "seq": seq}});
    let mut out: Vec<Violation> = devs
        .into_iter()
        .map(|d| Violation {
            signature: format!("C09/tamper/builder-order/{}/{}", d.option, d.probe),
            summary: format!("{}: {}", seq_text(ctor, seq), d.text),
            replay: replay.clone(),
        })
        .collect();
    if let Some(c) = canon
        && let Some((a, b)) = obs.iter().zip(c.iter()).find(|(a, b)| a != b)
    {
        let eff = config::effective(seq);
        out.push(Violation {
            signature: format!("C09/tamper/builder-order/differs-from-canonical-order/{}", a.probe),
            summary: format!(
                "{} observes `{}` = {}; the same options in canonical order, {}, observe {}",
                seq_text(ctor, seq),
                a.probe,
                a.value,
                seq_text(ctor, &config::canonical(&eff)),
                b.value
            ),
            replay,
        });
    }
    let n = obs.len();
    (out, n, Some(obs))
}

fn builder_order_phase(run: &mut Run) {
    let w = config::build_world();
    let toks = config::tokens(run.tier == Tier::Thorough);
    let seqs = config::sequences(&toks);
    let threads = util::n_threads();
    // observations of the canonical order of every effective configuration
    let mut effs: Vec<(Ctor, config::Effective)> = Vec::new();
    for ctor in [Ctor::WithSecret, Ctor::New] {
        for s in &seqs {
            effs.push((ctor, config::effective(s)));
        }
    }
    effs.sort();
    effs.dedup();
    let canon_obs: Vec<Option<Vec<config::Obs>>> = util::par_map(effs.clone(), threads, |(ctor, eff)| builder_case(&w, ctor, &config::canonical(&eff), None).2);
    let canon: BTreeMap<(Ctor, config::Effective), Vec<config::Obs>> =
        effs.iter().cloned().zip(canon_obs).filter_map(|(k, o)| o.map(|o| (k, o))).collect();
    let mut work: Vec<(Ctor, Vec<Opt>)> = Vec::new();
    for ctor in [Ctor::WithSecret, Ctor::New] {
        for s in &seqs {
            work.push((ctor, s.clone()));
        }
    }
    run.set("builder_call_sequences", json!(work.len()));
    run.set("builder_effective_configurations", json!(effs.len()));
    let mut done = 0usize;
    let total = work.len();
    for batch in work.chunks(8192) {
        if !run.in_budget() {
            run.cap_hit(&format!("time budget: stopped after {done}/{total} builder call sequences"));
            break;
        }
        let results = util::par_map(batch.to_vec(), threads, |(ctor, seq)| {
            let eff = config::effective(&seq);
            builder_case(&w, ctor, &seq, canon.get(&(ctor, eff)))
        });
        for ((ctor, seq), (viol, n_obs, obs)) in batch.iter().zip(results) {
            done += 1;
            run.add("evaluations", n_obs as u64);
            run.add("builder_observations", n_obs as u64);
            if obs.is_none() {
                run.add("builder_sequences_that_panicked", 1);
                continue;
            }
            run.add("builder_sequences_checked", 1);
            if !seq.is_empty() {
                run.distinct(util::fnv64(format!("builder|{ctor:?}|{seq:?}").as_bytes()));
            }
            if done == 4 || done == 1500 {
                let obs = obs.unwrap();
                run.sample(json!({
                    "builder_calls": seq_text(*ctor, seq),
                    "effective_configuration": format!("{:?}", config::effective(seq)),
                    "observations": obs.len(),
                    "first_observations": obs.iter().take(4).map(|o| format!("{} = {}", o.probe, o.value)).collect::<Vec<_>>(),
                    "deviations": viol.len(),
                }));
            }
            for v in viol {
                run.violation(v);
            }
        }
    }
}

#[derive(Default)]
struct SiteResult {
    applied: bool,
    kind: String,
    reads: u64,
    /// reads that fail although the untampered store answers them
    failed: u64,
    /// reads that fail on the untampered store too (invalid ranges)
    failed_anyway: u64,
    wrong: Vec<Violation>,
    /// probes: texts of wrong answers (recorded, not judged)
    probe_wrong: Vec<String>,
    meta_field_deviations: u64,
    listing_skips: u64,
    panicked: u64,
    rollback_prev: bool,
    /// copy / rename readers: copies the store accepted / refused
    copies_accepted: u64,
    copies_refused: u64,
}

fn check_site(sc: &Scenario, baseline_failed: &HashSet<Read>, t: &Tamper, strict: bool, reader: Reader) -> SiteResult {
    let mut r = SiteResult { kind: t.kind(), ..Default::default() };
    let Some(content) = apply_tamper(sc, t) else {
        return r;
    };
    r.applied = true;
    let touched = t.keys();
    let out = match reader {
        Reader::Fresh => check_content(sc, &content, &touched, strict),
        Reader::Stale => check_content_stale(sc, &content, strict),
        Reader::StaleCopy => {
            let (out, acc, refu) = check_content_stale_copy(sc, &content, strict);
            r.copies_accepted = acc;
            r.copies_refused = refu;
            out
        }
        Reader::Copy | Reader::Rename => {
            let (out, acc, refu) = check_content_via_copy(sc, &content, &touched, strict, reader == Reader::Rename);
            r.copies_accepted = acc;
            r.copies_refused = refu;
            out
        }
    };
    r.reads = out.reads;
    // failures the untampered store does not show: the tamper was detected
    r.failed = out.failed_reads.iter().filter(|rd| !baseline_failed.contains(*rd)).count() as u64;
    r.failed_anyway = out.failed - r.failed;
    r.panicked = out.panicked;
    r.meta_field_deviations = out.soft.meta_field_deviations;
    r.listing_skips = out.soft.listing_entries_skipped;
    if t.is_probe() {
        if matches!(t, Tamper::Rollback) && !out.wrong.is_empty() {
            // does it answer exactly the earlier authentic commit?
            let mut alt = sc.clone();
            alt.original.get_mut("a").unwrap().plain = sc.old_plain.clone();
            let alt_out = check_content(&alt, &content, &touched, strict);
            r.rollback_prev = alt_out.wrong.is_empty() && alt_out.original > 0;
        }
        r.probe_wrong = out.wrong.into_iter().map(|(rd, _, why)| format!("{}: {why}", rd.kind())).collect();
        return r;
    }
    // a tampered document that now LOOKS like pre-authentication legacy
    // metadata (none of an / at / av / g present) is accepted by a default-
    // mode store by design; name that shape in the signature
    let legacy_look = !matches!(t, Tamper::Compound { .. })
        && touched.iter().any(|k| content.get(&format!("meta/{k}")).map(|d| looks_legacy(d) || looks_legacy_lenient(d)).unwrap_or(false));
    let compound_legacy = matches!(t, Tamper::Compound { strip, .. } if vstore::tamper::LEGACY_LOOK.iter().all(|f| strip.iter().any(|s| s == f)));
    for (rd, field, why) in out.wrong {
        // One root cause, four shapes: a default-mode store accepts a
        // document without an / at / av / g as legacy metadata (documented
        // downgrade window, closed by strict mode). Then (1) last_modified
        // falls back to the backend object's timestamp, (2) size is whatever
        // the document says, (3) with size 0 and any object at data/<loc> a
        // full get answers an empty body, (4) the token e is whatever the
        // document says (reached by luck through a bit flip in the length
        // header of `e`, deterministically by the strip+retag edit).
        // Non-empty wrong BYTES would be a different matter and keep their
        // own signature.
        let empty_body = field == "size" && matches!(rd, Read::Get { .. }) && why.starts_with("get reports size 0,");
        let signature = if !strict && (legacy_look || compound_legacy) && field != "bytes" && field != "key" {
            format!(
                "C09/tamper/legacy-look-accepted/{}",
                if field == "last_modified" {
                    "last_modified"
                } else if field == "e_tag" {
                    // (4) the token is whatever the unauthenticated document says
                    "e_tag"
                } else if empty_body {
                    "empty-object"
                } else {
                    "size"
                }
            )
        } else {
            let suffix = if matches!(field, "e_tag" | "last_modified") { format!("/{field}") } else { String::new() };
            let kind = if legacy_look { format!("{}+legacy-look", t.kind()) } else { t.kind() };
            let via = if reader == Reader::Fresh { String::new() } else { format!("{}/", reader.label()) };
            format!("C09/tamper/{via}{}/{}{}", kind, rd.kind(), suffix)
        };
        r.wrong.push(Violation {
            signature,
            summary: format!(
                "{}{}{}; tamper {}; read {}: {}",
                scenario_label(sc),
                if strict { " (strict metadata auth)" } else { "" },
                match reader {
                    Reader::Fresh => "",
                    Reader::Stale => "; reader = an instance whose cache holds the previous commit of `a` (generation reclaimed)",
                    Reader::Copy => "; the key is first copied to a new key by a fresh instance, the target is read",
                    Reader::Rename => "; the key is first renamed to a new key by a fresh instance, the target is read",
                    Reader::StaleCopy => "; an instance whose cache holds the previous commit of `a` (generation reclaimed) copies `a` to a new key, the target is read",
                },
                serde_json::to_string(t).unwrap_or_default(),
                serde_json::to_string(&rd).unwrap_or_default(),
                why
            ),
            replay: json!({"size": sc.size, "writer": sc.writer, "tamper": t, "strict": strict, "reader": reader, "universe": is_universe(sc)}),
        });
    }
    r
}

fn baseline(sc: &Scenario, strict: bool) -> vstore::tamper::SiteOut {
    let keys: Vec<String> = sc.original.keys().cloned().collect();
    check_content(sc, &sc.base, &keys, strict)
}

fn main() {
    let mut run = Run::from_args("C09", "tamper", "fault_enumeration");
    // a panic inside a read of tampered data is caught and counted; keep the console quiet
    std::panic::set_hook(Box::new(|_| {}));
    if let Some(file) = run.replay_file.clone() {
        let doc: serde_json::Value = serde_json::from_slice(&std::fs::read(&file).expect("read replay")).expect("json");
        let r = &doc["replay"];
        if let Some(b) = r.get("builder") {
            let ctor: Ctor = serde_json::from_value(b["ctor"].clone()).expect("ctor");
            let seq: Vec<Opt> = serde_json::from_value(b["seq"].clone()).expect("seq");
            let w = config::build_world();
            let eff = config::effective(&seq);
            println!("replaying {} (effective configuration {eff:?})", seq_text(ctor, &seq));
            let canon = builder_case(&w, ctor, &config::canonical(&eff), None).2;
            let (viol, n, obs) = builder_case(&w, ctor, &seq, canon.as_ref());
            run.add("evaluations", n as u64);
            for o in obs.unwrap_or_default() {
                println!("  {} = {}", o.probe, o.value);
            }
            for v in viol {
                println!("  -> {}", v.summary);
                run.violation(v);
            }
            run.finish();
        }
        let size = r["size"].as_u64().expect("size") as usize;
        let writer: Writer = serde_json::from_value(r["writer"].clone()).expect("writer");
        let t: Tamper = serde_json::from_value(r["tamper"].clone()).expect("tamper");
        let strict = r["strict"].as_bool().unwrap_or(false);
        let reader: Reader = r.get("reader").cloned().and_then(|v| serde_json::from_value(v).ok()).unwrap_or(Reader::Fresh);
        let universe = r.get("universe").and_then(|u| u.as_bool()).unwrap_or(false);
        let sc = if universe { util::block_on(build_universe(size, writer)) } else { util::block_on(build_scenario(size, writer)) };
        println!("replaying {} on {}", serde_json::to_string(&t).unwrap(), scenario_label(&sc));
        let base = baseline(&sc, strict);
        for (rd, _, why) in &base.wrong {
            println!("  untampered store: {rd:?}: {why}");
        }
        let res = check_site(&sc, &base.failed_reads.iter().cloned().collect(), &t, strict, reader);
        run.add("evaluations", res.reads);
        println!(
            "  applied={} reads={} failed_because_of_tamper={} wrong={}",
            res.applied,
            res.reads,
            res.failed,
            res.wrong.len()
        );
        for v in res.wrong {
            println!("  -> {}", v.summary);
            run.violation(v);
        }
        run.finish();
    }

    // development aid (not a tier): VERIF_C09_REFRAME_STRESS=<n> rebuilds every
    // scenario n times (fresh random nonces, tokens, generation salts each
    // time) and applies every bit flip of every METADATA document, default
    // mode, fresh reader: prints how many flips drew an answer other than
    // original-or-error, by signature. Shows which verdict signatures the
    // run-random bytes can reach.
    if let Ok(n) = std::env::var("VERIF_C09_REFRAME_STRESS") {
        let rounds: usize = n.parse().expect("VERIF_C09_REFRAME_STRESS=<rounds>");
        let bits: Vec<u8> = (0..8).collect();
        let mut by_sig: BTreeMap<String, (u64, String)> = BTreeMap::new();
        let (mut flips, mut docs) = (0u64, 0u64);
        for round in 0..rounds {
            let mut work: Vec<(usize, Tamper)> = Vec::new();
            let mut scs = Vec::new();
            for s in sizes() {
                for w in WRITERS {
                    scs.push(util::block_on(build_scenario(s, w)));
                }
            }
            for (i, sc) in scs.iter().enumerate() {
                docs += sc.sym.keys().filter(|p| p.starts_with("meta/")).count() as u64;
                for t in sites(sc, &bits) {
                    if matches!(&t, Tamper::Flip { path, .. } if path.starts_with("meta/")) {
                        work.push((i, t));
                    }
                }
            }
            flips += work.len() as u64;
            let none = HashSet::new();
            let res = util::par_map(work, util::n_threads(), |(i, t)| check_site(&scs[i], &none, &t, false, Reader::Fresh).wrong);
            for v in res.into_iter().flatten() {
                let e = by_sig.entry(v.signature.clone()).or_insert((0, v.summary.clone()));
                e.0 += 1;
            }
            eprintln!("round {}/{rounds}: {flips} flips of {docs} freshly written documents so far", round + 1);
        }
        println!("re-framing stress: {flips} single-bit flips over {docs} freshly written metadata documents");
        for (sig, (n, first)) in &by_sig {
            println!("  {n:>8}  {sig}\n            e.g. {}", first.chars().take(260).collect::<String>());
        }
        std::process::exit(0);
    }

    // all 8 bits of every byte in both tiers; thorough widens the size set
    let bits: Vec<u8> = (0..8).collect();
    let mut size_list = sizes();
    if run.tier == Tier::Thorough {
        let cs = vstore::tamper::CS as usize;
        size_list.extend([2, cs + 2, 2 * cs, 2 * cs + 1, 3 * cs, 3 * cs + 1, 4 * cs + 5]);
    }
    // option methods of the builder in every order (first: cheap, and never cut by the budget)
    let t0 = std::time::Instant::now();
    builder_order_phase(&mut run);
    if std::env::var("VERIF_TIMING").is_ok() {
        eprintln!("builder-order phase: {:.2?}", t0.elapsed());
    }

    let mut scenarios: Vec<Scenario> = Vec::new();
    // the adversarial key universe comes first for the same reason
    let universe: Vec<(usize, Writer)> = match run.tier {
        Tier::Quick => vec![(17, Writer::Put), (17, Writer::Multipart), (1, Writer::Put)],
        Tier::Thorough => {
            let mut v = Vec::new();
            for s in [0usize, 1, 16, 17, 35] {
                for w in [Writer::Put, Writer::Multipart, Writer::Rename] {
                    v.push((s, w));
                }
            }
            v
        }
    };
    for (s, w) in universe {
        scenarios.push(util::block_on(build_universe(s, w)));
    }
    run.set("key_universe", json!({"keys_as_the_caller_spells_them": vstore::tamper::UNIVERSE, "scenarios": scenarios.len()}));
    for s in &size_list {
        for w in WRITERS {
            scenarios.push(util::block_on(build_scenario(*s, w)));
        }
    }

    // the untampered content must read back exactly (sanity of the oracle)
    let mut baseline_failed: Vec<HashSet<Read>> = Vec::new();
    // reads of copy / rename targets that fail on the untampered store too (invalid ranges)
    let mut baseline_failed_targets: Vec<HashSet<Read>> = Vec::new();
    for sc in &scenarios {
        for strict in [false, true] {
            // the other readers on the untampered content
            let keys: Vec<String> = sc.original.keys().cloned().collect();
            let mut others = Vec::new();
            if !is_universe(sc) {
                others.push((Reader::Stale, check_content_stale(sc, &sc.base, strict)));
                let (out, _acc, refused) = check_content_stale_copy(sc, &sc.base, strict);
                if refused > 0 {
                    vcore::report::machinery(&format!("{}: the stale-cache instance could not copy the untampered object", scenario_label(sc)));
                }
                others.push((Reader::StaleCopy, out));
            }
            for reader in [Reader::Copy, Reader::Rename] {
                let (out, _acc, refused) = check_content_via_copy(sc, &sc.base, &keys, strict, reader == Reader::Rename);
                if refused > 0 {
                    vcore::report::machinery(&format!("{}: {refused} copies of untampered objects were refused ({})", scenario_label(sc), reader.label()));
                }
                others.push((reader, out));
            }
            for (reader, out) in others {
                run.add("evaluations", out.reads);
                run.add("baseline_reads", out.reads);
                run.add("baseline_reads_rejected_invalid_range", out.failed);
                if out.failed_reads.iter().any(|rd| matches!(rd, Read::Get { range: None, .. } | Read::Head { .. } | Read::List)) {
                    vcore::report::machinery(&format!("{}: the untampered store does not read back through the {} reader", scenario_label(sc), reader.label()));
                }
                for (rd, _, why) in &out.wrong {
                    run.violation(Violation {
                        signature: format!("C09/tamper/untampered/{}/{}", reader.label(), rd.kind()),
                        summary: format!("{}; untampered store; {}; read {:?}: {}", scenario_label(sc), reader.label(), rd, why),
                        replay: json!({"size": sc.size, "writer": sc.writer, "strict": strict, "reader": reader,
                                       "tamper": Tamper::Extend{path: "none".into(), extra: vec![]}}),
                    });
                }
                if !strict && reader == Reader::Copy {
                    baseline_failed_targets.push(out.failed_reads.iter().cloned().collect());
                }
            }
            let out = baseline(sc, strict);
            run.add("evaluations", out.reads);
            run.add("baseline_reads", out.reads);
            run.add("baseline_reads_rejected_invalid_range", out.failed);
            for (rd, _, why) in &out.wrong {
                run.violation(Violation {
                    signature: format!("C09/tamper/untampered/{}", rd.kind()),
                    summary: format!("{}; untampered store; read {:?}: {}", scenario_label(sc), rd, why),
                    replay: json!({"size": sc.size, "writer": sc.writer, "strict": strict,
                                   "tamper": Tamper::Extend{path: "none".into(), extra: vec![]}}),
                });
            }
            if !strict {
                baseline_failed.push(out.failed_reads.iter().cloned().collect());
            }
        }
    }

    // (scenario, site, strict): CBOR-level edits and probes are also read
    // through a store with strict metadata authentication
    //
    // Further readers of the same sites: the stale-cache instance (sites
    // that touch `a`'s metadata document; thorough: also its payload), and
    // copy / rename followed by the battery on the target (CBOR edits and
    // the compound family in both modes; thorough: every site).
    let wide = run.tier == Tier::Thorough;
    let mut work: Vec<(usize, Tamper, bool, Reader)> = Vec::new();
    for (i, sc) in scenarios.iter().enumerate() {
        if is_universe(sc) {
            // every cross-key transplant between every ordered pair of keys,
            // default and strict mode, read directly and through copy / rename
            for t in cross_key_sites(sc) {
                for strict in [false, true] {
                    for reader in [Reader::Fresh, Reader::Copy, Reader::Rename] {
                        work.push((i, t.clone(), strict, reader));
                    }
                }
            }
            continue;
        }
        for t in sites(sc, &bits) {
            let structured = matches!(t, Tamper::Cbor { .. } | Tamper::Compound { .. });
            let modes: &[bool] = if structured || t.is_probe() { &[true, false] } else { &[false] };
            for strict in modes {
                if !t.is_probe() {
                    if stale_applicable(&t, wide) {
                        work.push((i, t.clone(), *strict, Reader::Stale));
                        work.push((i, t.clone(), *strict, Reader::StaleCopy));
                    }
                    if structured || wide {
                        work.push((i, t.clone(), *strict, Reader::Copy));
                        work.push((i, t.clone(), *strict, Reader::Rename));
                    }
                }
                work.push((i, t.clone(), *strict, Reader::Fresh));
            }
        }
    }
    run.set("tamper_sites_enumerated", json!(work.len()));
    let threads = util::n_threads();
    let mut by_kind: BTreeMap<String, (u64, u64, u64)> = BTreeMap::new(); // sites, detected, silent
    let mut probes: BTreeMap<String, (u64, u64, Option<String>)> = BTreeMap::new();
    let mut soft_kinds: BTreeMap<String, u64> = BTreeMap::new();
    let mut sig_counts: BTreeMap<String, (u64, String)> = BTreeMap::new();
    // reader [mode] -> (sites, reads, reads failed, copies accepted, copies refused)
    let mut by_reader: BTreeMap<String, (u64, u64, u64, u64, u64)> = BTreeMap::new();
    let total = work.len();
    let mut done = 0usize;
    let mut rollback_prev = 0u64;
    let mut samples_taken = 0;
    for batch in work.chunks(16384) {
        if !run.in_budget() {
            run.cap_hit(&format!("time budget: stopped after {done}/{total} tamper sites"));
            break;
        }
        let results: Vec<SiteResult> = util::par_map(batch.to_vec(), threads, |(i, t, strict, reader)| {
            let base = if matches!(reader, Reader::Copy | Reader::Rename | Reader::StaleCopy) { &baseline_failed_targets[i] } else { &baseline_failed[i] };
            check_site(&scenarios[i], base, &t, strict, reader)
        });
        for ((i, t, strict, reader), r) in batch.iter().zip(results) {
            done += 1;
            if !r.applied {
                run.add("sites_not_applicable", 1);
                continue;
            }
            run.add("evaluations", r.reads);
            let mode = if *strict { "strict" } else { "default" };
            if *reader != Reader::Fresh {
                // the other readers: own counters, same verdict
                let e = by_reader.entry(format!("{} [{mode}]", reader.label())).or_insert((0, 0, 0, 0, 0));
                e.0 += 1;
                e.1 += r.reads;
                e.2 += r.failed + r.failed_anyway;
                e.3 += r.copies_accepted;
                e.4 += r.copies_refused;
                if r.failed > 0 || r.copies_refused > 0 {
                    run.distinct(util::fnv64(format!("{i}|{strict}|{reader:?}|{}", serde_json::to_string(t).unwrap()).as_bytes()));
                }
                for v in r.wrong {
                    let e = sig_counts.entry(v.signature.clone()).or_insert((0u64, String::new()));
                    e.0 += 1;
                    if e.1.is_empty() {
                        e.1 = v.summary.clone();
                    }
                    run.violation(v);
                }
                continue;
            }
            if t.is_probe() {
                run.add("probe_sites", 1);
                let e = probes.entry(format!("{} [{mode}]", r.kind)).or_insert((0, 0, None));
                e.0 += 1;
                if !r.probe_wrong.is_empty() {
                    e.1 += 1;
                    if e.2.is_none() {
                        e.2 = Some(format!("{}: {}", scenario_label(&scenarios[*i]), r.probe_wrong[0]));
                    }
                }
                if r.rollback_prev {
                    rollback_prev += 1;
                }
                continue;
            }
            run.add("sites_checked", 1);
            run.add("reads_failed_because_of_tamper", r.failed);
            run.add("reads_of_invalid_ranges_failing_anyway", r.failed_anyway);
            run.add("reads_original_after_tamper", r.reads - r.failed - r.failed_anyway - r.wrong.len() as u64);
            run.add("soft_listing_entries_skipped", r.listing_skips);
            run.add("reads_that_panicked", r.panicked);
            if r.meta_field_deviations > 0 {
                run.add("soft_meta_field_deviations", r.meta_field_deviations);
                *soft_kinds.entry(format!("{} [{mode}]", r.kind)).or_insert(0) += 1;
            }
            let e = by_kind.entry(r.kind.clone()).or_insert((0, 0, 0));
            e.0 += 1;
            if r.failed > 0 {
                e.1 += 1;
                run.distinct(util::fnv64(format!("{i}|{strict}|{}", serde_json::to_string(t).unwrap()).as_bytes()));
            } else {
                e.2 += 1;
            }
            let interesting = match t {
                Tamper::Flip { byte, bit, .. } => *byte % 61 == 7 && *bit == 3,
                Tamper::Cbor { .. } => done % 389 == 0,
                Tamper::SwapChunks { .. } | Tamper::SwapObjects { .. } => done % 7 == 0,
                _ => false,
            };
            if samples_taken < 6 && r.failed > 0 && interesting && scenarios[*i].size >= 16 && done % 4 == samples_taken % 4 {
                samples_taken += 1;
                run.sample(json!({
                    "object": scenario_label(&scenarios[*i]),
                    "tamper": t,
                    "store_mode": mode,
                    "reads": r.reads,
                    "reads_failed_because_of_tamper": r.failed,
                    "reads_answering_original_bytes": r.reads - r.failed - r.failed_anyway,
                    "reads_of_invalid_ranges_failing_anyway": r.failed_anyway,
                }));
            }
            for v in r.wrong {
                let e = sig_counts.entry(v.signature.clone()).or_insert((0u64, String::new()));
                e.0 += 1;
                if e.1.is_empty() {
                    e.1 = v.summary.clone();
                }
                run.violation(v);
            }
        }
    }
    run.set(
        "answers_other_than_original_or_error_by_signature",
        json!(sig_counts.iter().map(|(k, (n, ex))| (k.clone(), json!({"reads": n, "first": ex}))).collect::<BTreeMap<_, _>>()),
    );
    run.set(
        "sites_by_kind",
        json!(by_kind.iter().map(|(k, (n, d, s))| (k.clone(), json!({"sites": n, "detected_by_some_read": d, "no_read_changed": s}))).collect::<BTreeMap<_, _>>()),
    );
    run.set(
        "other_readers",
        json!(by_reader.iter().map(|(k, (n, rd, f, acc, refu))| (k.clone(), json!({"sites": n, "reads": rd, "reads_failed": f, "copies_accepted": acc, "copies_refused": refu}))).collect::<BTreeMap<_, _>>()),
    );
    run.set("scenarios", json!(scenarios.len()));
    run.set("soft_meta_field_deviation_sites_by_kind", json!(soft_kinds));
    run.set(
        "probes_not_judged",
        json!({
            "by_kind": probes.iter().map(|(k, (n, w, ex))| (k.clone(), json!({"sites": n, "sites_with_an_answer_other_than_original_or_error": w, "example": ex}))).collect::<BTreeMap<_, _>>(),
            "rollback_answered_exactly_the_previous_commit": rollback_prev,
            "note": "probes change two things at once (strip every authentication field AND alter the size / relocate the ciphertext) or restore a complete earlier commit; outside the single-site quantifier",
        }),
    );
    run.rule(
        "builder call orders = every sequence without repetition (every subset in every order) of the option calls {with_chunk_size(16), with_chunk_size(7), with_strict_metadata_auth, with_conditional_put, with_meta_cache(handle), with_meta_cache_ttl(0 s)} (thorough: + with_chunk_size(0), with_meta_cache_ttl(1 h)) from both constructors (with_secret, new): the built store runs a battery over a backend holding a genuine pre-authentication object (with and without recorded chunk size), a current object stripped to the legacy look with its ciphertext relocated, and a sealed object - get, 3 ranged gets, get_ranges, head, 3 listings, copy and rename of each; the stored layout (c, tag count, every chunk opened by the harness under the chunk AAD of the configured size) of a put and a multipart upload; Create / Update(latest) / Update(stale); which metadata cache serves - judged against the effective configuration computed by the harness from the documented meaning of the calls (last chunk size wins; strict once called; later of with_meta_cache / with_meta_cache_ttl wins): once with_strict_metadata_auth() was called EVERY read path refuses the three unauthenticated documents, any answer is the written bytes, the layout follows the configured chunk size; and the whole observation vector equals that of the canonical call order of the same effective configuration; \
         key universe = 14 keys whose names collide under sloppy path handling (same characters with the `/` elsewhere: a/bc, ab/c, abc, a/b/c, col/1/23, col/12/3, col/123; prefixes / suffixes: a, ab, a/b; case variants A/bc, a/BC; percent-encoded segments a%2Fbc, a/b#c), each holding its own payload of the SAME size (quick: 17 bytes by put and by multipart, 1 byte by put; thorough sizes {0,1,16,17,35} x {put, multipart, rename}): for every ORDERED pair of keys the source's metadata document alone, its ciphertext alone, and document + ciphertext together are transplanted onto the target key; default and strict mode; read by a fresh instance and through copy / rename of the target; every read of every key answers that key's own bytes, size, e_tag and commit time, or fails; \
         objects = sizes x writers {put, multipart, copy, rename} at chunk size 16, keys a (two generations), a/b (same size, other bytes), c (copy source); \
         sites = every bit of every byte, every truncation length, 4 extensions of every backend object; every chunk swap; every swap / one-way replacement between payload objects (keys and generations) and between metadata documents; \
         CBOR edits of every metadata document (remove / null each field, strip combinations of an, at, av, g, m, c, zero n / an / at / t[i], remove / swap / append tags, alter s, c, av, m, copy g, e, n, t, m, s, an, at and combinations from another key's document and from the older generation's; CBOR edits are read in default and in strict mode); \
         compound downgrade family per key: every subset of {av, an, at, g, m} stripped x legacy object data/<key> {absent, this key's ciphertext, another key's} x size {unchanged, every chunk boundary <= len, the other key's length}, default and strict mode; \
         further readers of the same sites, same verdict: (stale-cache reader) an instance A that read `a` while its previous commit was current - warm, valid cache entry whose generation instance B's overwrite reclaimed - then meets the tampered backend: every site touching a's metadata document (thorough: also its payload object), one fresh A per read {get, head, 6 ranged gets, 2 get_ranges}, so each read is the one that re-resolves the commit point half-way, and one more A that copies `a` to a new key and is then read on the target; (via-copy / via-rename) a fresh instance copies / renames every touched key to a new key - a refusal is a failure to answer - then the full battery on the target must answer the source's original bytes and size: CBOR edits and the compound family, default and strict mode (thorough: every site); \
         each site alone on a copy of the content, read through a fresh EncryptedStore: get, every GetRange kind at boundaries {0,1,15,16,17,len-1,len,len+1}, get_ranges (1-2 ranges), head, list, list_with_delimiter, list_with_offset (full battery on the keys whose objects were touched, get/head/get_ranges on the others); \
         distinct = (object, site) pairs for which at least one read failed that the untampered store answers",
    );
    run.assume("AES-256-GCM and GMAC are unforgeable (cryptographic strength is not checked)");
    run.assume("nonces, tags and generation salts are random per run (no seam): sites, reads and the verdict are the same every run, the split between failed and original-answer reads moves by a few dozen because a flipped bit in random bytes decodes differently");
    run.assume("a listing that omits an entry (undecodable document, compatibility mode) is a failure to answer, not a wrong answer");
    run.assume("verdict fields: bytes, size, e_tag and last_modified of every answer (get, head, the three listings) must be the committed ones, or the call must fail");
    run.finish();
}

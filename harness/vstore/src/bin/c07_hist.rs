//! C07 / HIST — the store wrappers answer every call like a plain in-memory
//! object store, with a real compare-and-swap.
//!
//! Breadth-first over operation histories. A history is `core* . full`:
//! every position but the last draws from the CORE alphabet (all modes,
//! token roles, copy / rename / delete shapes on three nested keys), the last
//! from FULL (CORE + every payload size + every multipart split). Each
//! history is executed on a fresh wrapper and a fresh `InMemory` reference;
//! after it the read battery runs on the live wrapper (warm cache) and on a
//! fresh instance over the same inner store (cold cache).

use serde_json::json;
use std::collections::{BTreeMap, HashSet};
use vcore::{Run, Tier, Violation, util};
use vstore::fix::Wrap;
use vstore::hist::{NodeOut, run_node};
use vstore::ops::{Book, Op, alphabet, applicable};

const CLOCK_BASE: u64 = 1_700_000_000_000;
const CLOCK_WINDOW: u64 = 64_000;

struct Cfg {
    wrap: Wrap,
    /// histories up to this length are enumerated without state dedup
    plain_depth: usize,
    /// histories up to this length are enumerated, the levels beyond
    /// `plain_depth` from one representative per distinct state
    max_depth: usize,
}

#[derive(Clone)]
struct Rep {
    cfg: usize,
    hist: Vec<Op>,
    book: Book,
}

struct Child {
    op_is_core: bool,
    op: Op,
    out: NodeOut,
}

fn main() {
    let mut run = Run::from_args("C07", "hist", "model_checking");
    if let Some(file) = run.replay_file.clone() {
        replay(run, &file);
    }
    let cfgs: Vec<Cfg> = match run.tier {
        Tier::Quick => vec![
            Cfg { wrap: Wrap::Meta, plain_depth: 2, max_depth: 3 },
            Cfg { wrap: Wrap::Enc(1), plain_depth: 2, max_depth: 3 },
            Cfg { wrap: Wrap::Enc(7), plain_depth: 2, max_depth: 3 },
            Cfg { wrap: Wrap::Enc(16), plain_depth: 2, max_depth: 3 },
        ],
        Tier::Thorough => vec![
            Cfg { wrap: Wrap::Meta, plain_depth: 3, max_depth: 5 },
            Cfg { wrap: Wrap::Enc(1), plain_depth: 3, max_depth: 5 },
            Cfg { wrap: Wrap::Enc(7), plain_depth: 3, max_depth: 5 },
            Cfg { wrap: Wrap::Enc(16), plain_depth: 3, max_depth: 5 },
            Cfg { wrap: Wrap::Enc(65536), plain_depth: 2, max_depth: 3 },
        ],
    };
    let alpha: Vec<(Vec<Op>, HashSet<Op>)> = cfgs
        .iter()
        .map(|c| {
            let full = alphabet(c.wrap.cs(), true);
            let core: HashSet<Op> = alphabet(c.wrap.cs(), false).into_iter().collect();
            (full, core)
        })
        .collect();
    run.set(
        "alphabet",
        json!({"core_ops": alpha[0].1.len(), "full_ops": alpha[0].0.len(), "keys": vstore::fix::KEYS}),
    );

    let threads = util::n_threads();
    let mut reps: Vec<Rep> = (0..cfgs.len()).map(|i| Rep { cfg: i, hist: vec![], book: Book::default() }).collect();
    let mut tokens: Vec<u128> = Vec::new();
    let mut tolerated: BTreeMap<String, u64> = BTreeMap::new();
    let mut states: HashSet<(usize, String)> = HashSet::new();
    let mut per_level: Vec<serde_json::Value> = Vec::new();
    let mut node_seq: u64 = 0;
    let overall_max = cfgs.iter().map(|c| c.max_depth).max().unwrap();
    let mut completed_depth = 0usize;
    let mut capped = false;

    for depth in 1..=overall_max {
        let parents: Vec<Rep> = reps.drain(..).filter(|r| depth <= cfgs[r.cfg].max_depth).collect();
        if parents.is_empty() {
            break;
        }
        let mut next: Vec<Rep> = Vec::new();
        let mut next_seen: HashSet<(usize, String)> = HashSet::new();
        let (mut nodes, mut dedup_hits, mut failing_last) = (0u64, 0u64, 0u64);
        let total_parents = parents.len();
        // one work item per (parent history, last op)
        let mut work: Vec<(usize, usize)> = Vec::new();
        for (pi, p) in parents.iter().enumerate() {
            for (j, op) in alpha[p.cfg].0.iter().enumerate() {
                if applicable(op, &p.book) {
                    work.push((pi, j));
                }
            }
        }
        let total_work = work.len();
        let mut done_work = 0usize;
        for batch in work.chunks(8192) {
            if !run.in_budget() {
                run.cap_hit(&format!(
                    "time budget: depth {depth} stopped after {done_work}/{total_work} histories of that depth"
                ));
                capped = true;
                break;
            }
            let items: Vec<(u64, usize, usize)> = batch
                .iter()
                .map(|(pi, j)| {
                    node_seq += 1;
                    (node_seq, *pi, *j)
                })
                .collect();
            let want_sample = per_level.len() < 3 && done_work == 0;
            let results: Vec<Child> = util::par_map(items, threads, |(seq, pi, j)| {
                let rep = &parents[pi];
                let (full, core) = &alpha[rep.cfg];
                let op = &full[j];
                let mut h = rep.hist.clone();
                h.push(op.clone());
                let clock = CLOCK_BASE + seq * CLOCK_WINDOW;
                let sample = want_sample && (j % 37 == 5);
                let o = run_node(cfgs[rep.cfg].wrap, &h, clock, sample);
                Child { op_is_core: core.contains(op), op: op.clone(), out: o }
            });
            for ((pi, _), ch) in batch.iter().zip(results) {
                let rep = &parents[*pi];
                let cfg = &cfgs[rep.cfg];
                done_work += 1;
                {
                    nodes += 1;
                    run.add("transitions", 1);
                    run.add("traces_validated_against_impl", 1);
                    run.add("evaluations", ch.out.reads + ch.out.ops);
                    run.add("reads_compared", ch.out.reads);
                    run.add("mutations_compared", ch.out.ops);
                    if ch.out.last_class != Some(vstore::fix::Class::Ok) {
                        failing_last += 1;
                    }
                    for (k, v) in &ch.out.tolerated {
                        *tolerated.entry(k.to_string()).or_insert(0) += v;
                    }
                    tokens.extend_from_slice(&ch.out.tokens);
                    if let Some(s) = ch.out.sample {
                        run.sample(s);
                    }
                    for v in ch.out.violations {
                        run.violation(v);
                    }
                    if !ch.out.ok {
                        continue;
                    }
                    if states.insert((rep.cfg, ch.out.state_key.clone())) {
                        run.add("states", 1);
                    }
                    run.distinct(util::fnv64(
                        format!("{}|{}|{}|{:?}", rep.cfg, ch.out.state_key, ch.op.kind(), ch.out.last_class).as_bytes(),
                    ));
                    if ch.op_is_core && depth < cfg.max_depth {
                        let dedup = depth >= cfg.plain_depth;
                        if dedup && !next_seen.insert((rep.cfg, ch.out.state_key.clone())) {
                            dedup_hits += 1;
                            continue;
                        }
                        let mut h = rep.hist.clone();
                        h.push(ch.op);
                        next.push(Rep { cfg: rep.cfg, hist: h, book: ch.out.book });
                    }
                }
            }
        }
        let done_parents = total_parents;
        per_level.push(json!({
            "depth": depth,
            "parent_histories": done_parents,
            "histories_executed": nodes,
            "last_op_rejected_by_reference": failing_last,
            "parents_for_next_depth": next.len(),
            "dedup_hits": dedup_hits,
        }));
        if capped {
            break;
        }
        completed_depth = depth;
        reps = next;
    }

    // across all executions (disjoint logical-time windows) no token repeats
    let n_tokens = tokens.len();
    tokens.sort_unstable();
    let dups = tokens.windows(2).filter(|w| w[0] == w[1]).count();
    if dups > 0 {
        run.violation(Violation {
            signature: "C07/hist/token-reuse-across-histories".into(),
            summary: format!("{dups} of {n_tokens} commit tokens collected over all executed histories occurred twice"),
            replay: json!({"note": "cross-history token set; see the per-history token-reuse violations for a replayable case"}),
        });
    }
    run.set("tokens_collected", json!(n_tokens));
    run.set("levels", json!(per_level));
    run.set("max_depth_completed", json!(completed_depth));
    run.set(
        "configs",
        json!(cfgs.iter().map(|c| json!({"wrapper": c.wrap.label(), "exhaustive_depth": c.plain_depth, "dedup_depth": c.max_depth})).collect::<Vec<_>>()),
    );
    run.set("tolerated_deviations", json!(tolerated));
    run.rule(
        "histories = CORE* . FULL over keys {a, a/b, c}: every history up to `exhaustive_depth` mutations is executed; \
         beyond it, one representative history per distinct state (reference content + token-chain shape) is extended, up to `dedup_depth`; \
         each history runs on a fresh wrapper + fresh InMemory reference, then the read battery runs on the warm and on a cold wrapper instance; \
         distinct = (wrapper config, resulting state, last op shape, its result class); \
         three reference behaviours are normalised and counted in `tolerated_deviations` instead of compared: delete of a missing key (wrapper NotFound, InMemory Ok; store-dependent per object_store docs), self-rename with Overwrite (InMemory's default copy+delete destroys the object; modelled as no change) and Update without e_tag on a present key (InMemory Generic, wrapper Precondition; both reject)",
    );
    run.assume("object_store::memory::InMemory 0.14.1 is the reference semantics, except: delete of a missing key (store-dependent per object_store docs), its self-rename (destroys the object) and the error variant it uses for an Update without e_tag");
    run.assume("tokens are compared by role (latest / stale / other key's / fabricated), never by value; date conditions are built per store from that store's own reported last_modified");
    run.assume("cache states covered: the instance that made every commit (warm) and a fresh instance (cold); a second long-lived instance with a lagging cache is outside the single-writer contract");
    run.finish();
}

fn replay(mut run: Run, file: &std::path::Path) -> ! {
    let doc: serde_json::Value = serde_json::from_slice(&std::fs::read(file).expect("read replay")).expect("json");
    let r = &doc["replay"];
    let wrap: Wrap = serde_json::from_value(r["wrap"].clone()).expect("wrap");
    let hist: Vec<Op> = serde_json::from_value(r["history"].clone()).expect("history");
    let clock = r["clock"].as_u64().unwrap_or(CLOCK_BASE);
    println!("replaying {} on {}", hist.iter().map(|o| o.short()).collect::<Vec<_>>().join("; "), wrap.label());
    let out = run_node(wrap, &hist, clock, true);
    run.add("traces_validated_against_impl", 1);
    run.add("evaluations", out.reads + out.ops);
    for v in out.violations {
        println!("  -> {}", v.summary);
        run.violation(v);
    }
    run.finish();
}
